"""
C06 — Instruction semantics match the architecture (x86: the CPU, RISC-V: the manual).

RISC-V (full): theorems `rv_expected_correct`, `rv_generated_eq_expected`, `rv_imm_*` of
lean/Amoco/Props/C06.lean are tied to /repo on every run by
  T  translate_riscv.py: rv32i/asm.py, rv64i/asm.py → Generated/RvSem.lean (re-checked by `decide`);
  C  the generated DSL run by the driver (on the operands amoco really decoded) vs the real
     `instruction(mapper)` on the same concrete states; the decoder hooks' operands vs the model's
     `operands`; the real decoder's mnemonic vs the manual's `decode`;
  oracle: the Lean reference interpreter `rvRef` (driver) and its independent Python twin (rv_ref.py)
     must agree with each other, and amoco must agree with them.
x86 (partial): theorems about the flag / extension / condition-code helpers (Amoco/Model/Flags.lean)
are tied by correspondence on the real helper functions; the instruction bodies (`i_XXX` of
x64/asm.py) are NOT modelled — they are compared with native execution on the host CPU
(harness/rv_x86.py, harness/native/x86exec.c), restricted to architecturally defined flags.
"""
import sys, os, json
from common import *
import translate_riscv, rv_ref

GEN_PATH = os.path.join(LEAN, "Generated", "RvSem.lean")
ISA_TAG = {"rv32": "rv32i", "rv64": "rv64i"}

# (isa, mnemonic) without an `i_` function; must mirror Amoco.Rv.Props.noSemantics
NO_SEMANTICS = {("rv32", "EBREAK"), ("rv64", "EBREAK")}


# -----------------------------------------------------------------------------------------------
# RISC-V case generation
# -----------------------------------------------------------------------------------------------

def boundary_values(n):
    top = 1 << n
    v = [0, 1, 2, 3, 4, 5, 31, 32, 33, 63, 64, 65, 0x7F, 0x80, 0xFF, 0x7FFF, 0x8000, 0xFFFF, 0x7FFFFFFF, 0x80000000,
         0xFFFFFFFF, 0xFFFFFFFE, 0x80000001, top - 1, top - 2, top - 4, top >> 1, (top >> 1) - 1, (top >> 1) + 1,
         0x5555555555555555 % top, 0xAAAAAAAAAAAAAAAA % top, 0x0123456789ABCDEF % top]
    if n == 64:
        v += [0x100000000, 0xFFFFFFFF00000000, 0x00000000FFFFFFFF, 0x8000000080000000, 0x7FFFFFFF80000000]
    return sorted(set(x % top for x in v))


def gen_state(r, n):
    bv = boundary_values(n)
    regs = [0] + [(r.choice(bv) if r.random() < 0.55 else r.getrandbits(n)) for _ in range(31)]
    top = 1 << n
    pcs = [0, 4, 0x1000, 0x80000000, 0x7FFFFFFC, top - 4, (top >> 1) - 4, top >> 1, r.getrandbits(n) & ~3, r.getrandbits(n) & ~3]
    return regs, r.choice(pcs) % top


def gen_word(r, isa, mn):
    rd = r.choice([0, r.randrange(32), r.randrange(32), r.randrange(1, 32)])
    rs1 = r.choice([0, rd, r.randrange(32), r.randrange(1, 32)])
    rs2 = r.choice([0, rd, rs1, r.randrange(32), r.randrange(1, 32)])
    k = r.random()
    if k < 0.5:
        imm = r.choice([0, 1, 2, 4, -1, -2, -4, 0x7FF, -0x800, 0x7FE, 0xFFE, -0x1000, 0x80000, 0x7FFFF, 0xFFFFF, 0xFFFFE,
                        -0x100000, 31, 32, 33, 63, 16, 8])
    else:
        imm = r.getrandbits(21) - (1 << 20)
    return rv_ref.encode(isa, mn, rd, rs1, rs2, imm)


def steer_memory(r, isa, word, regs):
    """make the access of a load/store land somewhere sensible and choose the bytes around it"""
    n = rv_ref.xlen(isa)
    top = 1 << n
    ea = rv_ref.effective_address(isa, word, regs)
    if ea is None:
        return {}, [], "none"
    a, size = ea
    kind = "plain"
    if a + size > top:
        kind = "wraps"
    lo = a - 3
    addrs = [(lo + k) % top for k in range(size + 6)]
    mem = {ad: r.choice([0, 0x7F, 0x80, 0xFF, r.getrandbits(8), r.getrandbits(8)]) for ad in addrs}
    return mem, sorted(set(addrs)), kind


# -----------------------------------------------------------------------------------------------
# comparison helpers
# -----------------------------------------------------------------------------------------------

def norm_ref(regs, pc, mem, dump):
    return {"regs": [0] + list(regs[1:]), "pc": pc, "mem": [[a, mem.get(a)] for a in dump]}


def norm_drv(ans):
    if not isinstance(ans, dict) or "err" in ans:
        return ans
    return {"regs": [0] + list(ans["regs"][1:]), "pc": ans["pc"], "mem": [list(p) for p in ans["mem"]]}


def diff_aspect(real, ref, rd, pc_defined=True):
    """which part of the architectural state differs ('' = agree)"""
    if "raise" in real:
        return "raise:" + real["raise"]
    asp = []
    for k in range(1, 32):
        if real["regs"][k] != ref["regs"][k]:
            if isinstance(real["regs"][k], str):
                asp.append("symbolic")
            asp.append("rd" if k == rd else "other-register")
    if pc_defined and real["pc"] != ref["pc"]:
        asp.append("pc")
    if real["mem"] != ref["mem"]:
        asp.append("mem")
    out = []
    for a in asp:
        if a not in out:
            out.append(a)
    return "+".join(out)


def riscv_part(ck, drv, tier, corr_broken, machinery):
    import rv_amoco
    quick = tier == "quick"
    r = rng("C06.rv")
    per = 14 if quick else 400
    seen_violation = set()          # (isa, mn) with a failing input reported

    gen_eq = drv.ask({"op": "rv.gen_eq"})
    broken_gen = {}
    for isa, mn, st in gen_eq["rows"]:
        miss_ok = (isa, mn) in NO_SEMANTICS
        good = (st == "missing") if miss_ok else (st == "ok")
        ck.count("T.binding." + ("ok" if st == "ok" else st.split(":")[0]))
        if not good:
            broken_gen[(isa, mn)] = st
    ck.cov["generated_table"] = {"rows": len(gen_eq["rows"]), "not_expected": {"%s:%s" % k: v for k, v in broken_gen.items()},
                                 "extra_functions": gen_eq["extra32"] + gen_eq["extra64"], "notes": gen_eq["notes"]}
    ck.oblige("T rv_generated_eq_expected (driver evaluation of the regenerated table)", not broken_gen,
              "; ".join("%s:%s %s" % (k[0], k[1], v) for k, v in sorted(broken_gen.items())))

    for isa in ("rv32", "rv64"):
        n = rv_ref.xlen(isa)
        tag = ISA_TAG[isa]
        cases = []
        for mn in rv_ref.mnemonics(isa):
            k = per * (4 if (isa, mn) in broken_gen and quick else 1)
            if mn in ("FENCE_I", "ECALL", "EBREAK"):
                k = 2 if quick else 20
            for _ in range(k):
                word = gen_word(r, isa, mn)
                regs, pc = gen_state(r, n)
                mem, dump, mk = steer_memory(r, isa, word, regs)
                cases.append((mn, word, regs, pc, mem, dump, mk, "directed"))
        # a stream of arbitrary words on the base opcodes (reserved encodings, other funct7 …)
        for _ in range(60 if quick else 4000):
            word = (r.getrandbits(25) << 7) | r.choice([0x37, 0x17, 0x6F, 0x67, 0x63, 0x03, 0x23, 0x13, 0x33, 0x0F, 0x73, 0x1B, 0x3B])
            regs, pc = gen_state(r, n)
            mem, dump, mk = steer_memory(r, isa, word, regs)
            cases.append((None, word, regs, pc, mem, dump, mk, "random"))

        # --- model side, pipelined -----------------------------------------------------------
        dec = drv.ask_many([{"op": "rv.decode", "isa": isa, "word": c[1]} for c in cases])
        base = [{"op": "rv.step", "isa": isa, "word": c[1], "regs": c[2], "pc": c[3],
                 "mem": [[a, b] for a, b in sorted(c[4].items())], "dump": c[5]} for c in cases]
        ref_ans = drv.ask_many([dict(b, mode="ref") for b in base])
        exp_ans = drv.ask_many([dict(b, mode="expected") for b in base])

        gen_reqs, gen_idx = [], []
        reals = []
        for ci, (mn, word, regs, pc, mem, dump, mk, stream) in enumerate(cases):
            mn_ref = rv_ref.decode(isa, word)
            mn_lean = dec[ci]["mn"]
            if mn_ref != mn_lean:
                machinery.append(("decode twin", isa, hex(word), mn_ref, mn_lean))
                reals.append(None)
                continue
            if mn_ref is None:
                ck.count("rv.%s.not-a-base-instruction" % stream)
                ck.case(("rv", isa, word), nontrivial=False)
                reals.append(None)
                continue
            i = rv_amoco.decode(isa, word)
            reals.append(i)
            if i is None or isinstance(i, str) or i.mnemonic != mn_ref:
                continue
            ops_real = rv_amoco.dump_operands(isa, i)
            if rv_amoco.has_semantics(isa, mn_ref):
                gen_reqs.append(dict(base[ci], mode="generated", mn=mn_ref, ops=ops_real))
                gen_idx.append(ci)
        gen_ans = dict(zip(gen_idx, drv.ask_many(gen_reqs)))

        # --- judge -----------------------------------------------------------------------------
        for ci, (mn, word, regs, pc, mem, dump, mk, stream) in enumerate(cases):
            mn_ref = dec[ci]["mn"]
            if mn_ref is None or reals[ci] is None and rv_ref.decode(isa, word) is None:
                continue
            rd = (word >> 7) & 31
            tm = rv_ref.Memory(mem)
            mnr, xr, pcr, pcdef = rv_ref.step(isa, word, regs, pc, tm)
            twin = norm_ref(xr, pcr, tm, dump)
            lean_ref = norm_drv(ref_ans[ci])
            lean_exp = norm_drv(exp_ans[ci])
            if not pcdef:
                # ECALL/EBREAK: the interpreter of the Lean text leaves pc alone as well
                pass
            if lean_ref != twin:
                machinery.append(("reference twin", isa, hex(word), lean_ref, twin))
                continue
            if mnr != "ECALL" and lean_exp != lean_ref:
                machinery.append(("theorem instance rv_expected_correct", isa, hex(word), lean_exp, lean_ref))
                continue
            ck.count("rv.%s.%s" % (isa, stream))
            ck.count("rv.mem." + mk) if mk != "none" else None
            case = {"isa": isa, "word": "%08x" % word, "mnemonic": mn_ref, "regs": ["%x" % v for v in regs], "pc": "%x" % pc,
                    "mem": {"%x" % a: b for a, b in sorted(mem.items())}}
            i = reals[ci]
            sig_base = "C06:%s:%s:" % (tag, mn_ref)
            # decoding
            if i is None or isinstance(i, str) or i.mnemonic != mn_ref:
                if (mn_ref == "FENCE" and i is None and (word & 0xF00F8F80)) or \
                        (mn_ref == "FENCE_I" and i is None and word != 0x0000100F):
                    ck.count("rv.fence-reserved-fields-not-decoded (skipped)")
                    ck.case(("rv", isa, word), nontrivial=False)
                    continue
                what = "not-decoded" if i is None else (i if isinstance(i, str) else "decoded-as:" + i.mnemonic)
                if isa == "rv64" and mn_ref in ("SLLI", "SRLI", "SRAI") and (word >> 25) & 1 and i is None:
                    what += ":shamt>=32"
                ck.case(("rv", isa, word, tuple(regs), pc), nontrivial=True)
                # is the architectural effect lost?  (a wrong decode executes something else)
                real = None
                if i is not None and not isinstance(i, str):
                    real = rv_amoco.run(isa, i, regs, pc, mem, dump)
                    if diff_aspect(real, twin, rd, pcdef) == "":
                        ck.count("rv.decoded-differently-but-same-effect")
                        continue
                ck.report(sig_base + what, "%s %s (%08x): amoco %s, the manual decodes %s" % (tag, mn_ref, word, what, mn_ref),
                          "oracle", "correspondence decode ~ spec_%s.py" % tag, case=case, real=real if real else what,
                          model=lean_ref, expected=twin)
                seen_violation.add((isa, mn_ref))
                continue
            ops_real = rv_amoco.dump_operands(isa, i)
            ops_model = dec[ci]["ops"]
            real = rv_amoco.run(isa, i, regs, pc, mem, dump)
            nontrivial = True
            ck.case(("rv", isa, word, tuple(regs), pc, tuple(sorted(mem.items()))), nontrivial=nontrivial)
            if ci % 97 == 0:
                ck.sample({"rv": case, "real": real if "raise" in real else {"pc": real["pc"], "rd": real["regs"][rd]},
                           "ref": {"pc": twin["pc"], "rd": twin["regs"][rd]}})
            asp = diff_aspect(real, twin, rd, pcdef)
            if asp == "" and real["regs"][0] != 0:
                asp = "x0"
            if asp:
                if not rv_amoco.has_semantics(isa, mn_ref):
                    asp = "no-semantics"
                elif ops_real != ops_model and "raise" not in real:
                    asp = "operands+" + asp
                if mk == "wraps" and asp != "no-semantics":
                    asp = "access-wraps-address-space"
                ck.report(sig_base + asp, "%s %s (%08x): amoco gives %s, the reference interpreter %s" %
                          (tag, mn_ref, word, brief(real, rd), brief(twin, rd)),
                          "oracle", "Amoco.Rv.Props.rv_generated_eq_expected[%s %s] / correspondence" % (tag, mn_ref),
                          case=case, real=real, model=norm_drv(gen_ans.get(ci)), expected=twin)
                seen_violation.add((isa, mn_ref))
                continue
            # amoco agrees with the manual here; the model must agree with amoco
            if ops_real != ops_model:
                corr_broken.append(("operands %s %s" % (tag, mn_ref), case, ops_real, ops_model, (isa, mn_ref)))
            g = gen_ans.get(ci)
            if g is not None:
                gm = norm_drv(g)
                if isinstance(gm, dict) and "err" in gm:
                    if gm["err"] == "unmodelled":
                        ck.count("rv.model-outside-fragment")
                    corr_broken.append(("generated DSL %s %s" % (tag, mn_ref), case, real, gm, (isa, mn_ref)))
                else:
                    if not pcdef:
                        gm = dict(gm, pc=real["pc"])
                    if gm != dict(real, regs=[0] + real["regs"][1:]):
                        corr_broken.append(("generated DSL %s %s" % (tag, mn_ref), case, real, gm, (isa, mn_ref)))
            # second stream, oracle only: the same bits held as "negative" constants (sf=True)
            if stream == "directed" and (ci % 3 == 0 or not quick):
                real2 = rv_amoco.run(isa, i, regs, pc, mem, dump, signed_rep=True)
                ck.count("rv.signed-representation")
                asp2 = diff_aspect(real2, twin, rd, pcdef)
                if asp2 and mk == "wraps":
                    asp2 = "access-wraps-address-space"
                if asp2:
                    ck.report(sig_base + asp2 + ":signed-representation",
                              "%s %s (%08x) on a state whose negative values are held as cst(-k): amoco gives %s, reference %s" %
                              (tag, mn_ref, word, brief(real2, rd), brief(twin, rd)), "oracle", "oracle rvRef (state representation)",
                              case=dict(case, signed_representation=True), real=real2, expected=twin)

    # disagreements on a mnemonic for which a failing input was reported are consequences of that defect
    corr_broken[:] = [c for c in corr_broken if not (len(c) > 4 and c[4] in seen_violation)]
    # obligations of the generated table without a failing input
    for (isa, mn), st in sorted(broken_gen.items()):
        if (isa, mn) not in seen_violation:
            ck.report("C06:%s:%s:generated-differs" % (ISA_TAG[isa], mn),
                      "i_%s of %s/asm.py is not the expected term (%s) but no deviating input was found" % (mn, ISA_TAG[isa], st),
                      "proof-obligation", "Amoco.Rv.Props.rv_generated_eq_expected[%s %s]" % (ISA_TAG[isa], mn),
                      failing_input_found=False)


def brief(st, rd):
    if "raise" in st:
        return "raise " + st["raise"]
    return "x%d=%s pc=%s%s" % (rd, hx(st["regs"][rd]), hx(st["pc"]), (" mem=" + ",".join(hx(b) for a, b in st["mem"])) if st["mem"] else "")


def hx(v):
    return "%x" % v if isinstance(v, int) else str(v)


# -----------------------------------------------------------------------------------------------

def _restore_generated():
    """a run against a scratch worktree regenerated lean/Generated from that tree: put the committed
    (unchanged /repo) version back so that other runs do not build against it"""
    import subprocess
    subprocess.run(["git", "-C", ROOT, "checkout", "--", "lean/Generated"], stdout=subprocess.DEVNULL, stderr=subprocess.DEVNULL)


def main(tier):
    ck = Check("C06", tier)
    machinery, corr_broken = [], []
    if SCRATCH:
        import atexit
        atexit.register(_restore_generated)
    # T: regenerate the DSL table from the current source
    info = translate_riscv.emit(REPO, GEN_PATH)
    ck.cov["translated"] = {isa: {"bindings": len(d["table"]), "sha256": d["sha256"][:16], "notes": d["notes"]} for isa, d in info.items()}
    ok, out = lake_build(["drv_rv"])
    ck.oblige("lake build drv_rv (regenerated Generated/RvSem.lean compiles)", ok, out[-2000:] if not ok else "")
    if not ok:
        ck.report("C06:translator-output", "Generated/RvSem.lean does not compile", "proof-obligation", out[-2000:], failing_input_found=False)
        return ck.finish("none: driver not built")
    broken = ck.build_and_audit(["Amoco.Props.C06"])
    if tier != "quick" and not broken:
        # independent kernel re-check of the compiled property modules
        import subprocess
        p = subprocess.run(["lake", "env", "leanchecker", "Amoco.Props.C06", "Amoco.Props.C06X86", "Amoco.Proofs.Rv", "Amoco.Model.SemDsl",
                            "Amoco.Model.RiscvRef", "Amoco.Model.Flags", "Generated.RvSem"], cwd=LEAN, stdout=subprocess.PIPE,
                           stderr=subprocess.STDOUT, text=True, timeout=3000)
        ck.oblige("leanchecker (kernel replay of Props.C06 and its models)", p.returncode == 0, p.stdout[-1000:])
        if p.returncode != 0:
            broken.append("leanchecker: " + p.stdout[-1000:])
    drv = Driver("drv_rv")
    riscv_part(ck, drv, tier, corr_broken, machinery)
    import rv_x86
    rv_x86.run(ck, drv, tier, corr_broken, machinery)
    drv.close()
    # x86/x64 ALU instruction bodies: asm.py -> DSL (Generated/X86Sem.lean) -> theorems of Props/C06X86.lean, tied by correspondence
    import x86sem_check
    x86sem_check.run(ck, tier, corr_broken)

    if machinery:
        raise InternalError("oracle/model machinery disagrees with itself: %r" % (machinery[0],))
    # a broken build is a broken proof obligation; the per-mnemonic failing inputs were searched above
    for b in broken:
        if "rv_generated_eq_expected" in b or "lake build failed" in b:
            # already attributed per mnemonic by riscv_part when it comes from the generated table
            if ck.cov["generated_table"]["not_expected"]:
                continue
        ck.report("C06:proof-obligation", "proof obligation broken: %s" % b[:300], "proof-obligation", b[:2000], failing_input_found=False)
    if corr_broken:
        name, case, real, mod = corr_broken[0][:4]
        ck.report("C06:correspondence", "model and code disagree on %d cases (first: %s) although amoco agrees with the reference there"
                  % (len(corr_broken), name), "correspondence", "correspondence SemDsl/operands ~ amoco riscv (%s)" % name,
                  case=case, real=real, model=mod, failing_input_found=False)
    ck.oblige("correspondence generated-DSL / operands / decode ~ amoco", not corr_broken, "%d disagreements" % len(corr_broken))
    ck.assumptions += ["semIdeal gives the DSL the ordinary two's-complement meaning; that cas/expressions.py computes it is C01's subject "
                       "(checked here only through the end-to-end comparison with the real instruction(mapper))",
                       "ECALL/EBREAK: registers and memory compared, next pc left to the execution environment",
                       "FENCE words with non-zero reserved fields (fm, rd, rs1) that amoco does not decode are skipped"]
    ck.assumptions += ["x86: the helper formulas and the bodies of ADD SUB CMP AND OR XOR TEST INC DEC NEG NOT ADC SBB (register/immediate forms, both modes) are "
                       "modelled and proved (Props/C06X86.lean); every other i_XXX body of x64/asm.py and x86/asm.py, memory operands and immediate "
                       "extension are compared with native execution on this host CPU (differential, sampled) — the x86 half of C06 is partial",
                       "x86: flags the SDM leaves undefined for the instruction/operand values are not compared; faulting encodings are skipped",
                       "x86 32-bit mode: only encodings whose bytes and meaning coincide in both modes (no REX, no 0x67, no stack width dependence)"]
    ck.trusted += ["the host CPU as the x86 reference (harness/native/x86exec.c loads/stores all 16 registers and the status flags around the bytes)",
                   "my table of architecturally undefined flags per mnemonic (rv_x86.undefined_flags), from the SDM instruction pages",
                   "harness/translate_riscv.py (Python ast → DSL; validated by executing the DSL against the real code)",
                   "my reading of the RISC-V manual, written twice (Lean rvRef, Python rv_ref.py) and compared on every case",
                   "compiled Lean driver (evaluation of the model definitions)"]
    return ck.finish("RISC-V: every base mnemonic of RV32I/RV64I × words with boundary/random fields × states with boundary/random "
                     "register and pc values, memory bytes chosen around the effective address, plus arbitrary words on the base "
                     "opcodes; non-trivial = decoded by amoco to the manual's mnemonic (distinct by word+state).  x86 helpers: "
                     "AddWithCarry/SubWithBorrow/halfcarry/halfborrow/rotations on boundary+random constants of widths 1..64, parity8 on "
                     "all 256 bytes, the complete CONDITION_CODES table, CF of the shifts for boundary counts, CMP flags.  x86 native: "
                     "encodings of ~60 GP integer mnemonics built from templates (all operand sizes, REX.WRXB, 66/67 prefixes, register and "
                     "memory forms incl. SIB / disp8 / disp32 / rip-relative / absolute) on boundary+random registers, flags and memory",
                     explanation="RISC-V: proof (rv_expected_correct for all states/words; generated table = expected by decide) tied by "
                     "translator + correspondence.  x86: proofs for the shared flag/extension/condition helpers and for the 13 ALU bodies translated "
                     "from asm.py on every run (x86_generated_correct, all widths); the other instruction bodies are judged differentially against the CPU (partial).")


def replay(path):
    """re-run exactly the case of a replay file on the current tree and print real / model / expected"""
    rec = json.load(open(path))
    case = rec.get("case") or {}
    print("replay %s: %s [%s]" % (path, rec.get("what"), rec.get("signature")))
    print("  broken:", rec.get("broken"))
    if "word" in case:
        import rv_amoco
        translate_riscv.emit(REPO, GEN_PATH)
        ok, out = lake_build(["drv_rv"])
        if not ok:
            print("  driver does not build:", out[-500:])
            return 2
        drv = Driver("drv_rv")
        isa, word = case["isa"], int(case["word"], 16)
        regs, pc = [int(v, 16) for v in case["regs"]], int(case["pc"], 16)
        mem = {int(a, 16): b for a, b in case["mem"].items()}
        dump = sorted(mem)
        tm = rv_ref.Memory(mem)
        st = rv_ref.step(isa, word, regs, pc, tm)
        expected = norm_ref(st[1], st[2], tm, dump) if st else None
        base = {"op": "rv.step", "isa": isa, "word": word, "regs": regs, "pc": pc, "mem": [[a, b] for a, b in sorted(mem.items())], "dump": dump}
        i = rv_amoco.decode(isa, word)
        if i is None or isinstance(i, str):
            real = "not-decoded" if i is None else i
            model = None
        else:
            real = rv_amoco.run(isa, i, regs, pc, mem, dump, signed_rep=bool(case.get("signed_representation")))
            model = norm_drv(drv.ask(dict(base, mode="generated", mn=i.mnemonic, ops=rv_amoco.dump_operands(isa, i)))) \
                if rv_amoco.has_semantics(isa, i.mnemonic) else "no-semantics"
        print("  real     :", real)
        print("  model    :", model)
        print("  expected :", expected, "(Lean rvRef:", norm_drv(drv.ask(dict(base, mode="ref"))) == expected, ")")
        drv.close()
        return 0 if real == expected else 1
    if "code" in case:
        import rv_x86
        nat = rv_x86.Native()
        code = bytes.fromhex(case["code"])
        regs, flags = [int(v, 16) for v in case["regs"]], int(case["rflags"], 16)
        mem = bytes.fromhex(case["mem_pattern"]) * (rv_x86.WIN // 256)
        st, nregs, nflags, nmem = nat.run(code, regs, flags, mem)
        mode = case.get("mode", "x64")
        i = rv_x86.amoco_decode(code, mode)
        real = rv_x86.amoco_run(i, regs, flags, mem, mode) if i is not None and not isinstance(i, str) else ("not-decoded" if i is None else i)
        if isinstance(real, dict) and "mem" in real:
            real = dict(real, mem="same" if real["mem"] == nmem else "differs", regs=[hx(v) for v in real["regs"]])
        print("  real     :", i, real)
        print("  model    : (x86 instruction bodies are not modelled)")
        print("  expected : status", st, "regs", ["%x" % v for v in nregs] if nregs else None, "flags", rv_x86.flags_of(nflags) if nflags is not None else None)
        nat.close()
        return 0
    print("  real     :", rec.get("real"))
    print("  model    :", rec.get("model"))
    print("  expected :", rec.get("expected"))
    return 0


if __name__ == "__main__":
    if len(sys.argv) > 2 and sys.argv[1] == "--replay":
        sys.exit(replay(sys.argv[2]))
    sys.exit(main(sys.argv[1] if len(sys.argv) > 1 else "quick"))
