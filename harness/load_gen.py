"""
load_gen.py — seeded generators for C15 (independent of amoco): synthesised ELF images (both classes,
both byte orders, the machines amoco has an OS loader for, several page sizes; unaligned, adjacent,
page-sharing, bss, clobbering and malformed segment layouts; optional dynamic part with REL/RELA
relocation sections), synthesised PE / Mach-O images, Intel-HEX / S-record streams, raw blobs.
"""
import struct

EM_SPARC, EM_386, EM_MIPS, EM_ARM, EM_SH, EM_X86_64, EM_AARCH64, EM_RISCV = 2, 3, 8, 40, 42, 62, 183, 243

# (machine, x64, be, ptr bytes of the OS loader, stack top, name)
TARGETS = [
    (EM_386, False, False, 4, 0x7FFFFFFF, "linux32/x86"),
    (EM_X86_64, True, False, 8, 0x00007FFFFFFFFFFF, "linux64/x64"),
    (EM_ARM, False, False, 4, 0x7FFFFFFF, "linux32/arm"),
    (EM_SPARC, False, True, 4, 0x7FFFFFFF, "linux32/sparc"),
    (EM_MIPS, False, True, 4, 0x7FFFFFFF, "linux32/mips"),
    (EM_MIPS, False, False, 4, 0x7FFFFFFF, "linux32/mips_le"),
    (EM_RISCV, False, False, 4, 0x7FFFFFFF, "linux32/riscv"),
]
# class / byte order not matching the usual one of the machine (the loaders dispatch on e_machine only)
ODD_TARGETS = [
    (EM_386, True, False, 4, 0x7FFFFFFF, "linux32/x86 (ELF64 file)"),
    (EM_X86_64, False, False, 8, 0x00007FFFFFFFFFFF, "linux64/x64 (ELF32 file)"),
    (EM_386, False, True, 4, 0x7FFFFFFF, "linux32/x86 (big-endian file)"),
    (EM_X86_64, True, True, 8, 0x00007FFFFFFFFFFF, "linux64/x64 (big-endian file)"),
    (EM_ARM, False, True, 4, 0x7FFFFFFF, "linux32/arm (big-endian file)"),
]
PAGE_SIZES = [16, 64, 256, 4096, 4096, 0x10000]
ODD_PAGE_SIZES = [1, 2, 24, 1000, 4097, 0x3000]

PT_NULL, PT_LOAD, PT_DYNAMIC, PT_INTERP, PT_NOTE, PT_PHDR = 0, 1, 2, 3, 4, 6
PT_GNU_STACK = 0x6474e551


def ehdr(x64, be, machine, entry, phoff, phnum, shoff, shnum, shstrndx, etype=2):
    o = ">" if be else "<"
    ident = b"\x7fELF" + bytes([2 if x64 else 1, 2 if be else 1, 1, 0, 0]) + b"\0" * 7
    A = "Q" if x64 else "I"
    return ident + struct.pack(o + "HHI" + A + A + A + "IHHHHHH", etype, machine, 1, entry, phoff, shoff, 0,
                               64 if x64 else 52, 56 if x64 else 32, phnum, 64 if x64 else 40, shnum, shstrndx)


def phdr(x64, be, p):
    o = ">" if be else "<"
    if x64:
        return struct.pack(o + "IIQQQQQQ", p["type"], p.get("flags", 5), p["offset"], p["vaddr"], p["vaddr"],
                           p["filesz"], p["memsz"], p.get("align", 0x1000))
    return struct.pack(o + "IIIIIIII", p["type"], p["offset"], p["vaddr"], p["vaddr"], p["filesz"], p["memsz"],
                       p.get("flags", 5), p.get("align", 0x1000))


def shdr(x64, be, s):
    o = ">" if be else "<"
    if x64:
        return struct.pack(o + "IIQQQQIIQQ", s["name"], s["type"], 0, s.get("addr", 0), s["offset"], s["size"],
                           s.get("link", 0), 0, 1, s.get("entsize", 0))
    return struct.pack(o + "IIIIIIIIII", s["name"], s["type"], 0, s.get("addr", 0), s["offset"], s["size"],
                       s.get("link", 0), 0, 1, s.get("entsize", 0))


class ElfGen(object):
    def __init__(self, r, ck=None):
        self.r, self.ck = r, ck

    def count(self, k):
        if self.ck is not None:
            self.ck.count(k)

    def layout(self, ps, x64, top, nbody):
        """PT_LOAD list with explicit placement classes. returns (segments, kinds)."""
        r = self.r
        nseg = r.choice([1, 1, 2, 2, 2, 3, 3, 4])
        m = ps - 1
        pow2 = ps & m == 0
        lim = (1 << 46) if x64 and r.random() < 0.3 else 0x70000000
        unit = max(ps, 16)
        va = r.randrange(1, max(2, min(lim // unit - 64, 1 << 20))) * unit
        if r.random() < 0.1:
            va = 0                       # PIE-like: first segment at 0
        segs, kinds = [], []
        prev = None
        for n in range(nseg):
            if prev is None:
                kind = r.choice(["aligned", "aligned", "unaligned"])
                if kind == "unaligned":
                    va += r.randrange(1, unit)
            else:
                pend = prev["vaddr"] + prev["memsz"]
                kind = r.choice(["far", "far", "next-page", "adjacent-byte", "share-page", "share-page", "unaligned-far",
                                 "overlap", "descending"] if r.random() < 0.25 else
                                ["far", "next-page", "adjacent-byte", "share-page", "unaligned-far"])
                if kind == "far":
                    va = ((pend + m) // unit + r.randrange(1, 5)) * unit
                elif kind == "unaligned-far":
                    va = ((pend + m) // unit + r.randrange(1, 5)) * unit + r.randrange(1, unit)
                elif kind == "next-page":
                    va = -(-pend // unit) * unit
                elif kind == "adjacent-byte":
                    va = pend
                elif kind == "share-page":
                    va = pend + r.randrange(1, max(2, unit // 2))
                elif kind == "overlap":
                    va = max(0, pend - r.randrange(1, max(2, min(prev["memsz"] + 1, unit))))
                elif kind == "descending":
                    va = max(0, prev["vaddr"] - r.randrange(1, 4) * unit)
            fs = r.choice([0, 1, r.randrange(1, unit), r.randrange(1, unit), unit, r.randrange(unit, 3 * unit + 1)])
            bss = r.choice([0, 0, 0, 1, r.randrange(1, unit), r.randrange(1, unit), r.randrange(unit, 2 * unit + 1)])
            if fs == 0 and bss == 0 and r.random() < 0.8:
                bss = r.randrange(1, unit)
            # file offset
            ok = r.random()
            if prev is not None and kind in ("adjacent-byte", "share-page", "next-page") and r.random() < 0.6:
                off = prev["offset"] + (va - prev["vaddr"])       # same address-to-offset delta: one contiguous file mapping
                okind = "same-delta"
            elif ok < 0.76:
                base = r.randrange(0, max(1, nbody // unit)) * unit
                off = base + (va & m) if pow2 else (base & ~m) + (va & m)
                okind = "congruent"
            elif ok < 0.88:
                # unaligned segment (p_align 0/1): any file offset the loader can seek to, not congruent to the address
                off = (va & m) + r.randrange(0, max(1, nbody - (va & m)))
                if (off & m) == (va & m):
                    off += 1
                okind = "unaligned-offset"
            elif ok < 0.94:
                off = r.randrange(0, nbody)
                okind = "incongruent"
            else:
                off = nbody + r.randrange(0, 2 * unit)            # beyond the end of the file
                okind = "beyond-eof"
            if okind != "beyond-eof" and r.random() < 0.93:
                fs = min(fs, max(0, nbody - off))                 # keep the file part inside the file
            if r.random() < 0.03:
                ms = max(0, fs - r.randrange(1, 4))               # memsz < filesz (malformed)
                okind += "+memsz<filesz"
            else:
                ms = fs + bss
            p = dict(type=PT_LOAD, offset=off, vaddr=va, filesz=fs, memsz=ms,
                     align=r.choice([0, 1]) if okind.startswith("unaligned-offset") else (ps if r.random() < 0.8 else 1))
            segs.append(p)
            kinds.append("%s/%s%s" % (kind, okind, "/bss" if ms > fs else ""))
            prev = p
        if r.random() < 0.04:
            # next to / across the stack pages
            base = (top & ~m) if pow2 else top - (top & m)
            segs[-1]["vaddr"] = max(0, base - 2 * ps - r.randrange(0, 2 * unit))
            segs[-1]["offset"] = (segs[-1]["offset"] & ~m) + (segs[-1]["vaddr"] & m) if pow2 else segs[-1]["offset"]
            kinds[-1] += "/near-stack"
        return segs, kinds

    def image(self, target=None, ps=None, dynamic=None):
        """→ (bytes, meta)"""
        r = self.r
        if target is None:
            target = r.choice(ODD_TARGETS) if r.random() < 0.12 else r.choice(TARGETS)
        machine, x64, be, ptr, top, tname = target
        if ps is None:
            ps = r.choice(ODD_PAGE_SIZES) if r.random() < 0.08 else r.choice(PAGE_SIZES)
        unit = max(ps, 16)
        nbody = max(r.randrange(2, 8) * unit + r.randrange(0, unit), 640 + r.randrange(0, 64))   # room for the header tables
        segs, kinds = self.layout(ps, x64, top if x64 else min(top, 0x7FFFFFFF), nbody)
        if not x64 and any(p[k] >= (1 << 32) for p in segs for k in ("vaddr", "offset", "filesz", "memsz")):
            return self.image(target, ps, dynamic)
        if dynamic is None:
            dynamic = r.random() < 0.35
        o = ">" if be else "<"
        ehsz, phsz, shsz = (64, 56, 64) if x64 else (52, 32, 40)
        body = bytearray(r.getrandbits(8) for _ in range(nbody))
        extra = bytearray()               # appended behind the body: interp string, tables

        def put(b):
            off = nbody + len(extra)
            extra.extend(b)
            return off
        phdrs = []
        others = [dict(type=PT_NOTE, offset=r.randrange(0, nbody), vaddr=r.randrange(0, 1 << 20), filesz=8, memsz=8),
                  dict(type=PT_GNU_STACK, offset=0, vaddr=0, filesz=0, memsz=0),
                  dict(type=PT_PHDR, offset=ehsz, vaddr=segs[0]["vaddr"] + ehsz, filesz=phsz, memsz=phsz),
                  dict(type=0x70000003, offset=0, vaddr=0, filesz=0, memsz=0)]          # unknown type: dropped by Elf.__init__
        for p in segs:
            if r.random() < 0.25:
                phdrs.append(r.choice(others))
            phdrs.append(p)
        if r.random() < 0.3:
            phdrs.append(r.choice(others))
        relocs, shnum, shoff, shstrndx = [], 0, 0, 0
        if dynamic:
            ikind = r.choice(["path", "path", "path", "empty", "zeros"])
            istr = {"path": b"/lib/ld-linux.so.2\0", "empty": b"", "zeros": b"\0\0\0\0"}[ikind]
            ioff = put(istr)
            ip = dict(type=PT_INTERP, offset=ioff, vaddr=0, filesz=len(istr), memsz=len(istr))
            phdrs.insert(r.randrange(0, len(phdrs) + 1), ip)
            if r.random() < 0.1:
                phdrs.append(dict(type=PT_INTERP, offset=put(b"/x\0"), vaddr=0, filesz=3, memsz=3))
            # symbols
            nsym = r.randrange(1, 6)
            names = [b""] + [("sym%d_%d" % (k, r.randrange(100))).encode() for k in range(1, nsym + 1)]
            strtab = b""
            noff = []
            for nm in names:
                noff.append(len(strtab))
                strtab += nm + b"\0"
            symtab = b""
            for k in range(len(names)):
                if x64:
                    symtab += struct.pack(o + "IBBHQQ", noff[k], 0x12, 0, 0, 0, 0)
                else:
                    symtab += struct.pack(o + "IIIBBH", noff[k], 0, 0, 0x12, 0, 0)
            # relocation sections
            loads_ = [p for p in segs if p["memsz"] > 0]
            secs = []
            for sn in range(r.choice([1, 1, 2])):
                rela = r.random() < 0.5
                ents = b""
                for k in range(r.randrange(0, 7)):
                    c = r.random()
                    if c < 0.75 and loads_:
                        p = r.choice(loads_)
                        a = p["vaddr"] + r.randrange(0, max(1, p["memsz"]))
                        if r.random() < 0.7:
                            a -= a % ptr
                    elif c < 0.85 and relocs:
                        a = r.choice(relocs)[0] + r.choice([0, 0, 1, ptr - 1, ptr])     # duplicate / partly overlapping slot
                    elif c < 0.92:
                        a = 0
                    else:
                        a = r.randrange(1, 1 << 31)
                    sym = r.randrange(0, len(names))
                    info = (sym << 32 | 7) if x64 else (sym << 8 | 7)
                    W = "Q" if x64 else "I"
                    ents += struct.pack(o + W + W + (W if rela else ""), a, info, *([5] if rela else []))
                    if a:
                        relocs.append((a, names[sym].decode()))
                secs.append(((b".rela" if rela else b".rel") + (b".plt", b".dyn")[sn], 4 if rela else 9, ents,
                             (3 if rela else 2) * (8 if x64 else 4)))
            shstr = b"\0"
            sh = [dict(name=0, type=0, offset=0, size=0)]

            def sec(name, typ, content, entsize=0, link=0):
                nonlocal shstr
                noff_ = len(shstr)
                shstr += name + b"\0"
                sh.append(dict(name=noff_, type=typ, offset=put(content), size=len(content), entsize=entsize, link=link))
            sec(b".dynsym", 11, symtab, 24 if x64 else 16, 2)
            if r.random() < 0.93:
                sec(b".dynstr", 3, strtab)
            for nm, typ, ents, esz in secs:
                sec(nm, typ, ents, esz, 1)
            nm_off = len(shstr)
            shstr += b".shstrtab\0"
            sh.append(dict(name=nm_off, type=3, offset=put(shstr), size=len(shstr)))
            shstrndx = len(sh) - 1
            shnum = len(sh)
            while (nbody + len(extra)) % 8:
                extra.append(0)
            shoff = nbody + len(extra)
            for s in sh:
                extra.extend(shdr(x64, be, s))
            if not any(s["name"] and shstr[s["name"]:].startswith(b".dynstr\0") for s in sh):
                relocs = []
        # entry point
        L = [p for p in segs if p["filesz"] > 0]
        if L and r.random() < 0.9:
            p = r.choice(L)
            entry = p["vaddr"] + r.randrange(0, p["filesz"])
        else:
            entry = r.randrange(0, 1 << (64 if x64 else 32))
        phoff = ehsz
        head = ehdr(x64, be, machine, entry, phoff, len(phdrs), shoff, shnum, shstrndx) + b"".join(phdr(x64, be, p) for p in phdrs)
        if len(head) > nbody:
            body.extend(bytes(len(head) - nbody))
        body[:len(head)] = head
        if len(body) > nbody:
            # the header grew the body: tables in `extra` keep their recorded offsets only if nothing moved
            return self.image(target, ps, dynamic)
        data = bytes(body) + bytes(extra)
        meta = dict(format="elf", target=tname, machine=machine, x64=x64, be=be, ptr=ptr, top=top, ps=ps, kinds=kinds,
                    dynamic=bool(dynamic), nreloc=len(relocs))
        for k in kinds:
            for part in k.split("/"):
                self.count("elf.seg." + part)
        self.count("elf.target." + tname)
        self.count("elf.ps.%d" % ps)
        self.count("elf.nseg.%d" % len(segs))
        if dynamic:
            self.count("elf.dynamic")
        return data, meta


# ------------------------------------------------------------------------------------------------
# ELF images for the sweep over every registered ELF loader (OS, bare-metal fallback, vm …)
# ------------------------------------------------------------------------------------------------

# usual link addresses (hosted executables, PIE-like low images, flash / RAM windows of micro-controllers); all of them
# away from the top of the 31-bit user space, where the OS loaders put their stack pages
LINK_BASES = [0x10000, 0x400000, 0x08048000, 0x10000000, 0x20000000, 0x60000000, 0x80000000, 0xA0000000]
ISOLATION = 0x10000                      # >= every page size a loader may use: segments never share a page
TAIL_CAP = 0x30000
TAIL_CLASSES = ["none", "in-page", "to-page-end", "1-further-page", "k-further-pages", "k-further-pages", "k-further-pages"]
FILE_CLASSES = ["pure-bss", "small", "small", "to-page-end", "over-a-page"]


def bss_tail_image(r, machine, x64, be, ps, ck=None, probe=False, light=False):
    """an executable for `machine` whose PT_LOAD segments are isolated (no two within 64K of each other, whatever page
    size the loader uses) and end in zero-filled tails of every class: none / inside the last file-backed page / exactly
    to its end / into the next page / over several further pages (of the configured page size and of 4096, the page size
    of the loaders that have one of their own).  The bytes of the file behind every file-backed part are non-zero.
    `probe`: the plainest image of the family (one segment, no tail).  → (bytes, meta)"""
    U = max(ps, 4096)
    nseg = 1 if probe else r.choice([1, 2, 2, 3])
    va = r.choice(LINK_BASES) + r.randrange(0, 16) * ISOLATION
    segs, kinds = [], []
    fcur = U                               # the first file page holds the header tables
    multi = False
    for n in range(nseg):
        inpage = 0 if probe else r.choice([0, 0, r.randrange(1, U), U - r.randrange(1, 32), r.randrange(1, 64)])
        fclass = "small" if probe else r.choice(FILE_CLASSES)
        room0 = U - inpage
        fs = {"pure-bss": 0, "small": r.randrange(1, max(2, min(room0, U // 2))), "to-page-end": room0,
              "over-a-page": room0 + r.randrange(1, U + 1)}[fclass]
        end = inpage + fs
        room = (-end) % U                 # bytes left in the last file-backed page (of size U)
        tclass = "none" if probe else r.choice(TAIL_CLASSES)
        if tclass == "in-page" and room < 2:
            tclass = "1-further-page"
        if tclass == "none" and fs == 0:
            tclass = "k-further-pages"
        W = r.choice([ps, 4096, U])
        if tclass == "none":
            tail = 0
        elif tclass == "in-page":
            tail = r.randrange(1, room)
        elif tclass == "to-page-end":
            tail = room if room else U
        elif tclass == "1-further-page":
            tail = room + r.randrange(1, W + 1)
        else:
            k = r.choice([2, 2, 3, 5] if light else [2, 3, 5, 8, 13])
            tail = room + (k - 1) * W + r.randrange(1, W + 1)
        tail = min(tail, TAIL_CAP)
        if tail > room:
            multi = True
        off = fcur + inpage
        p = dict(type=PT_LOAD, offset=off, vaddr=va + inpage, filesz=fs, memsz=fs + tail, flags=7, align=U)
        segs.append(p)
        kinds.append("%s/tail:%s" % (fclass, tclass))
        fcur = -(-(off + fs + 1) // U) * U
        va = -(-(va + inpage + fs + tail) // ISOLATION) * ISOLATION + r.randrange(1, 4) * ISOLATION
    if any(p["vaddr"] + p["memsz"] >= (1 << 32) for p in segs):
        return bss_tail_image(r, machine, x64, be, ps, ck, probe, light)
    nbody = fcur + 64
    body = bytearray((r.getrandbits(8) % 255) + 1 for _ in range(nbody))
    withfile = [p for p in segs if p["filesz"] >= 4]
    if withfile:
        p = withfile[0]
        entry = p["vaddr"] + r.randrange(0, p["filesz"] - 3)
        entry += (-entry) % 4
        if entry >= p["vaddr"] + p["filesz"]:
            entry = p["vaddr"] + (-p["vaddr"]) % 4
    else:
        entry = segs[0]["vaddr"] + (-segs[0]["vaddr"]) % 4
    ehsz = 64 if x64 else 52
    head = ehdr(x64, be, machine, entry, ehsz, len(segs), 0, 0, 0) + b"".join(phdr(x64, be, p) for p in segs)
    body[:len(head)] = head
    if ck is not None and not probe:
        for k in kinds:
            for part in k.split("/"):
                ck.count("sweep.seg." + part)
        ck.count("sweep.nseg.%d" % nseg)
        ck.count("sweep.ps.%d" % ps)
    return bytes(body), dict(format="elf", machine=machine, x64=x64, be=be, ps=ps, kinds=kinds, multi_page_tail=multi,
                             probe=probe)


# ------------------------------------------------------------------------------------------------
# PE
# ------------------------------------------------------------------------------------------------

def pe_image(r, ck=None):
    """small PE32 / PE32+ image: sections with VirtualSize <,=,> SizeOfRawData, optional import table."""
    plus = r.random() < 0.4
    salign = r.choice([0x200, 0x1000, 0x1000, 0x2000])
    falign = 0x200
    base = r.choice([0x400000, 0x10000000, 0x140000000 if plus else 0x1000000])
    nsec = r.randrange(1, 5)
    wsz = 8 if plus else 4
    optsz = 240 if plus else 224
    hdr_end = 0x80 + 24 + optsz + 40 * nsec
    size_headers = -(-hdr_end // falign) * falign
    secs, raws = [], []
    rva = -(-size_headers // salign) * salign
    fptr = size_headers
    want_imports = r.random() < 0.5
    imp_sec = r.randrange(0, nsec) if want_imports else None
    iat_slots = []
    for n in range(nsec):
        rawsize = r.choice([0, falign, falign, 2 * falign, r.randrange(1, 3) * falign])
        c = r.random()
        if c < 0.3:
            vsize = rawsize
        elif c < 0.65:
            vsize = rawsize + r.randrange(1, 2 * salign)          # bss-like tail
        elif c < 0.9:
            vsize = max(1, rawsize - r.randrange(1, falign)) if rawsize else r.randrange(1, salign)
        else:
            vsize = 0
        raw = bytearray(r.getrandbits(8) for _ in range(rawsize))
        if n == imp_sec:
            rawsize = max(rawsize, 2 * falign)
            raw = bytearray(r.getrandbits(8) for _ in range(rawsize))
            vsize = max(vsize, rawsize)
            # import directory at the start of the section: 2 dlls
            dlls = [(b"KERNEL32.dll", [b"ExitProcess", b"GetStdHandle", None]), (b"user32.dll", [b"MessageBoxA"])]
            ndll = r.choice([1, 2])
            dlls = dlls[:ndll]
            cur = 20 * (ndll + 1)
            desc = b""
            blob = bytearray()
            layout = []
            for dll, syms in dlls:
                n_ = len(syms) + 1
                ilt_off = cur
                cur += n_ * wsz
                iat_off = cur
                cur += n_ * wsz
                name_off = cur
                cur += len(dll) + 1
                hint_offs = []
                for s in syms:
                    if s is None:
                        hint_offs.append(None)
                    else:
                        hint_offs.append(cur)
                        cur += 2 + len(s) + 1
                        cur += cur % 2
                layout.append((dll, syms, ilt_off, iat_off, name_off, hint_offs))
            img = bytearray(cur)
            for k, (dll, syms, ilt_off, iat_off, name_off, hint_offs) in enumerate(layout):
                struct.pack_into("<IIIII", img, 20 * k, rva + ilt_off, 0, 0, rva + name_off, rva + iat_off)
                img[name_off:name_off + len(dll)] = dll
                for i, s in enumerate(syms):
                    if s is None:
                        v = (1 << (8 * wsz - 1)) | (17 + i)
                        sym = "#%d" % (17 + i)
                    else:
                        v = rva + hint_offs[i]
                        img[hint_offs[i] + 2:hint_offs[i] + 2 + len(s)] = s
                        sym = s.decode()
                    struct.pack_into("<Q" if plus else "<I", img, ilt_off + i * wsz, v)
                    struct.pack_into("<Q" if plus else "<I", img, iat_off + i * wsz, v)
                    iat_slots.append((base + rva + iat_off + i * wsz, "%s::%s" % (dll.decode(), sym)))
            raw[:len(img)] = img
            imp_dir = (rva, 20 * (ndll + 1))
        ch = 0x60000020 if n == 0 else r.choice([0xC0000040, 0x40000040, 0x800 if r.random() < 0.06 else 0xC0000080])
        secs.append(dict(name=(".s%d" % n).encode().ljust(8, b"\0"), vsize=vsize, rva=rva, rawsize=rawsize,
                         rawptr=fptr if rawsize else r.choice([0, fptr]), ch=ch))
        raws.append(bytes(raw))
        fptr += rawsize
        rva += max(salign, -(-max(vsize, rawsize, 1) // salign) * salign)
        if r.random() < 0.15:
            rva += salign
    entry_rva = secs[0]["rva"] + (r.randrange(0, secs[0]["rawsize"]) if secs[0]["rawsize"] else 0)
    stack = r.choice([0 if r.random() < 0.2 else 0x4000, 0x1000, 0x10000, 0x100000 if r.random() < 0.1 else 0x2000])
    dos = bytearray(0x80)
    dos[:2] = b"MZ"
    struct.pack_into("<I", dos, 0x3c, 0x80)
    coff = b"PE\0\0" + struct.pack("<HHIIIHH", 0x8664 if plus else 0x14c, nsec, 0, 0, 0, optsz, 0x22 if plus else 0x102)
    if plus:
        opt = struct.pack("<HBBIIIIIQIIHHHHHHIIIIHHQQQQII", 0x20b, 14, 0, 0, 0, 0, entry_rva, 0x1000, base, salign, falign,
                          6, 0, 0, 0, 6, 0, 0, rva, size_headers, 0, 3, 0, stack, 0x1000, 0x100000, 0x1000, 0, 16)
    else:
        opt = struct.pack("<HBBIIIIIIIIIHHHHHHIIIIHHIIIIII", 0x10b, 14, 0, 0, 0, 0, entry_rva, 0x1000, 0x1000, base, salign,
                          falign, 6, 0, 0, 0, 6, 0, 0, rva, size_headers, 0, 3, 0, stack, 0x1000, 0x100000, 0x1000, 0, 16)
    dirs = bytearray(16 * 8)
    if imp_sec is not None:
        struct.pack_into("<II", dirs, 8, *imp_dir)
    opt += bytes(dirs)
    assert len(opt) == optsz, (len(opt), optsz)
    sh = b"".join(struct.pack("<8sIIIIIIHHI", s["name"], s["vsize"], s["rva"], s["rawsize"], s["rawptr"], 0, 0, 0, 0, s["ch"])
                  for s in secs)
    head = bytes(dos) + coff + opt + sh
    data = head.ljust(size_headers, b"\0") + b"".join(raws)
    if r.random() < 0.1 and len(data) > size_headers + 16:
        data = data[:len(data) - r.randrange(1, 16)]              # last section's raw data cut by the end of the file
    meta = dict(format="pe", plus=plus, ptr=wsz, top=0x00007FFFFFFFFFFF if plus else 0x7FFFFFFF, nsec=nsec,
                imports=len(iat_slots))
    if ck is not None:
        ck.count("pe.%s" % ("pe32+" if plus else "pe32"))
        for s in secs:
            ck.count("pe.sec.%s" % ("removed" if s["ch"] == 0x800 else "vsize>raw" if s["vsize"] > s["rawsize"] else
                                    "vsize=raw" if s["vsize"] == s["rawsize"] else "vsize<raw"))
        if iat_slots:
            ck.count("pe.imports")
    return data, meta


# ------------------------------------------------------------------------------------------------
# Mach-O 64
# ------------------------------------------------------------------------------------------------

def macho_image(r, ck=None):
    """x86-64 Mach-O: __PAGEZERO, segments with filesize <,= vmsize, LC_MAIN or LC_UNIXTHREAD."""
    nseg = r.randrange(1, 4)
    segs = []
    vm = 0x100000000
    body = bytearray()
    cmds = []
    use_main = r.random() < 0.6
    ncmds_extra = 1
    hdr_guess = 32 + 72 * (nseg + 1) + 200 + 24 + 56 + 32
    fileoff = 0
    filedata = bytearray(r.getrandbits(8) for _ in range(hdr_guess))
    for n in range(nseg):
        fsz = r.choice([0x100, 0x200, 0x1000, r.randrange(1, 0x400)])
        if n == 0:
            fo, fsz = 0, max(fsz, hdr_guess)
        else:
            fo = len(filedata)
            filedata.extend(r.getrandbits(8) for _ in range(fsz))
        c = r.random()
        vsz = fsz if c < 0.4 else fsz + r.randrange(1, 0x2000) if c < 0.9 else -(-fsz // 0x1000) * 0x1000
        if n > 0 and r.random() < 0.15:
            fsz_, vsz = 0, r.randrange(1, 0x1000)                 # pure zero-fill segment
            fo, fsz = 0, 0
        segs.append(dict(name=("__SEG%d" % n).encode().ljust(16, b"\0"), vmaddr=vm, vmsize=vsz, fileoff=fo, filesize=fsz))
        vm += -(-max(vsz, 1) // 0x1000) * 0x1000 + r.choice([0, 0, 0x1000])
    lc = b""
    lc += struct.pack("<II16sQQQQIIII", 0x19, 72, b"__PAGEZERO".ljust(16, b"\0"), 0, 0x100000000, 0, 0, 0, 0, 0, 0)
    for s in segs:
        lc += struct.pack("<II16sQQQQIIII", 0x19, 72, s["name"], s["vmaddr"], s["vmsize"], s["fileoff"], s["filesize"], 7, 5, 0, 0)
    static = r.random() < 0.1          # no LC_LOAD_DYLIB: MachO.dynamic is never set, the osx loader raises
    nlc = nseg + 2
    if not static:
        lc += struct.pack("<IIIIII", 0x2, 24, 0, 0, 0, 0)                                  # LC_SYMTAB, no symbols
        lc += struct.pack("<IIIIII", 0xC, 24 + 32, 24, 2, 0x10000, 0x10000) + b"/usr/lib/libSystem.B.dylib".ljust(32, b"\0")
        nlc += 2
        if r.random() < 0.7:
            lc += struct.pack("<III", 0xE, 12 + 20, 12) + b"/usr/lib/dyld".ljust(20, b"\0")  # LC_LOAD_DYLINKER
            nlc += 1
    entryoff = r.randrange(0, segs[0]["filesize"])
    stack = None
    if use_main:
        stacksize = r.choice([0, 0, 0x2000, 0x1000])
        lc += struct.pack("<IIQQ", 0x80000028, 24, entryoff, stacksize)
        entry = segs[0]["vmaddr"] + entryoff
        stack = stacksize or None
        n_cmds = nlc
    else:
        regs = [0] * 21
        regs[16] = segs[0]["vmaddr"] + entryoff
        lc += struct.pack("<IIII", 0x5, 16 + 21 * 8, 4, 42) + struct.pack("<21Q", *regs)
        entry = regs[16]
        stack = "2pages"
        n_cmds = nlc
    head = struct.pack("<IIIIIIII", 0xfeedfacf, 0x01000007, 3, 2, n_cmds, len(lc), 0x200085, 0) + lc
    assert len(head) <= hdr_guess
    filedata[:len(head)] = head
    meta = dict(format="macho", nseg=nseg, entry=entry, stack=stack, main=use_main, static=static)
    if ck is not None:
        ck.count("macho.%s" % ("LC_MAIN" if use_main else "LC_UNIXTHREAD"))
        for s in segs:
            ck.count("macho.seg.%s" % ("zerofill" if s["filesize"] == 0 else "vmsize>filesize" if s["vmsize"] > s["filesize"] else "vmsize=filesize"))
    return bytes(filedata), meta


# ------------------------------------------------------------------------------------------------
# HEX / SREC / raw
# ------------------------------------------------------------------------------------------------

def hexline(typ, addr, body):
    raw = bytes([len(body), (addr >> 8) & 0xff, addr & 0xff, typ]) + body
    return b":" + (raw + bytes([(-sum(raw)) & 0xff])).hex().upper().encode()


def hex_stream(r, ck=None):
    """Intel-HEX: data records (possibly overlapping / out of order), one addressing mode per stream
    (none, segment, linear), optional start record."""
    mode = r.choice(["plain", "plain", "segment", "linear"])
    lines = []
    if mode == "segment":
        lines.append(hexline(2, 0, struct.pack(">H", r.randrange(1, 0x1000))))
    elif mode == "linear":
        lines.append(hexline(4, 0, struct.pack(">H", r.randrange(1, 0x100))))
    a = r.choice([r.randrange(0, 0x4000), r.randrange(0, 0xff00)])
    for n in range(r.randrange(1, 12)):
        ln = r.choice([1, 4, 16, 16, 16, 32])
        c = r.random()
        if c < 0.7:
            pass                                      # contiguous
        elif c < 0.85:
            a += r.randrange(1, 64)                   # gap
        else:
            a = max(0, a - r.randrange(1, 24))        # overlaps what was written before
        if a + ln > 0xffff:
            a = r.randrange(0, 0x1000)
        lines.append(hexline(0, a, bytes(r.getrandbits(8) for _ in range(ln))))
        a += ln
        if r.random() < 0.2 and a + 24 < 0xffff:
            # a run of tiny adjacent records written from the highest address down: they stay separate memory objects
            sizes = [r.randrange(1, 4) for _ in range(r.randrange(3, 6))]
            top_ = a + sum(sizes)
            for sz in reversed(sizes):
                top_ -= sz
                lines.append(hexline(0, top_, bytes(r.getrandbits(8) for _ in range(sz))))
            a += sum(sizes)
        if mode == "linear" and r.random() < 0.1:
            lines.append(hexline(4, 0, struct.pack(">H", r.randrange(1, 0x100))))
    start = r.choice([None, None, "lin", "seg"])
    if start == "lin":
        lines.append(hexline(5, 0, struct.pack(">I", r.choice([r.randrange(0, 0x10000), r.randrange(0, 1 << 32)]))))
    elif start == "seg":
        lines.append(hexline(3, 0, struct.pack(">HH", r.randrange(0, 0x100), r.randrange(0, 0x10000))))
    lines.append(hexline(1, 0, b""))
    if ck is not None:
        ck.count("hex.mode.%s" % mode)
        ck.count("hex.start.%s" % start)
    return b"\n".join(lines) + b"\n", dict(format="hex", mode=mode, start=start)


def srecline(t, addr, body):
    alen = {0: 2, 1: 2, 2: 3, 3: 4, 5: 2, 7: 4, 8: 3, 9: 2}[t]
    raw = bytes([alen + len(body) + 1]) + addr.to_bytes(alen, "big") + body
    return b"S%d" % t + (raw + bytes([0xff - (sum(raw) & 0xff)])).hex().upper().encode()


def srec_stream(r, ck=None):
    t = r.choice([1, 2, 3])
    lines = [srecline(0, 0, b"HDR")]
    amax = {1: 0x8000, 2: 0xF00000, 3: 0xF0000000}[t]
    a = r.choice([r.randrange(0, 0x8000), r.randrange(0, amax)])
    n = 0
    for k in range(r.randrange(1, 12)):
        ln = r.choice([1, 4, 16, 16, 32])
        c = r.random()
        if c < 0.7:
            pass
        elif c < 0.85:
            a += r.randrange(1, 64)
        else:
            a = max(0, a - r.randrange(1, 24))
        lines.append(srecline(t, a, bytes(r.getrandbits(8) for _ in range(ln))))
        a += ln
        n += 1
        if r.random() < 0.2:
            sizes = [r.randrange(1, 4) for _ in range(r.randrange(3, 6))]
            top_ = a + sum(sizes)
            for sz in reversed(sizes):
                top_ -= sz
                lines.append(srecline(t, top_, bytes(r.getrandbits(8) for _ in range(sz))))
                n += 1
            a += sum(sizes)
    lines.append(srecline(5, n, b""))
    start = r.choice([None, 0, r.randrange(1, 0x8000), r.randrange(1, amax)])
    if start is not None:
        lines.append(srecline({1: 9, 2: 8, 3: 7}[t], start, b""))
    if ck is not None:
        ck.count("srec.S%d" % t)
        ck.count("srec.start.%s" % ("none" if start is None else "zero" if start == 0 else "nonzero"))
    return b"\n".join(lines) + b"\n", dict(format="srec", type=t, start=start)


def raw_blob(r, ck=None):
    n = r.choice([1, 16, 100, 1000, 5000])
    b = bytes(r.getrandbits(8) for _ in range(n))
    if b[:1] in (b":", b"S") or b[:2] == b"MZ" or b[:4] == b"\x7fELF":
        b = b"\x90" + b[1:]
    if ck is not None:
        ck.count("raw.len.%d" % n)
    return b, dict(format="raw", n=n)
