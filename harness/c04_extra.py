"""
c04_extra.py — two more families of decode modes / inputs for C04 (index = most-constrained-first scan):

 * fetch-endianness toggles: some ISAs take the fetch endianness from a callable that reads run-time
   state (a dict entry of the cpu module).  Every such entry is discovered by reflection on the callable,
   and each value of it is a decode mode of the ONE long-lived disassembler object: nothing is rebuilt
   or re-dumped, the state is flipped (also back and forth between two calls) and every call must
   still equal the independent scan done with the endianness in force at that call.

 * inputs longer than maxlen whose instruction legitimately consumes more than maxlen bytes:
   variable-length specs (the `*` tail) get tails made of LEB128-style operands padded with redundant
   continuation bytes (0x80 ... then a byte < 0x80), so that the hook reads past the maxlen-byte key window.
"""
import isa


# ------------------------------------------------------------------------------------------------
# fetch-endianness toggles
# ------------------------------------------------------------------------------------------------

class Toggle(object):
    def __init__(self, holder, key, obj, orig, value, e):
        self.holder, self.key, self.obj, self.orig, self.value, self.e = holder, key, obj, orig, value, e

    def set(self, on=True):
        self.obj[self.key] = self.value if on else self.orig

    def desc(self):
        return {"dict": self.holder, "key": self.key, "value": self.value}


def endian_toggles(d):
    """run-time state read by the fetch-endianness callable of disassembler d: every int entry of a dict
    the callable names (global or closure) whose change of value changes what the callable returns."""
    f = d.endian
    code = getattr(f, "__code__", None)
    if code is None:
        return []
    holders = []
    g = getattr(f, "__globals__", {})
    for nm in code.co_names:
        if isinstance(g.get(nm), dict):
            holders.append((nm, g[nm]))
    for nm, cell in zip(code.co_freevars, getattr(f, "__closure__", None) or ()):
        try:
            if isinstance(cell.cell_contents, dict):
                holders.append((nm, cell.cell_contents))
        except ValueError:
            pass
    out = []
    try:
        e0 = f()
    except Exception:
        return []
    for nm, obj in holders:
        for key in code.co_consts:
            if not (isinstance(key, str) and key in obj and isinstance(obj[key], int)):
                continue
            orig = obj[key]
            for v in (0, 1, -1):
                if v == orig:
                    continue
                obj[key] = v
                try:
                    e1 = f()
                except Exception:
                    e1 = e0
                finally:
                    obj[key] = orig
                if e1 != e0 and e1 in (1, -1):
                    out.append(Toggle(nm, key, obj, orig, v, e1))
                    break
    return out


def apply_recorded_toggle(d, t):
    """replay helper: set the recorded state on the endianness callable of d."""
    for tg in endian_toggles(d):
        if tg.holder == t.get("dict") and tg.key == t.get("key"):
            tg.obj[tg.key] = t.get("value")
            return True
    return False


def _fp(res):
    return (res[0], isa.fingerprint(res[1]) if res[0] == "ok" else res[1])


def explore_toggles(ck, I, name, r, sorted_stable, n_dir, n_rand, n_long):
    """every endianness toggle of ISA I x every mode, on the long-lived disassembler object."""
    d = I.dis
    toggles = endian_toggles(d)
    ck.cov.setdefault("endian_toggles", {})[name] = [t.desc() for t in toggles]
    for tg in toggles:
        e_def = d.endian()
        try:
            for idx in range(I.nsets):
                I.set_mode(idx)
                label = "%s/%d" % (name, idx)
                specs = isa.module_specs(I, idx)
                ref_order = sorted_stable(specs)
                tg.set(True)
                e = d.endian()
                assert e == tg.e
                # gen_inputs reads the endianness in force: the directed bytes are laid out for it
                inputs = isa.gen_inputs(I, specs, r, n_dir, n_rand) + long_inputs(I, specs, r, n_long)
                tg.set(False)
                inputs_def = isa.gen_inputs(I, specs, r, max(n_dir // 3, len(specs)), n_rand // 2)
                isa.reset(d)

                def one(bs, e_now, how):
                    real = _fp(isa.real_decode(d, bs, fresh=False))
                    ref = _fp(isa.ref_scan(d, ref_order, bs, e_now))
                    ck.case((label, "endian", e_now, bs), nontrivial=real[0] == "ok")
                    ck.count("endian-toggle[%+d].%s.%s" % (e_now, how, real[0]))
                    if real != ref:
                        size = None
                        for res in (ref, real):
                            if res[0] == "ok" and size is None:
                                size = 8 * (len(res[1][0]) // 2)
                        ck.report("C04:%s:fetch-endian=%+d:index-%s/scan-%s:%s-bit" % (label, e_now, real[0], ref[0], size),
                                  "%s with %s[%r]=%r (fetch endianness %+d, set on the live disassembler, %s): disassemble(%s) = %r but "
                                  "most-constrained-first scan gives %r" % (label, tg.holder, tg.key, tg.obj[tg.key], e_now, how, bs.hex(), real, ref),
                                  "oracle", "Amoco.Dis.Props.lookup_eq_scan (tree built under fetch endianness %+d)" % e_def,
                                  case={"isa": name, "mode": idx, "bytes": bs.hex(), "endian": e_now,
                                        "toggle": {"dict": tg.holder, "key": tg.key, "value": tg.obj[tg.key]}},
                                  real=real, expected=ref)

                # (a) the state stays flipped over a whole sweep
                tg.set(True)
                for kind, bs in inputs:
                    one(bs, e, "held")
                # (b) flipped back and forth between two calls: default-layout bytes under the default
                #     endianness, then flipped-layout bytes under the flipped one, ...
                for k in range(min(len(inputs), len(inputs_def))):
                    tg.set(False)
                    one(inputs_def[k][1], e_def, "alternating")
                    tg.set(True)
                    one(inputs[k][1], e, "alternating")
                # (c) back to the default for good: the index must answer as before the excursion
                tg.set(False)
                for kind, bs in inputs_def:
                    one(bs, e_def, "restored")
        finally:
            tg.set(False)
            I.set_mode(0)
            isa.reset(d)
    return toggles


# ------------------------------------------------------------------------------------------------
# inputs longer than maxlen consumed by variable-length hooks
# ------------------------------------------------------------------------------------------------

def _leb_operand(r, npad, style):
    """one LEB128-style operand: optional low group, npad continuation bytes, a final byte < 0x80."""
    first = [r.getrandbits(7) | 0x80] if r.random() < 0.6 else []
    if style == 0:
        pad = [0x80] * npad                                   # redundant zero groups
    elif style == 1:
        pad = [0xff] * npad                                   # redundant sign groups (negative SLEB)
    else:
        pad = [r.getrandbits(7) | 0x80 for _ in range(npad)]  # any continuation bytes
    last = [r.choice([0, 0, 1, 0x7f, r.getrandbits(7)])]
    return bytes(first + pad + last)


def long_tail(r, maxlen, headlen):
    """a tail that makes head+tail longer than maxlen by a few bytes up to ~2*maxlen, as 1..3 padded operands."""
    target = max(maxlen - headlen, 0) + r.choice([0, 1, 1, 2, 3, 5, 8, 13, maxlen, maxlen + 7])
    nops = r.choice([1, 1, 1, 2, 3])
    style = r.choice([0, 0, 0, 1, 2])
    big = r.randrange(nops)                                    # the operand that carries the padding
    npads = [r.choice([0, 0, 1, 3]) for _ in range(nops)]
    npads[big] = max(target - sum(n + 2 for k, n in enumerate(npads) if k != big) - 1, npads[big])
    tail = b"".join(_leb_operand(r, n, style) for n in npads)
    return tail + bytes(r.getrandbits(8) for _ in range(r.choice([0, 0, 1, 4])))


def long_inputs(isa_obj, specs, r, n):
    """('long', bytes) inputs: variable-length specs followed by padded-operand tails that cross the
    maxlen-byte window (some with prefixes in front); a few fixed-length ones with long garbage behind."""
    e = -1 if isa_obj.be else 1
    maxlen = isa_obj.maxlen
    var = [s for s in specs if s.size == 0 and s.pfx is not True]
    fixed = [s for s in specs if s.size != 0 and s.pfx is not True]
    pf = [s for s in specs if s.pfx is True]
    out = []
    if var:
        order = list(var) if len(var) <= n else r.sample(var, n)
        while len(order) < n:
            order.append(r.choice(var))
        for s in order:
            head = isa.directed_bytes(s, e, r, tail=0)
            bs = head + long_tail(r, maxlen, len(head))
            if pf and r.random() < 0.25:
                for _ in range(r.choice([1, 1, 2])):
                    bs = isa.directed_bytes(r.choice(pf), e, r, tail=0) + bs
            out.append(("long", bs))
    for _ in range(min(n // 8, len(fixed))):
        s = r.choice(fixed)
        out.append(("long", isa.directed_bytes(s, e, r, tail=maxlen + r.choice([1, 5, 20]))))
    return out


def prefix_histories(isa_obj, specs, r, n):
    """('pfx-history', bytes) inputs for modes that have prefix specs: prefixed variable-length specs whose first
    tail byte takes the boundary addressing forms (mod/rm-style: low 3 bits 4 or 5, top 2 bits 0..3) — the forms
    on which hooks branch (and sometimes raise) — each followed by a plain unprefixed probe.  Decoded as part of
    the one history of the mode: whatever a call leaves behind shows in the next call's comparison with the scan."""
    e = -1 if isa_obj.be else 1
    pf = [s for s in specs if s.pfx is True]
    var = [s for s in specs if s.size == 0 and s.pfx is not True]
    plain = [s for s in specs if s.pfx is not True]
    if not pf or not var:
        return []
    out = []
    for _ in range(n):
        s = r.choice(var)
        head = isa.directed_bytes(s, e, r, tail=0)
        b0 = (r.choice([0, 0, 1, 2, 3]) << 6) | (r.getrandbits(3) << 3) | r.choice([5, 5, 4, r.getrandbits(3)])
        bs = head + bytes([b0]) + bytes(r.choice([0, 0, r.getrandbits(8)]) for _ in range(r.choice([4, 8, 10])))
        for _ in range(r.choice([1, 1, 2])):
            bs = isa.directed_bytes(r.choice(pf), e, r, tail=0) + bs
        out.append(("pfx-history", bs))
        out.append(("pfx-history", isa.directed_bytes(r.choice(plain), e, r)))
    return out
