"""
C13 — Expressions, maps and memory behave as values.

Lean side (lean/Amoco/Props/C13.lean): the in-place reading of the algebra's operations — an
operation that rewrites an operand node in place replaces it by what the functional model returns,
so `operand_preserved` (width and bit-vector denotation of every operand object are unchanged) is the
soundness/width theorems of the simplifier read on the post-state, lifted to arbitrary operation
sequences over a workspace by induction; the memory half is C08's `op_leaves_others` /
`fork_leaves_others`.
Tie and oracle (this file, every run): workspace histories on REAL amoco objects with deliberate
sharing — the same object used as both operands, as operand of several results, stored in maps and
re-used, sliced, composed, simplified (each option), evaluated under partial and total environments,
merged, pickled.  After every operation every object that existed before is re-examined by an
independent structural walker (reads the node attributes, evaluates with Python integers): its width
must be unchanged and its value under 8 fixed valuations must be unchanged.  Workspace expressions use
only sign-agnostic operators, so the value does not depend on `sf` annotations (those are C01's
"declared signedness").  Pickle half (no theorem: CPython's pickle): every object, map and memory map is
round-tripped and must print, compare, and evaluate identically.
"""
import sys, pickle
from common import *
fresh_amoco()
from amoco.cas.expressions import *
from amoco.cas.mapper import mapper, merge
from amoco.system.memory import MemoryMap
from amoco.config import conf


class Unmodelled(Exception):
    pass


class CopyDiffers(Exception):
    pass


def M(w):
    return (1 << w) - 1


def walk(e, rho):
    """independent evaluation of an amoco expression object by structural walk; rho: reg name -> int"""
    k = type(e).__name__
    w = e.size
    if k == "cst":
        return e.v & M(w)
    if k in ("reg", "ext", "lab"):
        if e.ref not in rho:
            raise Unmodelled("free " + e.ref)
        return rho[e.ref] & M(w)
    if k == "slc":
        return (walk(e.x, rho) >> e.pos) & M(w)
    if k == "comp":
        v, cover = 0, 0
        for (lo, hi), p in e.parts.items():
            v |= (walk(p, rho) & M(hi - lo)) << lo
            cover += hi - lo
        if cover != w:
            raise Unmodelled("comp does not tile")
        return v
    if k == "tst":
        c = walk(e.tst, rho)
        return walk(e.l, rho) if c & 1 else walk(e.r, rho)
    if k == "uop":
        r = walk(e.r, rho)
        s = e.op.symbol
        if s == "~":
            return ~r & M(w)
        if s == "-":
            return -r & M(w)
        if s == "+":
            return r
        raise Unmodelled(s)
    if k == "op":
        s = e.op.symbol
        l, r = walk(e.l, rho), walk(e.r, rho)
        if s == "+": return (l + r) & M(w)
        if s == "-": return (l - r) & M(w)
        if s == "*": return (l * r) & M(w)
        if s == "&": return l & r
        if s == "|": return l | r
        if s == "^": return l ^ r
        if s == "==": return int(l == r)
        if s == "!=": return int(l != r)
        if s == "<<": return (l << r) & M(w) if r < 4096 else 0
        if s == ">>": return (l >> r) if r < 4096 else 0
        raise Unmodelled(s)
    raise Unmodelled(k)


REGS = [("a", 32), ("b", 32), ("c", 32), ("h", 16), ("q", 8)]
VALS = [
    {"a": 0, "b": 0, "c": 0, "h": 0, "q": 0},
    {"a": 0xffffffff, "b": 0xffffffff, "c": 1, "h": 0xffff, "q": 0xff},
    {"a": 0x80000000, "b": 0x7fffffff, "c": 31, "h": 0x8000, "q": 0x80},
    {"a": 1, "b": 2, "c": 3, "h": 4, "q": 5},
    {"a": 0x12345678, "b": 0x9abcdef0, "c": 0x0f0f0f0f, "h": 0xbeef, "q": 0x5a},
    {"a": 0xdeadbeef, "b": 0x1000, "c": 32, "h": 0x00ff, "q": 0x0f},
    {"a": 0x55555555, "b": 0xaaaaaaaa, "c": 7, "h": 0x1234, "q": 0x01},
    {"a": 0xfffffffe, "b": 1, "c": 0xffffffff, "h": 1, "q": 0xfe},
]


def values(e):
    out = []
    for rho in VALS:
        try:
            out.append(walk(e, rho))
        except Unmodelled as u:
            out.append("?")
        except RecursionError:
            out.append("?")
    return out


def kind(e):
    return type(e).__name__


def canon_read(items):
    """a MemoryMap.read result up to the grouping of raw bytes (copies may join adjacent raw pieces)"""
    out = []
    for t in items:
        if isinstance(t, (bytes, bytearray)):
            if out and isinstance(out[-1], bytes):
                out[-1] = out[-1] + bytes(t)
            else:
                out.append(bytes(t))
        else:
            out.append(str(t))
    return [x.hex() if isinstance(x, bytes) else x for x in out]


def probes(e):
    """what the public API answers about an object: whether it prints, and the values of a few
    unaligned slices (an object keeps denoting the same value, so reading parts of it must keep
    giving the corresponding parts of that value, whatever was done with it in between)"""
    out = []
    try:
        str(e)
        out.append("ok")
    except Exception as ex:
        out.append("raises-" + type(ex).__name__)
    w = e.size
    for lo, hi in ((1, w - 1), (w // 3, w // 3 + max(w // 2, 1)), (0, max(w - 3, 1))):
        if not (0 <= lo < hi <= w):
            continue
        try:
            out.append((lo, hi, values(e[lo:hi])))
        except Exception as ex:
            out.append("raises-" + type(ex).__name__)
    return out


def probes_differ(before, now, vals):
    """index of the first probe that answered at creation and now raises or gives another value"""
    for j, (a, b) in enumerate(zip(before, now)):
        if isinstance(a, str) and a.startswith("raises-"):
            continue
        if isinstance(b, str) and b.startswith("raises-"):
            return j
        if isinstance(b, tuple) and "?" not in vals and "?" not in b[2]:
            lo, hi, got = b
            if got != [(v >> lo) & M(hi - lo) for v in vals]:
                return j
    return None


def new_leaf(r):
    if r.random() < 0.75:
        n, w = r.choice(REGS)
        return reg(n, w)
    w = r.choice([8, 16, 32, 32])
    return cst(r.choice([0, 1, 2, 0xff, 0x80, M(w), 1 << (w - 1), r.getrandbits(w)]) & M(w), w)


def env_full(k):
    m = mapper()
    for n, w in REGS:
        m[reg(n, w)] = cst(VALS[k][n] & M(w), w)
    return m


def env_partial(r):
    m = mapper()
    for n, w in r.sample(REGS, 2):
        m[reg(n, w)] = cst(r.getrandbits(w), w)
    return m


LAST_READ = []


MUTATED = []      # objects the last step changed on request (in-place API): re-baselined, not judged


def step(r, W, maps, mems):
    """perform one random operation on the workspace; returns (opname, new objects)"""
    def pick(size=None):
        c = [x for x in W if size is None or x.size == size]
        sym = [x for x in c if not x._is_cst]
        if sym and r.random() < 0.8:       # constants fold away: prefer symbolic objects
            return r.choice(sym)
        return r.choice(c) if c else None
    if len(W) >= 3 and r.random() < 0.09:
        if r.random() < 0.5:
            # a view of an object with the other (or the same) declared signedness is a new value; the object viewed keeps its own
            x = pick()
            return "flag-view", [x.signed() if r.random() < 0.5 else x.unsigned()]
        # in-place slice store on a composite (the mutation API of comp): that object changes, by request; every OTHER
        # object — the composites it was copied / viewed from, expressions embedding them — must keep its value
        cs = [x for x in W if type(x).__name__ == "comp" and len(x.parts) >= 1 and x.size >= 2]
        if cs:
            s_ = r.choice(cs)
            lo = r.randrange(0, s_.size)
            hi = r.randrange(lo + 1, s_.size + 1)
            v = pick(hi - lo) or cst(r.getrandbits(hi - lo), hi - lo)
            MUTATED.append(s_)
            s_[lo:hi] = v
            return "comp-setitem-in-place", []
    k = r.random()
    if k < 0.10 or len(W) < 3:
        return "leaf", [new_leaf(r)]
    if k < 0.32:
        x = pick()
        y = x if r.random() < 0.25 else (pick(x.size) or x)     # same object as both operands, on purpose
        o = r.choice(["+", "-", "*", "&", "|", "^", "==", "!="])
        return "binop" + o, [oper(o, x, y)]
    if k < 0.38:
        x = pick()
        return "shift", [oper(r.choice(["<<", ">>"]), x, cst(r.choice([0, 1, 4, x.size - 1, x.size, x.size + 1]), x.size))]
    if k < 0.43:
        x = pick()
        if r.random() < 0.35:
            # extensions to a wider, equal or narrower-or-equal target size
            n = r.choice([x.size, x.size, x.size + 8, 2 * x.size, max(x.size - 1, 1)])
            if n > 128:
                n = x.size
            return "extend", [x.signextend(n) if r.random() < 0.5 else x.zeroextend(n)]
        return "unop", [~x if r.random() < 0.5 else -x]
    if k < 0.52:
        x = pick()
        lo = r.randrange(0, x.size)
        hi = r.randrange(lo + 1, x.size + 1)
        return "slice", [x[lo:hi]]
    if k < 0.58:
        x, y = pick(), pick()
        if x.size + y.size > 128:
            return "noop", []
        return "composer", [composer([x, y])]
    if k < 0.62:
        c, x = pick(1), pick()
        if c is None:
            return "noop", []
        return "tst", [tst(c, x, pick(x.size) or x)]
    if k < 0.70:
        x = pick()
        opt = r.choice([{}, {"bitslice": True}, {"widening": True}])
        return "simplify" + ("-" + list(opt)[0] if opt else ""), [x.simplify(**opt)]
    if k < 0.76:
        x = pick()
        if r.random() < 0.5:
            return "eval-partial", [x.eval(env_partial(r))]
        return "eval-full", [x.eval(env_full(r.randrange(len(VALS))))]
    if k < 0.84:
        m = r.choice(maps)
        n, w = r.choice(REGS)
        x = pick(w)
        if x is None:
            return "noop", []
        m[reg(n, w)] = x
        return "map-store", []
    if k < 0.90:
        m = r.choice(maps)
        n, w = r.choice(REGS)
        if LAST_READ and r.random() < 0.6:
            m, n, w = maps[LAST_READ[0]], LAST_READ[1], LAST_READ[2]
        lo = r.randrange(0, w)
        hi = r.randrange(lo + 1, w + 1)
        x = pick(hi - lo)
        if x is None:
            return "noop", []
        m[reg(n, w)[lo:hi]] = x
        return "map-store-slice", []
    if k < 0.915:
        # read a whole register (the next sub-register store is steered to the same map and register:
        # the object read here must not change then)
        mi = r.randrange(len(maps))
        n, w = r.choice(REGS[:2])
        got = maps[mi][reg(n, w)] if r.random() < 0.5 else maps[mi](reg(n, w))
        LAST_READ[:] = [mi, n, w]
        return "map-read-whole-register", [got]
    if k < 0.93:
        m = r.choice(maps)
        x = pick()
        return "map-read", [m(x)]
    if k < 0.95:
        m = r.choice(maps)
        n, w = r.choice(REGS)
        return "map-getitem", [m[reg(n, w)]]
    if k < 0.965:
        mm = merge(maps[0], maps[1])
        return "merge", [v for _, v in mm if hasattr(v, "size")][:2]
    k2 = r.random()
    if k2 < 0.35:
        mems[0].write(0x1000 + 4 * r.randrange(8), pick(32) or cst(0, 32), endian=r.choice([1, 1, -1]))
        return "mem-write", []
    if k2 < 0.5:
        # a copy of a memory map is the same value: it answers every read like the original
        m2 = mems[0].copy()
        for _ in range(6):
            a, n = 0x1000 + r.randrange(32), r.choice([1, 2, 3, 4, 8])
            try:
                x, y = canon_read(mems[0].read(a, n)), canon_read(m2.read(a, n))
            except Exception as ex:
                continue
            if x != y:
                raise CopyDiffers("MemoryMap.copy().read(%#x,%d) = %s, the original reads %s" % (a, n, y, x))
        return "mem-copy-compare", []
    # a store through a symbolic pointer (two possible bases)
    m = r.choice(maps)
    n, w = r.choice(REGS[:2])
    sz = r.choice([8, 16, 32])
    x = pick(sz) or cst(r.getrandbits(sz), sz)
    if r.random() < 0.3:
        # a copy of a map is the same value: registers and memory read alike (whole and in part)
        m2 = m.use()
        qs = [reg(n, w), reg(n, w)[0:8]] + [mem(reg(n, w), s2, disp=d, endian=e2) for s2 in (8, 16, 32) for d in (0, 1, 2, 4) for e2 in (1, -1)]
        for q in qs:
            try:
                x, y = str(m(q)), str(m2(q))
            except Exception as ex:
                continue
            if x != y:
                raise CopyDiffers("m.use() reads %s as %s, the map itself as %s" % (q, y, x))
        return "map-copy-compare", []
    m[mem(reg(n, w), sz, disp=r.choice([0, 2, 4]), endian=r.choice([1, 1, -1]))] = x
    return "map-store-mem", []


def children(e):
    k = type(e).__name__
    if k == "slc":
        return [e.x]
    if k == "comp":
        return [p for _, p in sorted(e.parts.items())]
    if k == "op":
        return [e.l, e.r]
    if k == "uop":
        return [e.r]
    if k == "tst":
        return [e.tst, e.l, e.r]
    if k in ("vec", "vecw"):
        return list(e.l)
    if k == "mem":
        return [e.a.base]
    if k == "ptr":
        return [e.base]
    return []


def embeds(o, target, depth=0):
    """o holds the very object `target` (by reference) somewhere below it"""
    if depth > 40 or not isinstance(o, exp):
        return False
    for c in children(o):
        if c is target or embeds(c, target, depth + 1):
            return True
    return False


def sign_flags(e, depth=0):
    """declared signedness of every node of an expression, in structural order (part of what the expression denotes:
    it selects the signed reading in / % < >> and extensions)"""
    if not isinstance(e, exp) or depth > 40:
        return []
    out = [bool(getattr(e, "sf", False))]
    k = type(e).__name__
    kids = []
    if k == "slc":
        kids = [e.x]
    elif k == "comp":
        kids = [p for _, p in sorted(e.parts.items())]
    elif k == "op":
        kids = [e.l, e.r]
    elif k == "uop":
        kids = [e.r]
    elif k == "tst":
        kids = [e.tst, e.l, e.r]
    elif k in ("vec", "vecw"):
        kids = list(e.l)
    elif k == "mem":
        kids = [e.a.base]
    elif k == "ptr":
        kids = [e.base]
    for c in kids:
        out += sign_flags(c, depth + 1)
    return out


def pickle_ok(o):
    """None if the pickled-and-restored object prints, compares and evaluates identically, else the aspect"""
    try:
        p = pickle.loads(pickle.dumps(o, pickle.HIGHEST_PROTOCOL))
    except Exception as ex:
        return "raises-" + type(ex).__name__
    try:
        if str(p) != str(o):
            return "str"
        if isinstance(o, exp):
            if p.size != o.size:
                return "size"
            if not (p == o):
                return "eq"
            if values(p) != values(o):
                return "value"
            if sign_flags(p) != sign_flags(o):
                return "sign-flag"
        if isinstance(o, mapper):
            # the restored map must answer reads like the original: registers and memory through each base
            for n, w in REGS:
                if str(p[reg(n, w)]) != str(o[reg(n, w)]):
                    return "read-" + n
            for n, w in REGS[:2]:
                for d in (0, 2, 4):
                    q = mem(reg(n, w), 32, disp=d)
                    if str(p[q]) != str(o[q]):
                        return "read-mem"
    except Exception as ex:
        return "raises-" + type(ex).__name__
    return None


def main(tier):
    ck = Check("C13", tier)
    quick = tier == "quick"
    r = rng("C13")
    broken = ck.build_and_audit(["Amoco.Props.C13", "amoco_driver"])
    nhist = 120 if quick else 4000
    hlen = 40 if quick else 60
    saved_noalias = conf.Cas.noaliasing
    for h in range(nhist):
        conf.Cas.noaliasing = (h % 2 == 0)
        ck.count("history.noaliasing=%s" % conf.Cas.noaliasing)
        W = [new_leaf(r) for _ in range(3)]
        maps = [mapper(), mapper()]
        mems = [MemoryMap()]
        base = [(x, x.size, values(x)) for x in W]
        pbase = [probes(x) for x in W]
        sbase = [bool(x.sf) for x in W]
        trace = []
        for t in range(hlen):
            try:
                name, new = step(r, W, maps, mems)
            except CopyDiffers as cd:
                name, new = "copy-compare", []
                ck.report("C13:copy:%s" % ("memory-map" if "MemoryMap" in str(cd) else "mapper"), "a copy does not behave like the value it was copied from: %s" % cd,
                          "oracle", "Amoco.Value.Props.memory_maps_are_values", case={"history": trace[-12:], "what": str(cd)[:400]})
            except (ValueError, TypeError, AttributeError, NotImplementedError, IndexError, KeyError, AssertionError) as ex:
                # an operation that raises is C01/C17's business; the workspace must still be intact
                name, new = "raises-" + type(ex).__name__, []
            trace.append(name)
            ck.count("op." + name.split("-")[0] if name.startswith("raises") else "op." + name)
            if MUTATED:
                for idx, (o, size, vals) in enumerate(base):
                    # the object stored into, and expressions that hold that very object by reference, change by request
                    if any(o is m_ or embeds(o, m_) for m_ in MUTATED):
                        base[idx] = (o, o.size, values(o))
                        pbase[idx] = probes(o)
                        sbase[idx] = bool(o.sf)
                del MUTATED[:]
            # every object that existed before must be unchanged in width and value
            for idx, (o, size, vals) in enumerate(base):
                now = values(o)
                bad = None
                if o.size != size:
                    bad = "width %d -> %d" % (size, o.size)
                elif "?" not in vals and any(isinstance(b, int) and a != b for a, b in zip(vals, now)):
                    # (a position the walker can no longer evaluate — the object was re-shaped into a form
                    #  outside the walker's fragment, e.g. a vec condition — is undecided, not a change)
                    bad = "value " + ", ".join("%s->%s" % (hex(a) if isinstance(a, int) else a, hex(b) if isinstance(b, int) else b) for a, b in zip(vals, now) if a != b and isinstance(b, int))[:160]
                if bool(o.sf) != sbase[idx]:
                    # the sign flag selects the signed reading of the value (/, %, <, >>, extensions): an
                    # operation that flips it on an object it only used changes what that object means
                    ck.report("C13:%s:%s:sign-flag" % (name, kind(o)),
                              "after operation %s a pre-existing %s object (%s) has its sign flag %s" % (name, kind(o), str(o)[:60], "set" if o.sf else "cleared"),
                              "oracle", "Amoco.Value.Props.operand_preserved (declared signedness is part of the denotation)",
                              case={"history": trace[-12:], "object_index": idx, "object_now": str(o)[:200]}, real=bool(o.sf), expected=sbase[idx])
                    sbase[idx] = bool(o.sf)
                if bad:
                    opk = name.split("0")[0]
                    ck.report("C13:%s:%s:%s" % (name, kind(o), bad.split(" ")[0]),
                              "after operation %s a pre-existing %s object changed: %s (now %s)" % (name, kind(o), bad, str(o)[:80]),
                              "oracle", "Amoco.Value.Props.operand_preserved", case={"history": trace[-12:], "object_index": idx, "object_now": str(o)[:200]},
                              real=[hex(x) if isinstance(x, int) else x for x in now], expected=[hex(x) if isinstance(x, int) else x for x in vals])
                    base[idx] = (o, o.size, now)       # report once
                elif kind(o) in ("comp", "slc", "mem", "tst", "op", "uop"):
                    pn = probes(o)
                    which = probes_differ(pbase[idx], pn, vals)
                    if which is not None:
                        ck.report("C13:%s:%s:api-%s" % (name, kind(o), "raises" if isinstance(pn[which], str) else "value"),
                                  "after operation %s a pre-existing %s object no longer answers as the value it denotes: %s now gives %s" % (
                                      name, kind(o), "str()" if which == 0 else "slice [%d:%d]" % pbase[idx][which][:2], str(pn[which])[:100]),
                                  "oracle", "Amoco.Value.Props.operand_preserved", case={"history": trace[-12:], "object_index": idx, "object_now": repr(o)[:200]},
                                  real=repr(pn[which])[:300], expected=repr(pbase[idx][which])[:300])
                        pbase[idx] = pn
            for x in new:
                if isinstance(x, exp) and not x._is_top and 0 < x.size <= 128 and not any(x is y_ for y_ in W):
                    W.append(x)
                    v = values(x)
                    base.append((x, x.size, v))
                    pbase.append(probes(x))
                    sbase.append(bool(x.sf))
                    ck.count("object." + kind(x) + (".unmodelled" if "?" in v else ""))
            ck.case((h, t, name), nontrivial=not name.startswith(("leaf", "noop")))
        # ---- copies are the same value -----------------------------------------------------------------
        for k in range(3):
            x = r.choice([y for y in W if y.size == 32 and not y._is_cst] or [reg("a", 32)])
            mems[0].write(0x1000 + 4 * r.randrange(8), x, endian=r.choice([1, -1]))
        m2 = mems[0].copy()
        m3 = pickle.loads(pickle.dumps(mems[0], pickle.HIGHEST_PROTOCOL))
        done = False
        for a in range(0x1000, 0x1020):
            for n in (1, 2, 3, 4):
                try:
                    x = canon_read(mems[0].read(a, n))
                except Exception:
                    continue
                for what, mm in (("copy()", m2), ("pickle round-trip", m3)):
                    try:
                        y = canon_read(mm.read(a, n))
                    except Exception as ex:
                        y = "raises-" + type(ex).__name__
                    ck.count("copy.memory-read")
                    if x != y and not done:
                        done = True
                        ck.report("C13:copy:memory-map:%s" % what.split("(")[0].split(" ")[0], "MemoryMap %s reads %d bytes at %#x as %s, the original as %s" % (what, n, a, y, x),
                                  "oracle", "Amoco.Value.Props.memory_maps_are_values", case={"history": trace[-12:], "address": a, "length": n},
                                  real=y, expected=x)
        for mi, m in enumerate(maps):
            try:
                mu = m.use()
            except Exception:
                continue
            done = False
            for n, w in REGS[:2]:
                qs = [reg(n, w), reg(n, w)[0:8]] + [mem(reg(n, w), s2, disp=d, endian=e2) for s2 in (8, 16, 32) for d in (0, 1, 2, 4) for e2 in (1, -1)]
                for q in qs:
                    try:
                        x = str(m(q))
                    except Exception:
                        continue
                    try:
                        y = str(mu(q))
                    except Exception as ex:
                        y = "raises-" + type(ex).__name__
                    ck.count("copy.map-read")
                    if x != y and not done:
                        done = True
                        ck.report("C13:copy:mapper", "m.use() reads %s as %s, the map itself as %s" % (q, y, x),
                                  "oracle", "Amoco.Value.Props.memory_maps_are_values", case={"history": trace[-12:], "location": str(q)},
                                  real=y, expected=x)
        # ---- pickle half ------------------------------------------------------------------------------
        for o in r.sample(W, min(6, len(W))) + maps + mems:
            asp = pickle_ok(o)
            ck.count("pickle." + ("ok" if asp is None else "differs"))
            if asp:
                ck.report("C13:pickle:%s:%s" % (kind(o), asp), "pickled-and-restored %s differs in %s: %s" % (kind(o), asp, str(o)[:100]),
                          "oracle", "pickle round-trip (no theorem: CPython pickle)", case={"object": str(o)[:300], "kind": kind(o)})
        if h == 0:
            ck.sample({"history": trace[:20], "workspace": [str(x)[:40] for x in W[:8]]})
    conf.Cas.noaliasing = saved_noalias
    for b in broken:
        ck.report("C13:proof-obligation", "proof obligation broken: %s" % b[:300], "proof-obligation", b[:2000], failing_input_found=False)
    ck.assumptions += ["workspace expressions use sign-agnostic operators only, so the denotation does not depend on sf annotations",
                       "pickle half is differential only (CPython's pickle is outside any model)"]
    ck.trusted += ["harness/c13.py structural walker (independent evaluation of amoco objects)"]
    return ck.finish("workspace histories of %d operations on real objects with sharing (operators, shifts, slices, composer, tst, simplify with each option, partial/total eval, "
                     "map store / sub-register store / read, merge, memory write) — every pre-existing object re-examined after every operation under 8 valuations; "
                     "then pickle round-trips of expressions, maps and memory maps" % hlen)


if __name__ == "__main__":
    sys.exit(main(sys.argv[1] if len(sys.argv) > 1 else "quick"))
