"""
C18 — Sweeps, blocks and control-flow graphs partition the code.

Theorems (lean/Amoco/Props/C18.lean) are about the models `Amoco.Blocks` and `Amoco.Cfg`; this harness
ties them to /repo on every run by correspondence:
  A  real `lsweep.sequence / iterblocks / getblock` on spec-directed raw buffers of every ISA that
     `RawExec(shellcode(bytes), cpu)` gives a task for, from several start addresses (int and cst),
     against the model run on a reader table built from *independent* `read_instruction` calls;
  B  the same on the samples of /repo/tests/samples (sweeps from the entry point and nearby);
  C  `block.support/length/raw/__getitem__/cut` on real blocks vs the model;
  D  insertion histories of blocks cut from one instruction stream on a real `cfg.graph` vs the
     model: support list (address, length, instruction addresses), edge list and returned node after
     *each* insertion; all orders for small sets, random orders/subsets for larger ones;
     `get_with_address` on the final graph.
Every case is also judged by the property oracles of cfg_oracle.py (plain Python on the instruction
stream, independent of amoco and of the model) which turn a disagreement into a failing input.
`python c18.py replay <file>` re-runs a replay file on the current tree.
"""
import sys, os, json, itertools
from common import *
import cfg_real as R
import cfg_oracle as O


# ---------------------------------------------------------------------------------------
# shapes of an insertion (for the signatures and the distribution)
# ---------------------------------------------------------------------------------------

def shape_of(A, prev_support, s, e):
    """class of inserting instructions s..e-1 given the support before (real dump)."""
    idx = {a: k for k, a in enumerate(A)}
    ivs = []
    for (va, l, il) in prev_support:
        if va in idx and il:
            ivs.append((idx[va], idx[va] + len(il)))
    if any(a == s for a, b in ivs):
        sh = "same-start"
    elif any(a < s < b for a, b in ivs):
        sh = "mid-block"
    else:
        sh = "gap"
    if any(s < a < e for a, b in ivs):
        sh += "+swallow"
    if any(a == e for a, b in ivs):
        sh += "+adjacent-next"
    if any(b == s for a, b in ivs):
        sh += "+adjacent-prev"
    if any(a < e < b for a, b in ivs) and not any(a < s < b and a < e < b for a, b in ivs):
        sh += "+ends-inside"
    return sh


def gen_runs(r, n, k, style):
    """k runs (s,e) over a stream of n instructions."""
    runs = []
    if style == "suffix":
        # getblock-like: blocks end at fixed terminators
        nt = max(1, n // 4)
        terms = sorted(set([n] + [r.randint(1, n) for _ in range(nt)]))
        for _ in range(k):
            s = r.randrange(n)
            e = min(t for t in terms if t > s)
            runs.append((s, e))
    elif style == "nest":
        a = r.randrange(max(1, n - 3))
        b = r.randint(a + 2, n) if a + 2 <= n else n
        runs.append((a, b))
        for _ in range(k - 1):
            s = r.randint(a, b - 1)
            e = r.randint(s + 1, min(n, b + 2))
            runs.append((s, e))
    else:
        for _ in range(k):
            s = r.randrange(n)
            e = r.randint(s + 1, min(n, s + r.choice([1, 2, 3, 5, 8])))
            runs.append((s, e))
    return runs


def gen_sweep_ops(r, path, complete, style):
    """a history of getblock / iterblocks calls on one lsweep object interleaved with insertions of
    the handed-out blocks into graphs; start addresses are instruction addresses of `path`, biased
    to addresses asked before and to addresses strictly inside blocks handed out before."""
    n = len(path)
    runs = O.expected_runs(path, 0, True)
    end_of = {}
    for (s, e) in runs:
        for k in range(s, e):
            end_of[k] = e

    def run_from(k):                  # (k, e): the block the sweep hands out from instruction k (approximation for the bias only)
        return (k, end_of.get(k, n))
    asked, inside = [], []

    def note(k, nblocks=1):
        asked.append(k)
        for _ in range(nblocks):
            if k >= n:
                break
            s, e = run_from(k)
            inside.extend(range(s + 1, e))
            k = e

    def pick():
        c = r.random()
        if asked and c < 0.4:
            return r.choice(asked)
        if inside and c < 0.75:
            return r.choice(inside)
        return r.randrange(n)

    def gsel():
        return r.choice([None, 0, 0, 0, 1, 1, "G"])
    ops = []
    if style == "orders":
        # blocks of a few starts inserted in one order, then all asked again and inserted in another graph in another order
        ks = sorted(set(pick() if i else r.randrange(n) for i in range(r.choice([2, 3, 3]))) | set([r.choice(inside)] if inside else []))
        for i in range(3):
            for k in ks:
                note(k)
            ks = sorted(set(ks) | set([pick()]))[:4]
        for g in (0, 1, "G")[: r.choice([2, 2, 3])]:
            order = list(ks)
            r.shuffle(order)
            for k in order:
                ops.append(["gb", path[k][0], r.random() < 0.3, g])
        return ops
    if style == "revisit":
        # ask a block, have it split by a block starting inside it, ask again
        multi = [(s, e) for (s, e) in runs if e - s >= 2]
        if multi:
            s, e = r.choice(multi)
            k0 = r.randint(s, e - 2)
            g = r.choice([0, 0, "G"])
            ops.append(["gb", path[k0][0], r.random() < 0.3, g])
            note(k0)
            k1 = r.randint(k0 + 1, e - 1)
            if r.random() < 0.3:
                ops.append(["gbcut", path[k0][0], False, path[k1][0]])
            else:
                ops.append(["gb", path[k1][0], r.random() < 0.3, g])
            note(k1)
    for _ in range(r.randint(2, 7)):
        c = r.random()
        k = pick()
        if c < 0.6:
            ops.append(["gb", path[k][0], r.random() < 0.3, gsel()])
            note(k)
        elif c < 0.9:
            nb = r.randint(1, 4)
            sel = list(range(nb))
            r.shuffle(sel)
            g = gsel()
            ins = [[j, g if r.random() < 0.8 else gsel()] for j in sel if r.random() < 0.7]
            ops.append(["ib", path[k][0], r.random() < 0.3, nb, [x for x in ins if x[1] is not None]])
            note(k, nb)
        else:
            s, e = run_from(k)
            ops.append(["gbcut", path[k][0], False, path[r.randint(k, e - 1)][0] if r.random() < 0.85 else path[k][0] + 1])
            note(k)
    return ops


def shrink(stream, hist, fails):
    """remove history items while `fails(hist)` keeps returning the same key."""
    key = fails(hist)
    if key is None:
        return hist
    changed = True
    while changed and len(hist) > 1:
        changed = False
        for k in range(len(hist)):
            h2 = hist[:k] + hist[k + 1:]
            if fails(h2) == key:
                hist = h2
                changed = True
                break
    return hist


def main(tier):
    ck = Check("C18", tier)
    quick = tier == "quick"
    r = rng("C18")
    broken = ck.build_and_audit(["Amoco.Props.C18", "drv_cfg"])
    if not quick and not broken:
        # independent re-check of the compiled property modules by the external kernel checker
        import subprocess
        mods = sorted(lean_import_closure("Amoco.Props.C18"))
        try:
            pr = subprocess.run(["lake", "env", "leanchecker"] + mods, cwd=LEAN, stdout=subprocess.PIPE, stderr=subprocess.STDOUT,
                                text=True, timeout=1500)
            okc = pr.returncode == 0
            ck.oblige("leanchecker " + " ".join(mods), okc, pr.stdout[-1000:])
            if not okc:
                broken.append("leanchecker rejects: " + pr.stdout[-1000:])
        except Exception as e:
            ck.oblige("leanchecker", False, repr(e))
            broken.append("leanchecker could not run: %r" % e)
    drv = Driver("drv_cfg")
    corr = []          # (name, case, real, model): model and code disagree, oracle sides with the code
    sampled = {}

    cpus, badcpu = R.load_cpus()
    ck.cov["isas"] = sorted(cpus)
    ck.cov["isas_not_importable"] = badcpu

    streams = []       # (isa, buffer, [instruction objects], [dumps]) for C and D
    tasks = {}         # sample programs, for F

    # ---- A: sweeps on raw buffers -----------------------------------------------------------
    nbuf = 4 if quick else 100
    for name in sorted(cpus):
        cpu = cpus[name]
        try:
            src = R.SpecSource(cpu, r)
            pcsize = cpu.PC().size
        except BaseException as e:
            ck.count("A.isa-unusable")
            continue
        for bi in range(nbuf + max(1, nbuf // 4)):
            if bi < nbuf:
                buf = src.buffer(r.randint(4, 28), cf_rate=r.choice([0.1, 0.3, 0.5]), junk_rate=r.choice([0, 0, 0.05]))
            else:
                # a stretch of one repeated instruction (padding, sled, unrolled loop): different runs with equal bytes
                one = src.instr_bytes(want_cf=False) or b""
                buf = src.buffer(r.randint(1, 4), cf_rate=0.2) + one * r.randint(3, 9) + src.buffer(r.randint(1, 4), cf_rate=0.4)
                ck.count("A.buffers-with-repeated-instruction")
            if not buf:
                continue
            try:
                p = R.raw_task(buf, cpu)
            except BaseException as e:
                ck.count("A.task-failed")
                continue
            maxlen = cpu.disassemble.maxlen
            table = R.reader_table(p, range(0, len(buf) + 2))
            tab_list = [v for a, v in sorted(table.items()) if isinstance(v, list)]
            starts = [0] + [r.randrange(len(buf)) for _ in range(2)]
            path0, a = set(), 0
            while isinstance(table.get(a), list) and a not in path0:
                path0.add(a)
                a += O.ilen(table[a])
            for loc in starts:
                for as_cst in (False, True):
                    limit = 400
                    mod = (1 << pcsize) if as_cst else None
                    # path outside the modelled fragment?  (reader raises / returns a non-instruction)
                    a, unm = loc, False
                    for _ in range(limit):
                        t = table.get(a, "none")
                        if t in ("raise", "other"):
                            unm = True
                        if not isinstance(t, list):
                            break
                        a += O.ilen(t)
                    if unm:
                        ck.count("A.unmodelled-reader-raises")
                        continue
                    arg = cpu.cst(loc, pcsize) if as_cst else loc
                    try:
                        seq = R.real_sequence(p, arg, limit)
                        blocks, complete = R.real_iterblocks(p, arg, limit)
                        R.reset(cpu)
                        gb = R.lsweep(p).getblock(loc)
                    except BaseException as e:
                        ck.report("C18:sweep:%s:raise:%s" % (name, type(e).__name__),
                                  "lsweep on %s buffer %s from %d raises %s although every read_instruction on the way succeeds"
                                  % (name, buf.hex(), loc, type(e).__name__), "oracle", "Amoco.Blocks.Props.sequence_consecutive",
                                  case={"isa": name, "bytes": buf.hex(), "loc": loc, "cst": as_cst}, real="raise:%s" % e)
                        continue
                    if seq is None:
                        ck.count("A.unmodelled-non-instruction")
                        continue
                    dseq = [R.dump_instr(i) for i in seq]
                    dblocks = [[R.dump_instr(i) for i in b.instr] for b in blocks]
                    case = {"kind": "sweep", "isa": name, "bytes": buf.hex(), "loc": loc, "cst": as_cst}
                    ck.case(("A", name, buf, loc, as_cst), nontrivial=len(dseq) > 1)
                    ck.count("A.sweeps")
                    ck.count("A.isa.%s" % name)
                    ck.count("A.instr", len(dseq))
                    ck.count("A.blocks", len(dblocks))
                    ck.count("A.delayed", sum(1 for d in dseq if d[3]))
                    ck.count("A.cf", sum(1 for d in dseq if d[2]))
                    if loc not in path0:
                        ck.count("A.start-off-the-sweep-from-0")
                    # property oracle on the real result
                    bad = O.check_sequence(table, loc, None, dseq, limit)
                    bad += O.check_blocks(dseq, dblocks, complete)
                    if gb is not None and dblocks and [R.dump_instr(i) for i in gb.instr] != dblocks[0]:
                        bad.append("getblock!=first-block")
                    if (gb is None) != (not dblocks):
                        bad.append("getblock-none")
                    if bad:
                        ck.report("C18:sweep:%s:%s" % (name, bad[0].split("@")[0]),
                                  "lsweep on %s buffer %s from %d: %s" % (name, buf.hex(), loc, ",".join(bad)), "oracle",
                                  "Amoco.Blocks.Props.sequence_consecutive / blocks_maximal_runs", case=case,
                                  real={"seq": [[d[0], O.ilen(d)] for d in dseq], "blocks": [[d[0] for d in b] for b in dblocks]})
                        continue
                    # model
                    m = drv.ask({"op": "sweep", "table": tab_list, "loc": loc, "fuel": limit, "mod": mod})
                    rs = [[d[0], O.ilen(d)] for d in dseq]
                    rb = [[d[0] for d in b] for b in dblocks]
                    if "err" in m or m["seq"] != rs or m["blocks"] != rb or m["first"] != (rb[0] if rb else None):
                        corr.append(("sweep:%s" % name, case, {"seq": rs, "blocks": rb}, m))
                    if not sampled.get("A") and len(rb) > 1:
                        sampled["A"] = 1
                        ck.sample({"A": [name, buf.hex(), loc, rb[:3]]})
            # keep a stream for C and D
            seq0 = R.real_sequence(p, cpu.cst(0, pcsize), 400) if not any(table.get(a) in ("raise", "other") for a in table) else None
            if seq0 and len(seq0) >= 3:
                streams.append((name, buf, seq0, [R.dump_instr(i) for i in seq0]))

    # ---- A': wrap-around of cst addresses (16-bit program counters) --------------------------
    for name in sorted(cpus):
        cpu = cpus[name]
        try:
            pcsize = cpu.PC().size
        except BaseException:
            continue
        if pcsize > 16:
            continue
        try:
            src = R.SpecSource(cpu, r)
            buf = src.buffer(8, cf_rate=0.1)
            p = R.raw_task(buf, cpu)
            top = (1 << pcsize) - len(buf)
            p.relocate(top)
            table = R.reader_table(p, list(range(top, top + len(buf) + 2)) + [0, 1, 2])
        except BaseException as e:
            ck.count("A.wrap-setup-failed")
            continue
        if any(v in ("raise", "other") for v in table.values()):
            ck.count("A.unmodelled-reader-raises")
            continue
        try:
            seq = R.real_sequence(p, cpu.cst(top, pcsize), 100)
        except BaseException as e:
            ck.count("A.wrap-raises")
            continue
        if seq is None:
            continue
        dseq = [R.dump_instr(i) for i in seq]
        tab_list = [v for a, v in sorted(table.items()) if isinstance(v, list)]
        m = drv.ask({"op": "sweep", "table": tab_list, "loc": top, "fuel": 100, "mod": 1 << pcsize})
        ck.case(("A-wrap", name, buf), nontrivial=True)
        ck.count("A.wrap")
        bad = O.check_sequence(table, top, 1 << pcsize, dseq, 100)
        case = {"isa": name, "bytes": buf.hex(), "loc": top, "cst": True, "relocated": top}
        if bad:
            ck.report("C18:sweep:%s:wrap:%s" % (name, bad[0].split("@")[0]), "lsweep near the top of the %d-bit address space: %s" % (pcsize, bad),
                      "oracle", "Amoco.Blocks.Props.sequence_consecutive", case=case, real=[[d[0], O.ilen(d)] for d in dseq])
        elif "err" in m or m["seq"] != [[d[0], O.ilen(d)] for d in dseq]:
            corr.append(("sweep-wrap:%s" % name, case, [[d[0], O.ilen(d)] for d in dseq], m))

    # ---- B: samples ---------------------------------------------------------------------------
    for rel in R.SAMPLES:
        try:
            p = R.sample_task(rel)
            cpu = p.cpu
            pcsize = cpu.PC().size
            entry = R.ival(p.state(cpu.PC()))
        except BaseException as e:
            ck.count("B.sample-not-loadable")
            ck.cov.setdefault("samples_not_loadable", []).append([rel, type(e).__name__])
            continue
        if entry is None:
            ck.count("B.no-entry")
            continue
        K = 30 if quick else 300
        for off in ([0, r.randint(1, 64)] if quick else [0] + [r.randint(1, 2048) for _ in range(6)]):
            loc = entry + off
            try:
                seq = R.real_sequence(p, cpu.cst(loc, pcsize), K)
            except BaseException as e:
                ck.count("B.unmodelled-sweep-raises")
                continue
            if seq is None or not seq:
                ck.count("B.unmodelled-or-empty")
                continue
            dseq = [R.dump_instr(i) for i in seq]
            hi = dseq[-1][0] + O.ilen(dseq[-1]) + 2
            table = R.reader_table(p, range(loc, hi))
            a, unm = loc, False
            for _ in range(K):
                t = table.get(a, "none")
                if t in ("raise", "other"):
                    unm = True
                if not isinstance(t, list):
                    break
                a += O.ilen(t)
            if unm:
                ck.count("B.unmodelled-reader-raises")
                continue
            try:
                blocks, complete = R.real_iterblocks(p, cpu.cst(loc, pcsize), len(dseq))
            except BaseException as e:
                ck.count("B.unmodelled-sweep-raises")
                continue
            dblocks = [[R.dump_instr(i) for i in b.instr] for b in blocks]
            nb = sum(len(b) for b in dblocks)
            complete = complete and nb == len(dseq) and len(dseq) < K
            ck.case(("B", rel, loc), nontrivial=True)
            ck.count("B.sweeps")
            ck.count("B.instr", len(dseq))
            case = {"kind": "sweep", "isa": "sample:" + rel, "bytes": None, "loc": loc, "cst": True}
            bad = O.check_sequence(table, loc, 1 << pcsize, dseq, K)
            bad += O.check_blocks(dseq, dblocks, complete)
            if bad:
                ck.report("C18:sweep:sample:%s:%s" % (rel, bad[0].split("@")[0]), "lsweep on sample %s from %#x: %s" % (rel, loc, ",".join(bad)),
                          "oracle", "Amoco.Blocks.Props.sequence_consecutive / blocks_maximal_runs", case=case,
                          real={"seq": [[d[0], O.ilen(d)] for d in dseq], "blocks": [[d[0] for d in b] for b in dblocks]})
                continue
            tab_list = [v for a, v in sorted(table.items()) if isinstance(v, list)]
            m = drv.ask({"op": "sweep", "table": tab_list, "loc": loc, "fuel": K, "mod": 1 << pcsize})
            rs = [[d[0], O.ilen(d)] for d in dseq]
            rb = [[d[0] for d in b] for b in dblocks]
            mb = m.get("blocks", [])
            if not complete:
                mb = mb[: len(rb)]
            if "err" in m or m["seq"] != rs or mb != rb:
                corr.append(("sweep:sample:%s" % rel, case, {"seq": rs, "blocks": rb}, m))
            if off == 0 and len(seq) >= 3:
                streams.append(("sample:" + rel, None, seq[:40], dseq[:40]))
                tasks["sample:" + rel] = p
            if not sampled.get("B"):
                sampled["B"] = 1
                ck.sample({"B": [rel, hex(loc), rb[:2]]})

    # ---- C: block operations ---------------------------------------------------------------------
    nblk = 60 if quick else 5000
    for _ in range(nblk):
        if not streams:
            break
        name, buf, seq, dseq = r.choice(streams)
        n = len(seq)
        s = r.randrange(n)
        e = r.randint(s + 1, min(n, s + r.choice([1, 2, 4, 9])))
        instrs, dumps = seq[s:e], dseq[s:e]
        total = sum(O.ilen(d) for d in dumps)
        bounds = [0]
        for d in dumps:
            bounds.append(bounds[-1] + O.ilen(d))
        ops = [["support"], ["length"], ["raw"]]
        for _k in range(6):
            def pick():
                c = r.random()
                if c < 0.45:
                    return r.choice(bounds)
                if c < 0.6:
                    return None
                if c < 0.75:
                    return r.choice(bounds) - total if r.random() < 0.7 else -r.randint(0, total + 3)
                return r.randint(0, total + 4)
            ops.append(["getitem", pick(), pick()])
        addrs = [d[0] for d in dumps]
        for _k in range(3):
            c = r.random()
            a = r.choice(addrs) if c < 0.7 else (addrs[0] + r.randint(0, total + 2))
            ops.append(["cut", a])
        m = drv.ask({"op": "blk", "instrs": dumps, "ops": ops})
        cpu_cst = None
        for op, mres in zip(ops, m):
            b = R.code.block(list(instrs))
            case = {"kind": "block", "isa": name, "bytes": buf.hex() if buf else None, "stream": dumps, "op": op}
            try:
                if op[0] == "support":
                    sup = b.support
                    real = [R.ival(sup[0]), R.ival(sup[1])]
                    exp = O.blk_support(dumps)
                elif op[0] == "length":
                    real, exp = b.length, total
                elif op[0] == "raw":
                    real, exp = list(b.raw()), O.blk_raw(dumps)
                elif op[0] == "getitem":
                    rb = b[op[1]:op[2]]
                    real = None if rb is None else {"instrs": [R.ival(i.address) for i in rb.instr],
                                                    "support": [R.ival(rb.support[0]), R.ival(rb.support[1])], "raw": list(rb.raw())}
                    eb = O.blk_getitem(dumps, op[1], op[2])
                    exp = None if eb is None else {"instrs": [d[0] for d in eb], "support": O.blk_support(eb), "raw": O.blk_raw(eb)}
                else:
                    a0 = instrs[0].address
                    addr = a0 + (op[1] - R.ival(a0)) if op[1] >= R.ival(a0) else a0 - (R.ival(a0) - op[1])
                    nl = b.cut(addr)
                    real = {"nl": nl, "instrs": [R.ival(i.address) for i in b.instr], "length": b.length, "raw": list(b.raw())}
                    eb, enl = O.blk_cut(dumps, op[1])
                    exp = {"nl": enl, "instrs": [d[0] for d in eb], "length": sum(O.ilen(d) for d in eb), "raw": O.blk_raw(eb)}
            except BaseException as ex:
                real, exp = "raise:%s" % type(ex).__name__, "no exception"
            ck.case(("C", name, s, e, tuple(op), buf), nontrivial=True)
            ck.count("C." + op[0])
            if op[0] == "getitem":
                ck.count("C.getitem." + ("none" if real is None else "block"))
            if op[0] == "cut":
                ck.count("C.cut." + ("done" if isinstance(real, dict) and real["nl"] else "nothing"))
            if real != exp:
                ck.report("C18:block:%s" % op[0], "block.%s%r on instructions %r: got %r, expected %r" % (op[0], op[1:], [[d[0], O.ilen(d)] for d in dumps], real, exp),
                          "oracle", "Amoco.Blocks.Props.block_raw_concat", case=case, real=real, model=mres, expected=exp)
            elif mres != real:
                corr.append(("block:%s" % op[0], case, real, mres))
    if streams:
        ck.sample({"C": [streams[0][0], [[d[0], O.ilen(d)] for d in streams[0][3][:5]]]})

    # ---- D: cfg insertion histories ---------------------------------------------------------------
    def run_case(name, seq, dseq, hist, reinsert=(), tag="D"):
        """one history on the real graph, the model and the oracle.  returns a failure key or None."""
        A = [d[0] for d in dseq] + [dseq[-1][0] + O.ilen(dseq[-1])]
        g, steps = R.run_history(seq, hist, reinsert)
        key = None
        for k, st in enumerate(steps):
            prev = steps[k - 1]["support"] if k else []
            sh = shape_of(A, prev, *hist[k])
            if st["res"] != "ok":
                key = ("raise:%s" % st["exc"], sh, k)
                break
            bad = O.check_partition(A, hist[:k + 1], st["support"], st["edges"])
            if st["overlay"]:
                bad.append("overlay-used")
            if st["vertices"] != [x[0] for x in st["support"]]:
                bad.append("vertex-not-in-support")
            if bad:
                key = (bad[0], sh, k)
                break
        return key, steps, g

    def judge(name, buf, seq, dseq, hist, reinsert, style):
        key, steps, g = run_case(name, seq, dseq, hist, reinsert)
        A = [d[0] for d in dseq] + [dseq[-1][0] + O.ilen(dseq[-1])]
        for k, st in enumerate(steps):
            if st["res"] == "ok":
                ck.count("D.shape." + shape_of(A, steps[k - 1]["support"] if k else [], *hist[k]))
        ck.case(("D", name, tuple(A), tuple(hist), tuple(reinsert)), nontrivial=len(hist) > 1)
        ck.count("D.histories")
        ck.count("D.style." + style)
        ck.count("D.insertions", len(hist))
        stream_j = [[d[0], O.ilen(d)] for d in dseq]
        if key is not None:
            # shrink on the real code with the oracle
            def fails(h):
                kk, _, _ = run_case(name, seq, dseq, h, ())
                return None if kk is None else kk[:2]
            small = shrink(seq, list(hist), fails) if fails(list(hist)) == key[:2] else list(hist)
            k2, steps2, _ = run_case(name, seq, dseq, small, () if small != list(hist) else reinsert)
            k2 = k2 or key
            ck.report("C18:add_vertex:%s:%s" % (k2[0], k2[1]),
                      "inserting blocks %r of the %s stream %r into cfg.graph: %s at insertion %d (%s)"
                      % (small, name, stream_j, k2[0], k2[2], k2[1]), "oracle",
                      "Amoco.Cfg.Props.cfg_fallthrough" if k2[0] == "no-fallthrough-edge" else "Amoco.Cfg.Props.cfg_partition",
                      case={"kind": "cfg", "isa": name, "bytes": buf.hex() if buf else None, "stream": stream_j, "hist": small},
                      real=steps2[-1] if steps2 else None,
                      model=drv.ask({"op": "cfg", "stream": stream_j, "hist": [list(h) for h in small]}),
                      expected="pairwise-disjoint runs covering exactly the inserted instructions, fall-through edge at every split")
            return
        # model
        probes = [r.choice(A[:-1]) + r.choice([0, 0, 1]) for _ in range(4)] + [A[0] - 1 if A[0] else 0, A[-1]]
        m = drv.ask({"op": "cfg", "stream": stream_j, "hist": [list(h) for h in hist], "get": probes})
        ms = m.get("steps", [])
        if any(x.get("res") == "unmodelled" for x in ms):
            ck.count("D.unmodelled")
            return
        rsteps = [{"res": st["res"], "ret": st["ret"], "support": st["support"], "edges": st["edges"]} for st in steps]
        if sampled.get("D", 0) < 3 and len(hist) > 2:
            sampled["D"] = sampled.get("D", 0) + 1
            ck.sample({"D": {"isa": name, "stream": stream_j, "hist": hist, "final_support": [x[:2] for x in rsteps[-1]["support"]],
                             "final_edges": rsteps[-1]["edges"]}})
        if ms != rsteps:
            first = next((k for k, (x, y) in enumerate(zip(ms, rsteps)) if x != y), None)
            corr.append(("cfg:add_vertex", {"kind": "cfg", "isa": name, "bytes": buf.hex() if buf else None, "stream": stream_j,
                                            "hist": hist, "first_diff": first},
                         rsteps[first] if first is not None else rsteps, ms[first] if first is not None else ms))
            return
        # get_with_address
        final = steps[-1]["support"] if steps else []
        rg = []
        for a in probes:
            n = g.get_with_address(seq[0].address + (a - A[0]) if a >= A[0] else seq[0].address - (A[0] - a))
            rg.append(None if n is None else R.ival(n.data.address))
        eg = [O.expected_get(final, a) for a in probes]
        if rg != eg:
            ck.report("C18:get_with_address", "get_with_address on support %r for %r: %r, expected %r" % (final, probes, rg, eg),
                      "oracle", "Amoco.Cfg.Props.get_with_address_spec", case={"stream": stream_j, "hist": hist, "get": probes}, real=rg, model=m.get("get"), expected=eg)
        elif m.get("get") != rg:
            corr.append(("cfg:get_with_address", {"stream": stream_j, "hist": hist, "get": probes}, rg, m.get("get")))

    dstreams = [s for s in streams if len(s[2]) >= 4]
    if not dstreams:
        ck.report("C18:no-stream", "no instruction stream could be produced for the cfg histories", "oracle", "generator", failing_input_found=False)
    # all orders of small sets
    ngroups = 25 if quick else 1500
    for gi in range(ngroups):
        if not dstreams:
            break
        name, buf, seq, dseq = r.choice(dstreams)
        lo = r.randrange(max(1, len(seq) - 5))
        sub, dsub = seq[lo:lo + r.randint(4, 10)], None
        dsub = dseq[lo:lo + len(sub)]
        k = r.choice([2, 3, 3, 4] if quick else [3, 4, 4, 5])
        style = r.choice(["suffix", "nest", "free"])
        runs = gen_runs(r, len(sub), k, style)
        for perm in itertools.permutations(range(k)):
            judge(name, buf, sub, dsub, [runs[i] for i in perm], (), "allorders-" + style)
    # random larger histories
    nrand = 250 if quick else 30000
    for hi in range(nrand):
        if not dstreams:
            break
        name, buf, seq, dseq = r.choice(dstreams)
        n = min(len(seq), r.choice([6, 10, 16, 30]))
        lo = r.randrange(len(seq) - n + 1)
        sub, dsub = seq[lo:lo + n], dseq[lo:lo + n]
        k = r.randint(2, 9)
        style = r.choice(["suffix", "nest", "free", "free"])
        runs = gen_runs(r, n, k, style)
        if r.random() < 0.2:
            runs.append(r.choice(runs))          # an equal block as a distinct node
        r.shuffle(runs)
        if r.random() < 0.5:
            runs = runs[: r.randint(1, len(runs))]
        reins = tuple(k for k in range(len(runs)) if r.random() < 0.1)
        judge(name, buf, sub, dsub, runs, reins, "random-" + style)
    # ---- E: the support zone itself: writes of runs (overlapping ones included) into a MemoryZone ----
    from amoco.system.memory import MemoryZone
    for zi in range(100 if quick else 6000):
        if not dstreams:
            break
        name, buf, seq, dseq = r.choice(dstreams)
        n = min(len(seq), 12)
        lo = r.randrange(len(seq) - n + 1)
        sub, dsub = seq[lo:lo + n], dseq[lo:lo + n]
        ws = []
        for _ in range(r.randint(2, 8)):
            s0 = r.randrange(n)
            ws.append((s0, r.randint(s0 + 1, min(n, s0 + 4))))
        z, real = MemoryZone(), []
        for (s0, e0) in ws:
            nd = R.mk_node(sub[s0:e0])
            try:
                z.write(nd.data.address, nd)
                real.append([[R.ival(m.vaddr), len(m.data.val), [R.ival(i.address) for i in m.data.val.data.instr]] for m in z._map])
            except BaseException as ex:
                real.append("error")
                break
        stream_j = [[d[0], O.ilen(d)] for d in dsub]
        m = [x for x in drv.ask({"op": "zone", "stream": stream_j, "writes": [list(w) for w in ws]}) if x != "skipped"]
        ck.case(("E", name, tuple(x[0] for x in stream_j), tuple(ws)), nontrivial=True)
        ck.count("E.zone-histories")
        ck.count("E.raises" if "error" in real else "E.ok")
        # oracle: last write wins, per instruction: the zone must hold, for every instruction written so far,
        # exactly one entry, in address order
        if "error" not in real:
            cov = set()
            for (s0, e0) in ws:
                cov |= set(range(s0, e0))
            got = [a for ent in real[-1] for a in ent[2]]
            if got != [stream_j[k][0] for k in sorted(cov)]:
                ck.report("C18:zone:cover", "MemoryZone of nodes after writes %r of stream %r holds %r" % (ws, stream_j, real[-1]), "oracle",
                          "correspondence Amoco.Cfg.addtomap ~ MemoryZone.addtomap", case={"kind": "zone", "isa": name, "stream": stream_j, "writes": ws},
                          real=real[-1], model=m[-1] if m else None)
                continue
        if m != real:
            corr.append(("zone:write", {"kind": "zone", "isa": name, "stream": stream_j, "writes": ws}, real, m))
    # ---- F: call histories on ONE lsweep object interleaved with graph insertions ------------------
    def sweephist_key(p, path, complete, ops):
        steps = R.run_sweep_history(p, ops)
        return O.judge_sweep_history(path, complete, ops, steps), steps

    nper = 5 if quick else 150
    fstreams = [s for s in streams if len(s[2]) >= 3]
    by_isa = {}
    for s_ in fstreams:
        by_isa.setdefault(s_[0], []).append(s_)
    for name in sorted(by_isa):
        for hi in range(nper):
            _, buf, seq, dseq = r.choice(by_isa[name])
            try:
                p = tasks[name] if name.startswith("sample:") else R.raw_task(buf, cpus[name])
                path, status = R.table_path(p, dseq[0][0], 60 if quick else 200)
            except BaseException as e:
                ck.count("F.setup-failed")
                continue
            if status == "unmodelled" or len(path) < 3:
                ck.count("F.unmodelled-reader-raises")
                continue
            complete = status == "complete"
            style = r.choice(["random", "random", "revisit", "revisit", "orders"])
            ops = gen_sweep_ops(r, path, complete, style)
            if not ops:
                continue
            key, steps = sweephist_key(p, path, complete, ops)
            if any(st["res"] == "unmodelled" for st in steps):
                ck.count("F.unmodelled-non-instruction")
                continue
            stream_j = [[d[0], O.ilen(d)] for d in path]
            ck.case(("F", name, buf, tuple(x[0] for x in stream_j), json.dumps(ops)), nontrivial=len(ops) > 1)
            ck.count("F.histories")
            ck.count("F.style." + style)
            ck.count("F.isa." + name.split(":")[0])
            for op, st in zip(ops, steps):
                if st["res"] != "ok":
                    continue
                ck.count("F.op." + op[0])
                ck.count("F.blocks-handed-out", len(st["blocks"]))
                ck.count("F.call." + ("repeat-after-cut" if st["cut_before"] else "repeat" if st["repeat"] else "first-call"))
                for rec in st["ins"]:
                    ck.count("F.insertions." + ("own-graph" if rec["g"] == "G" else "fresh-graph"))
            if sampled.get("F", 0) < 2 and len(ops) > 3:
                sampled["F"] = sampled.get("F", 0) + 1
                ck.sample({"F": {"isa": name, "stream": stream_j[:12], "ops": ops}})
            case = {"kind": "sweephist", "isa": name, "bytes": buf.hex() if buf else None, "start": path[0][0], "n": len(path),
                    "complete": complete, "ops": ops}
            if key is not None:
                def fails(h):
                    kk, _ = sweephist_key(p, path, complete, h)
                    return None if kk is None else kk[:2]
                small = shrink(None, list(ops), fails) if fails(list(ops)) == key[:2] else list(ops)
                k2, steps2 = sweephist_key(p, path, complete, small)
                k2 = k2 or key
                case["ops"] = small
                thm = "Amoco.Cfg.Props.cfg_partition" if k2[0].startswith("add_vertex") else "Amoco.Blocks.Props.blocks_maximal_runs"
                ck.report("C18:lsweep-history:%s:%s" % (k2[0], k2[1]),
                          "one lsweep object on the %s stream %r, calls %r: %s at call %d (%s; %s)"
                          % (name, stream_j[:40], small, k2[0], k2[2], k2[1], k2[3]), "oracle", thm, case=case,
                          real=steps2[k2[2]] if k2[2] < len(steps2) else None,
                          expected="every handed-out block is the maximal run of the instruction stream from the asked address up to the "
                                   "first block end, whatever was asked or inserted into a graph before; each graph holds the inserted "
                                   "instructions exactly once")
                continue
            # model: every graph of the history against Amoco.Cfg on the runs that were inserted
            A_ = {a: k for k, (a, l) in enumerate(stream_j)}
            hists, finals, offg = {}, {}, set()
            for st in steps:
                for rec in st["ins"]:
                    if rec["g"] in offg or rec["first"] not in A_ or A_[rec["first"]] + rec["n"] > len(stream_j):
                        offg.add(rec["g"])
                        ck.count("F.graph-beyond-known-stream")
                        continue
                    hists.setdefault(rec["g"], []).append([A_[rec["first"]], A_[rec["first"]] + rec["n"]])
                    finals[rec["g"]] = rec["support"]
            for g, h in hists.items():
                if g in offg:
                    continue
                m = drv.ask({"op": "cfg", "stream": stream_j, "hist": h})
                ms = m.get("steps", [])
                if any(x.get("res") == "unmodelled" for x in ms):
                    ck.count("F.unmodelled")
                    continue
                if not ms or ms[-1].get("support") != finals[g]:
                    corr.append(("cfg:lsweep-history", dict(case, graph=g, hist=h), finals[g], ms[-1] if ms else m))
    # a block of another decoding of the same bytes (overlay zone): outside the modelled fragment
    novl = 0
    for name, buf, seq, dseq in dstreams[: (3 if quick else 30)]:
        if buf is None or name not in cpus:
            continue
        cpu = cpus[name]
        p = R.raw_task(buf, cpu)
        for off in range(1, min(len(buf), 12)):
            if any(d[0] == off for d in dseq):
                continue
            try:
                seq2 = R.real_sequence(p, cpu.cst(off, cpu.PC().size), 6)
            except BaseException:
                seq2 = None
            if not seq2 or len(seq2) < 2:
                continue
            g = R.cfg.graph()
            try:
                g.add_vertex(R.mk_node(seq[: min(len(seq), 6)]))
                g.add_vertex(R.mk_node(seq2[:3]))
                d = R.dump_graph(g)
            except BaseException as e:
                ck.count("D.overlay-raises")
                break
            stream_j = [[x[0], O.ilen(x)] for x in dseq]
            m = drv.ask({"op": "cfg", "stream": stream_j, "hist": [[0, min(len(seq), 6)], {"instrs": [[R.ival(i.address), i.length] for i in seq2[:3]]}]})
            res = [x.get("res") for x in m.get("steps", [])]
            ck.count("D.other-decoding:" + ("model-unmodelled" if "unmodelled" in res else "model-ok") + (":real-overlay" if d["overlay"] else ":real-main"))
            if ("unmodelled" in res) != bool(d["overlay"]):
                # the second block happened to fit instruction boundaries: compare supports
                if not ("unmodelled" in res) and m["steps"][-1].get("support") != d["support"]:
                    corr.append(("cfg:other-decoding", {"isa": name, "bytes": buf.hex(), "off": off}, d, m))
            novl += 1
            break
    drv.close()

    # ---- broken ties without failing input ------------------------------------------------------
    for b in broken:
        ck.report("C18:proof-obligation", "proof obligation broken: %s" % b[:300], "proof-obligation", b[:2000],
                  failing_input_found=False)
    if corr:
        name, case, real, mod = corr[0]
        ck.report("C18:correspondence:%s" % name.split(":")[0],
                  "model and code disagree on %d cases (first: %s) but the property oracle sides with the code" % (len(corr), name),
                  "correspondence", "correspondence Amoco.Blocks/Amoco.Cfg ~ lsweep.py, code.py, cfg.py (%s)" % name,
                  case=case, real=real, model=mod, failing_input_found=False)
    ck.oblige("correspondence sweep/blocks/cfg", not corr, "%d disagreements" % len(corr))
    ck.assumptions += [
        "the model follows amoco/cfg.py and amoco/system/memory.py as repaired by proposed_fixes/C18-cfg-add-vertex.diff and C18-memory-dead-history-copies.diff; without them the check reports the defects of add_vertex as violations",
        "instruction streams are consecutive without address wrap-around inside one block history (wrap-around of cst addresses is compared for sweeps of 16-bit ISAs only)",
        "grandalf's graph (components, edge sets keyed by link name) and MemoryZone's bisect are modelled, not verified",
        "blocks of different decodings of the same bytes (overlay zone) are outside the model (answered 'unmodelled', counted)",
        "sweeps whose reader raises (decoder-hook defects, C17) or yields non-instruction objects are skipped and counted"]
    ck.trusted += ["harness/cfg_real.py dumps of instructions, blocks and cfg.graph (support zone, edges)",
                   "harness/cfg_oracle.py (plain-Python property oracles) for the failing-input search",
                   "compiled Lean driver drv_cfg (evaluation of the model definitions)"]
    return ck.finish("A: spec-directed raw buffers for every importable ISA with a raw task loader, sweeps from offset 0 and random offsets, int and cst "
                     "start, one buffer in five with a stretch of one repeated instruction (non-trivial: more than one instruction); B: samples from the entry point and nearby; C: random runs of those streams "
                     "with boundary / non-boundary / None / negative slice bounds and cut addresses; D: histories of runs of one stream — all orders "
                     "of 2–5 runs (suffix-of-terminator, nested, free) and random orders/subsets of up to 10 runs with duplicates and re-insertion, "
                     "compared after every insertion (non-trivial: more than one insertion); F: call histories on ONE long-lived lsweep object per "
                     "stream (every ISA and sample): getblock / iterblocks(first n blocks) at instruction addresses biased to addresses asked "
                     "before and to addresses inside blocks handed out before, int and cst, each handed-out block optionally inserted "
                     "(iterblocks: subsets in random order) into one of several fresh graphs or the analysis' own graph, or trimmed by the "
                     "caller; styles random / revisit (ask, split by a block starting inside, ask again) / orders (same starts inserted in "
                     "different orders into several graphs); every handed-out block is judged against the independent reader walk "
                     "(maximal run to the first block end, support, length, raw) and every graph by the partition oracle after each "
                     "insertion (non-trivial: more than one call)")


def rebuild(case, start, n):
    """the real instruction objects of a recorded case: sweep again from `start`."""
    isa = case["isa"]
    if isa.startswith("sample:"):
        p = R.sample_task(isa[len("sample:"):])
    else:
        cpus, _ = R.load_cpus()
        p = R.raw_task(bytes.fromhex(case["bytes"]), cpus[isa])
    cpu = p.cpu
    return p, R.real_sequence(p, cpu.cst(start, cpu.PC().size), n)


def replay(path):
    rec = json.load(open(path))
    case = rec["case"]
    kind = case.get("kind")
    print("broken  :", rec.get("broken"))
    print("what    :", rec.get("what"))
    drv = Driver("drv_cfg")
    bad = None
    if kind == "cfg":
        stream_j, hist = case["stream"], [tuple(h) for h in case["hist"]]
        p, seq = rebuild(case, stream_j[0][0], len(stream_j))
        dseq = [R.dump_instr(i) for i in seq]
        A = [d[0] for d in dseq] + [dseq[-1][0] + O.ilen(dseq[-1])]
        g, steps = R.run_history(seq, hist)
        m = drv.ask({"op": "cfg", "stream": stream_j, "hist": [list(h) for h in hist]})
        for k, st in enumerate(steps):
            if st["res"] != "ok":
                bad = "raise:%s %s" % (st["exc"], st.get("msg", ""))
                break
            b = O.check_partition(A, hist[:k + 1], st["support"], st["edges"])
            if b:
                bad = ",".join(b) + " at insertion %d" % k
                break
        print("real    :", json.dumps(steps[-1] if steps else None, default=repr))
        print("model   :", json.dumps(m["steps"][-1] if m.get("steps") else m))
        print("expected: pairwise-disjoint runs covering exactly the inserted instructions, fall-through edge at every split")
        if bad is None and [x.get("support") for x in m.get("steps", [])] != [x.get("support") for x in steps]:
            print("model and code disagree (no property violation)")
    elif kind == "sweep":
        p, _ = rebuild(case, case["loc"], 1)
        cpu = p.cpu
        loc, limit = case["loc"], 400
        arg = cpu.cst(loc, cpu.PC().size) if case.get("cst") else loc
        seq = R.real_sequence(p, arg, limit) or []
        blocks, complete = R.real_iterblocks(p, arg, limit)
        dseq = [R.dump_instr(i) for i in seq]
        dblocks = [[R.dump_instr(i) for i in b.instr] for b in blocks]
        hi = (dseq[-1][0] + O.ilen(dseq[-1]) + 2) if dseq else loc + 2
        table = R.reader_table(p, range(loc, hi))
        b = O.check_sequence(table, loc, None, dseq, limit) + O.check_blocks(dseq, dblocks, complete)
        bad = ",".join(b) if b else None
        tab_list = [v for a, v in sorted(table.items()) if isinstance(v, list)]
        m = drv.ask({"op": "sweep", "table": tab_list, "loc": loc, "fuel": limit, "mod": None})
        print("real    :", json.dumps({"seq": [[d[0], O.ilen(d)] for d in dseq], "blocks": [[d[0] for d in x] for x in dblocks]}))
        print("model   :", json.dumps(m))
        print("expected: consecutive instructions as the reader gives them, blocks = maximal runs up to a block end")
    elif kind == "sweephist":
        p, _ = rebuild(case, case["start"], 1)
        spath, status = R.table_path(p, case["start"], case["n"])
        complete = case.get("complete", status == "complete")
        steps = R.run_sweep_history(p, case["ops"])
        key = O.judge_sweep_history(spath, complete, case["ops"], steps)
        print("stream  :", json.dumps([[d[0], O.ilen(d)] for d in spath]))
        for op, st in zip(case["ops"], steps):
            print("call    :", json.dumps(op), "->", json.dumps([[d[0] for d in b] for b in st.get("blocks", [])]) if st["res"] == "ok" else st)
        print("expected: every handed-out block is the maximal run from the asked address to the first block end; graphs hold the inserted instructions exactly once")
        bad = None if key is None else "%s (%s) at call %d: %s" % key
    elif kind == "block":
        dumps, op = case["stream"], case["op"]
        p, seq = rebuild(case, dumps[0][0], len(dumps)) if case.get("bytes") or case["isa"].startswith("sample:") else (None, None)
        m = drv.ask({"op": "blk", "instrs": dumps, "ops": [op]})
        print("model   :", json.dumps(m))
        print("recorded real:", json.dumps(rec.get("real")), " expected:", json.dumps(rec.get("expected")))
        if seq:
            b = R.code.block(list(seq))
            if op[0] == "getitem":
                rb = b[op[1]:op[2]]
                real = None if rb is None else [R.ival(i.address) for i in rb.instr]
                eb = O.blk_getitem(dumps, op[1], op[2])
                exp = None if eb is None else [d[0] for d in eb]
            elif op[0] == "cut":
                a0 = seq[0].address
                nl = b.cut(a0 + (op[1] - R.ival(a0)) if op[1] >= R.ival(a0) else a0 - (R.ival(a0) - op[1]))
                real = [nl, [R.ival(i.address) for i in b.instr]]
                eb, enl = O.blk_cut(dumps, op[1])
                exp = [enl, [d[0] for d in eb]]
            elif op[0] == "raw":
                real, exp = list(b.raw()), O.blk_raw(dumps)
            elif op[0] == "length":
                real, exp = b.length, sum(O.ilen(d) for d in dumps)
            else:
                real, exp = [R.ival(b.support[0]), R.ival(b.support[1])], O.blk_support(dumps)
            print("real    :", json.dumps(real))
            print("expected:", json.dumps(exp))
            bad = None if real == exp else "block.%s" % op[0]
    else:
        print("case kind %r cannot be replayed" % kind)
    drv.close()
    print("VIOLATION property=C18 replay=%s (%s)" % (path, bad) if bad else "no violation on the current tree")
    return 1 if bad else 0


if __name__ == "__main__":
    if len(sys.argv) > 2 and sys.argv[1] == "replay":
        sys.exit(replay(sys.argv[2]))
    sys.exit(main(sys.argv[1] if len(sys.argv) > 1 else "quick"))
