"""run one check module as __main__; an uncaught exception of the harness is an internal error (exit 2),
never to be mistaken for the exit status 1 of a reported violation"""
import sys, runpy, traceback
path, tier = sys.argv[1], sys.argv[2]
sys.argv = [path, tier]
try:
    runpy.run_path(path, run_name="__main__")
except SystemExit as e:
    code = e.code
    sys.exit(code if isinstance(code, int) else (0 if code is None else 2))
except BaseException:
    traceback.print_exc()
    sys.stdout.flush()
    sys.exit(2)
