"""
C16 — Structure definitions encode, decode and lay out like C.

Theorems (lean/Amoco/Props/C16.lean) are about the model `Amoco.Struct` / `Amoco.Leb128`; this harness
ties the model to /repo's amoco/system/structs on every run (correspondence, tie kind C):

  P  parser / field-class selection: every generated definition text through the real
     StructFactory / UnionFactory / TypeDefine, reflected `cls.fields`  vs  model `parseDef`;
  L  layout: `cls.size(ps)`, `cls.align_value(ps)`, `cls().offsets(ps)` for ps in 0,4,8,32,64  vs  model;
  U  unpack: value tree, `len(instance)`, `instance.offsets(ps)` after unpack, `instance.pack(None, ps)`
     on synthesised valid instances (random values, random padding), truncated and unaligned inputs  vs  model;
  B  LEB128 readers / writers on boundary and random values and byte strings  vs  model;
  G  the C ABI reference of the theorems (`refDef`, via the driver) and the oracle's Python twin
     vs gcc (sizeof / _Alignof / offsetof tables, -m64 and -m32 -malign-double).

The property oracle (struct_oracle.py: Python `struct` + an independent ABI calculator) judges every
case on the real code; a disagreement with the oracle is a failing input (VIOLATION, shrunk), a
disagreement between model and code on which the oracle sides with the code is a broken tie
(`no-failing-input-found`).
"""
import sys, os, json, subprocess, tempfile, struct, copy
from common import *
import logging
logging.disable(logging.CRITICAL)
import struct_gen as G, struct_oracle as O, struct_real as R

PSIZES = (0, 4, 8, 32, 64)


def norm(v):
    if isinstance(v, dict):
        if "i" in v:
            return {"i": {k: norm(x) for k, x in sorted(v["i"].items())}, "len": v["len"]}
        return v
    if isinstance(v, (list, tuple)):
        return [norm(x) for x in v]
    return v


def features(name, env, seen=None):
    """coarse shape of a definition, used in signatures"""
    d = env[name]
    out = set()
    if d["kind"] != "struct":
        out.add(d["kind"])
    if d.get("packed"):
        out.add("packed")
    for f in d["fields"]:
        k = f["k"]
        if k == "raw":
            out.add("array" if f["count"] else "scalar")
            if f["t"] in "lLP":
                out.add("ptrsize")
            if f["t"] == "x":
                out.add("x")
        elif k == "nest":
            out.add("nested-array" if f["count"] else "nested")
            out |= {"in." + x for x in features(f["ty"], env) if not x.startswith("in.")}
        else:
            out.add(k)
    return out


def sig(aspect, name, env):
    return "C16:%s:%s" % (aspect, "+".join(sorted(features(name, env))))


class Case(object):
    """one definition (with its environment) + pointer size + data"""
    def __init__(self, top, env, ps=None, data=None, off=0, stream=""):
        self.top, self.env, self.ps, self.data, self.off, self.stream = top, env, ps, data, off, stream

    def dump(self):
        return {"top": self.top, "env": [{k: v for k, v in d.items()} for d in self.env.values()],
                "psize": self.ps, "data": None if self.data is None else self.data.hex(), "offset": self.off,
                "stream": self.stream}


def load_case(j):
    env = {}
    for d in j["env"]:
        d = dict(d)
        d["fields"] = [dict(f, subs=[tuple(s) for s in f["subs"]]) if "subs" in f else dict(f) for f in d["fields"]]
        env[d["name"]] = d
    return Case(j["top"], env, j.get("psize"), None if j.get("data") is None else bytes.fromhex(j["data"]),
                j.get("offset", 0), j.get("stream", ""))


# ---------------------------------------------------------------------------------------
# evaluation of one case on the three sides
# ---------------------------------------------------------------------------------------

def rename_env(env, top, suffix):
    """fresh type names (amoco keeps a global registry of classes by name)"""
    m = {n: n + suffix for n in env}
    out = {}
    for n, d in env.items():
        d = copy.deepcopy(d)
        d["name"] = m[n]
        for f in d["fields"]:
            if "ty" in f:
                f["ty"] = m[f["ty"]]
        if d["kind"] == "typedef" and d["base"] in m:
            d["base"] = m[d["base"]]
        d["src"] = regen_src(d)
        out[m[n]] = d
    return out, m[top]


def regen_src(d):
    """deterministic source text of a definition (used after shrinking / renaming)"""
    if d["kind"] == "typedef":
        return "%s : _" % d["base"]
    lines = []
    for f in d["fields"]:
        k = f["k"]
        o = f.get("order") or ""
        if k == "raw":
            cnt = "*%d" % f["count"] if (f["count"] or f.get("star0")) else ""
            lines.append("%s%s :%s%s" % (f["t"], cnt, o, f["name"]))
        elif k in ("bits", "bitsEx"):
            tn = f["t"] if k == "bits" else f["ty"]
            lines.append("%s *#%s :%s%s" % (tn, "/".join(str(s) for _, s in f["subs"]), o, "/".join(n for n, _ in f["subs"])))
        elif k == "nest":
            lines.append("%s%s : %s" % (f["ty"], "*%d" % f["count"] if f["count"] else "", f["name"]))
        elif k == "var":
            lines.append("%s*~ :%s%s" % (f["t"], o, f["name"]))
        elif k == "cnt":
            lines.append("%s*~%s :%s%s" % (f["t"], f["ct"], o, f["name"]))
        elif k == "bound":
            lines.append("%s*.%s :%s%s" % (f["t"], f["ref"], o, f["name"]))
        elif k == "leb":
            lines.append("%s*%%leb128 : %s" % (f["t"], f["name"]))
    return "\n".join(lines)


def real_layout(classes, top, ps):
    return R.run_layout(classes[top], ps)


def model_layout_req(top, env, ps):
    return dict(op="struct.layout", psize=ps, **G.driver_def(top, env))


def model_unpack_req(top, env, ps, data, off):
    return dict(op="struct.unpack", psize=ps, data=data.hex(), offset=off, **G.driver_def(top, env))


def oracle_layout(top, env, ps):
    """None when the property does not judge (variable length, psize 0 with pointer letters, 'x')"""
    try:
        L = O.layout(top, env, ps)
    except (O.VarLen, O.NotJudged):
        return None
    d = env[top]
    entries = []
    if d["kind"] == "typedef":
        pass
    for f, o, s in zip(d["fields"], L["offs"], L["sizes"]):
        if f["k"] in ("bits", "bitsEx") and d["kind"] != "union":
            oo = 0
            for _, x in f["subs"]:
                entries.append(["bitf", float("%d.%d" % (o, oo)), float(".%d" % x)])
                oo += x
        else:
            entries.append([o, s])
    return {"size": L["size"], "align": L["align"], "offsets": entries}


def oracle_unpack(top, env, ps, data, off):
    """expected {ok, value, len, packed} or None (not judged)"""
    try:
        v, n, m = O.decode(top, env, ps, data, off)
    except O.Short:
        return {"ok": False}
    except O.NotJudged:
        return None
    except Exception:
        return None
    out = {"ok": True, "value": norm(v), "len": n, "packed": O.canon(m, data, off).hex(), "mask": m.hex()}
    if env[top]["kind"] == "typedef":
        out["len"] = None
    return out


def has_x(top, env):
    return G.has_letter(top, env, "x")


def leb_noncanonical(top, env, ps, data, off):
    """does the instance contain a LEB128 number that is not in shortest form? (pack cannot reproduce it)"""
    try:
        v, n, m = O.decode(top, env, ps, data, off)
    except Exception:
        return False
    bad = []

    def walk(name, base):
        d = env[name]
        if d["kind"] != "struct":
            return
        if O.is_fixed(name, env):
            return
        rel, ns = 0, {}
        packed = bool(d.get("packed"))
        for f in d["fields"]:
            a = 1 if packed else O.align_of_field(f, env, ps)
            o = O.up(rel, a)
            try:
                fv, fn, fm = O.dec_field(f, d, env, ps, data, base + o, ns)
            except Exception:
                return
            if f["k"] == "leb":
                enc = data[base + o: base + o + fn]
                if O.leb_write(fv, f["signed"]) != enc:
                    bad.append(1)
            elif f["k"] == "nest" and not O.is_fixed(f["ty"], env):
                p = base + o
                for _ in range(max(f["count"], 1)):
                    walk(f["ty"], p)
                    try:
                        _, en, _ = O.dec_def(f["ty"], env, ps, data, p)
                    except Exception:
                        return
                    p += en
            O.store(f, fv, ns)
            rel = o + fn
    walk(top, off)
    return bool(bad)


# ---------------------------------------------------------------------------------------
# gcc reference validation
# ---------------------------------------------------------------------------------------

def gcc_tables(names, env, ps, workdir):
    """{name: (size, align, [offsets of addressable members])} from gcc, or raises"""
    src, index = O.c_table(names, env)
    cfile = os.path.join(workdir, "t%d.c" % ps)
    open(cfile, "w").write(src)
    flags = ["-m64"] if ps == 8 else ["-m32", "-malign-double"]
    obj = cfile[:-2] + ".o"
    binf = cfile[:-2] + ".bin"
    p = subprocess.run(["gcc", "-w", "-ffreestanding", "-c"] + flags + [cfile, "-o", obj],
                       stdout=subprocess.PIPE, stderr=subprocess.STDOUT, text=True)
    if p.returncode != 0:
        raise InternalError("gcc failed: " + p.stdout[-1500:] + "\n" + src[-1500:])
    subprocess.run(["objcopy", "-O", "binary", "-j", ".rodata", obj, binf], check=True)
    raw = open(binf, "rb").read()
    vals = list(struct.unpack("<%dQ" % (len(raw) // 8), raw))
    out, i = {}, 0
    for n in names:
        size, align = vals[i], vals[i + 1]
        i += 2
        offs = []
        for m in index[n]:
            if m is None:
                offs.append(None)
            else:
                offs.append(vals[i]); i += 1
        out[n] = (size, align, offs)
    return out


# ---------------------------------------------------------------------------------------
# the check
# ---------------------------------------------------------------------------------------

CORPUS = [
    # (kind, name, src, kargs) lists: definitions of DESIGN.md §12, of the test-suite, and of defects found
    [("struct", "S", "c: a\nI: b", {})],
    [("struct", "S", "I: a\nc : b", {})],
    [("struct", "S", "c: a\nI : b", {"packed": True})],
    [("struct", "N1", "I : i", {}), ("struct", "N2", "B: x\nN1 : y", {})],
    [("struct", "N1", "I : i", {}), ("struct", "N3", "N1*3 : arr\nB : z", {})],
    [("struct", "P1", "c: a\nI: b", {"packed": True}), ("struct", "P2", "B: x\nP1: y", {})],
    [("struct", "Q1", "P: p\nB : b", {}), ("struct", "Q2", "Q1*2: q\nB: z", {})],
    [("union", "U", "B*5: s\nI : w", {})],
    [("union", "U", "P : p\nQ : q", {})],
    [("typedef", "xxx", "h", 0), ("typedef", "myint", "xxx", 2), ("struct", "T", "B : a\nmyint*2 : z\nxxx : w", {})],
    [("struct", "B1", "B *#2/4/1/1 : a/b/c/d\nI : w", {})],
    [("struct", "B2", "B *#3 : a\nB *#5 : b\nB *#2 : c\nH *#4 : d", {})],
    [("typedef", "int16", "H", 0), ("struct", "B4", "int16 *#3/5 : a/b\nint16 *#2 : c\nB : e", {})],
    [("struct", "L", "l : x\nB : y", {})],
    [("struct", "A", "I*2 : a\nd : f\nH*3 :> g", {})],
]
CORPUS_VAR = [
    ([("struct", "V", "s*~ : str\nB : z", {"packed": True})], b"abc\0\x07zz"),
    ([("struct", "V", "s*~ : str\nB : z", {"packed": True})], b"\0\x07zz"),
    ([("struct", "V2", "H*~ : arr\nB : z", {})], bytes([1, 0, 2, 0, 0, 0, 9, 9])),
    ([("struct", "V3", "B : a\nH*~ : arr\nI : z", {})], bytes([7, 0xff, 1, 0, 2, 0, 0, 0, 9, 9, 9, 9, 8, 8, 8, 8])),
    ([("struct", "C", "s*~I : str\nB : z", {"packed": True})], b"\x03\0\0\0abc\x07"),
    ([("struct", "C2", "H*~B : arr\nB : z", {"packed": True})], bytes([2, 1, 0, 2, 0, 7, 7, 7])),
    ([("struct", "C3", "H*~H : arr\nB : z", {"packed": True})], bytes([0, 0, 1, 0, 2, 0, 7, 7, 7])),
    ([("struct", "C4", "c*~H : arr\nB : z", {"packed": True})], bytes([2, 0, 65, 66, 2, 0, 7, 7, 7])),
    ([("struct", "D", "I : n\nH : u\ns*.n : data\nB : z", {})], b"\x05\0\0\0\x99\xffabcdef"),
    ([("struct", "D2", "B : n\nH*.n : data\nB : z", {})], bytes([2, 0xee, 1, 0, 2, 0, 7, 7])),
    ([("struct", "Lb", "I*%leb128 : u\ni*%leb128 : s\nB : z", {"packed": True})], bytes([0xe5, 0x8e, 0x26, 0x7f, 9])),
    ([("struct", "W", "I*%leb128 : n1\ns*.n1 : mod\nI*%leb128 : n2\ns*.n2 : nm\nB : d", {"packed": True})],
     b"\x05AAAAA\x07BBBBBBBxxx"),
]


def corpus_env(entries, tag):
    """turn a hand-written corpus entry into the generator's description (by parsing the text with a
    tiny reader of the same language: one field per line)"""
    env = {}
    for kind, name, src, kargs in entries:
        nm = name + tag
        if kind == "typedef":
            base = src
            cnt = kargs
            basen = base + tag if (base + tag) in env else base
            if basen in env:
                f = {"k": "nest", "ty": basen, "count": cnt, "name": "_"}
            else:
                f = {"k": "raw", "t": base, "count": cnt, "name": "_", "order": None}
            env[nm] = {"name": nm, "kind": "typedef", "packed": False, "order": None, "base": basen, "tdcount": cnt,
                       "fields": [f], "src": "%s : _" % basen}
            continue
        fields = []
        lines = []
        for ln in src.split("\n"):
            ty, rest = ln.split(":", 1)
            ty = ty.strip()
            rest = rest.strip()
            order = None
            if rest[0] in "<>":
                order, rest = rest[0], rest[1:].strip()
            fname = rest
            tn, cnt = (ty.split("*", 1) + [None])[:2]
            tn = tn.strip()
            cnt = cnt.strip() if cnt else None
            tnn = tn + tag if (tn + tag) in env else tn
            if tnn in env:
                if cnt and cnt.startswith("#"):
                    sizes = [int(x) for x in cnt[1:].split("/")]
                    fields.append({"k": "bitsEx", "ty": tnn, "subs": list(zip(fname.split("/"), sizes))})
                else:
                    fields.append({"k": "nest", "ty": tnn, "count": int(cnt) if cnt else 0, "name": fname})
            elif cnt is None or cnt.isdigit():
                fields.append({"k": "raw", "t": tn, "count": int(cnt) if cnt else 0, "name": fname, "order": order})
            elif cnt.startswith("#"):
                sizes = [int(x) for x in cnt[1:].split("/")]
                fields.append({"k": "bits", "t": tn, "subs": list(zip(fname.split("/"), sizes)), "order": order})
            elif cnt == "~":
                fields.append({"k": "var", "t": tn, "name": fname, "order": order})
            elif cnt.startswith("~"):
                fields.append({"k": "cnt", "t": tn, "ct": cnt[1], "name": fname, "order": order})
            elif cnt.startswith("."):
                fields.append({"k": "bound", "t": tn, "ref": cnt[1:], "name": fname, "order": order})
            elif cnt == "%leb128":
                fields.append({"k": "leb", "t": tn, "signed": tn in "bhil", "name": fname})
            lines.append(ln.replace(tn, tnn, 1) if tnn != tn else ln)
        fields = G.merge_bits(fields, kargs.get("order"), env)
        env[nm] = {"name": nm, "kind": kind, "packed": bool(kargs.get("packed")), "order": kargs.get("order"),
                   "fields": fields, "src": "\n".join(lines)}
    return env, nm


def main(tier):
    ck = Check("C16", tier)
    quick = tier == "quick"
    r = rng("C16")
    broken = ck.build_and_audit(["Amoco.Props.C16", "drv_struct"])
    drv = None
    for attempt in range(6):
        try:
            drv = Driver("drv_struct")
            break
        except InternalError as e:
            # drv_struct is shared with another check: it may be re-linking right now
            time.sleep(3)
            lake_build(["drv_struct"])
    try:
        if drv is None:
            drv = Driver("drv_struct")
    except InternalError as e:
        ck.report("C16:driver", "model driver not available: %s" % e, "proof-obligation", "lake build drv_struct",
                  failing_input_found=False)
        return ck.finish("no case could be generated: the model driver did not build")
    fresh_amoco()
    corr = []          # broken ties without failing input: (name, case, real, model)
    ref_broken = []    # reference validation failures
    tag = "_%d" % (seed() % 100000)
    per_aspect = {}

    def violation(aspect, case, what, real, model, expected):
        """a failing input on the real code (oracle disagrees): shrink and report"""
        if per_aspect.get(aspect, 0) >= 6:
            # enough distinct shapes shown for this aspect: fold the rest into one line
            ck.report("C16:%s:(further shapes)" % aspect, "%s: %s" % (aspect, what), "oracle",
                      theorem_of(aspect), case=case.dump(), real=real, model=model, expected=expected)
            return
        c2 = shrink(aspect, case)
        sg = sig(aspect, c2.top, c2.env)
        if sg not in ck.known and not any(v["signature"] == sg for v in ck.violations):
            per_aspect[aspect] = per_aspect.get(aspect, 0) + 1
        ck.report(sg, "%s: %s  [minimal: %r psize=%s]" % (aspect, what, c2.env[c2.top]["src"], c2.ps), "oracle",
                  theorem_of(aspect), case=c2.dump(), real=real, model=model, expected=expected)

    def theorem_of(aspect):
        if aspect.startswith("layout") or aspect == "define":
            return "Amoco.Struct.Props.layout_eq_abi"
        if aspect.startswith("pack"):
            return "Amoco.Struct.Props.pack_unpack"
        if aspect.startswith("leb"):
            return "Amoco.Struct.Props.uleb_roundtrip / sleb_roundtrip / *_canonical"
        return "Amoco.Struct.Props.pack_unpack (unpack side) / unpack_len_eq_size"

    # ---- evaluation helpers ----------------------------------------------------------------
    def eval_layout(case, classes):
        """compare real / model / oracle layouts for all psizes; returns list of failing aspects"""
        fails = []
        top, env = case.top, case.env
        reqs = [model_layout_req(top, env, ps) for ps in PSIZES]
        answers = drv.ask_many(reqs)
        for ps, a in zip(PSIZES, answers):
            real = real_layout(classes, top, ps)
            exp = oracle_layout(top, env, ps) if ps else None
            ck.count("L.queries")
            if exp is not None and not has_x(top, env):
                cmp_real = dict(real)
                if real["size"] is None:
                    cmp_real["offsets"] = None
                for key in ("size", "align", "offsets"):
                    if key == "offsets" and env[top]["kind"] == "typedef":
                        continue
                    if cmp_real[key] != exp[key]:
                        fails.append(("layout." + key, ps, "psize=%d %s: code %r, C ABI %r" % (ps, key, cmp_real[key], exp[key]),
                                      real, a, exp))
            if a == "unmodelled":
                ck.count("L.unmodelled")
                continue
            if isinstance(a, dict) and "err" in a:
                corr.append(("layout-model-error", case.dump(), real, a))
                continue
            mod = {"size": a["size"], "align": a["align"], "offsets": R.offsets_model(a["offsets"])}
            rl = dict(real)
            if rl["size"] is None or mod["size"] is None:
                rl["offsets"] = mod["offsets"] = None
            if mod != rl:
                if not any(f[1] == ps for f in fails):
                    corr.append(("layout", dict(case.dump(), psize=ps), rl, mod))
            # the theorem instance, evaluated: model == reference
            if a.get("ref") is not None:
                rf = a["ref"]
                if (a["size"], a["align"]) != (rf["size"], rf["align"]) or R.offsets_model(a["offsets"]) != R.offsets_model(rf["entries"]):
                    corr.append(("model!=ref", dict(case.dump(), psize=ps), None, a))
                if exp is not None and (rf["size"], rf["align"]) != (exp["size"], exp["align"]):
                    ref_broken.append(("lean-ref vs python-oracle", dict(case.dump(), psize=ps), rf, exp))
        return fails

    def eval_unpack(case, classes):
        """returns list of failing aspects (oracle vs real); records broken ties"""
        top, env, ps, data, off = case.top, case.env, case.ps, case.data, case.off
        a = drv.ask(model_unpack_req(top, env, ps, data, off))
        real = R.run_unpack(classes[top], top, env, ps, data, off)
        exp = None
        cpy = False
        try:
            exp = oracle_unpack(top, env, ps, data, off)
        except O.CPythonFloat:
            cpy = True
        try:
            O.decode(top, env, ps, data, off)
        except O.CPythonFloat:
            cpy = True
        except Exception:
            pass
        if cpy:
            ck.count("U.skipped-f-signalling-nan")
            return []
        if has_x(top, env) or ps == 0:
            exp = None
        fails = []
        noncanon = leb_noncanonical(top, env, ps, data, off)
        if exp is not None:
            if exp["ok"] and not real["ok"]:
                fails.append(("unpack.raise", "code raises %s, expected a value" % real.get("exc", ""), real, a, exp))
            elif not exp["ok"]:
                # the byte string is too short for this definition: the property does not say what
                # must happen (the code may raise or return what it could read); correspondence only
                ck.count("U.insufficient-data")
            elif exp["ok"]:
                rv = norm(real["value"])
                ev = exp["value"]
                if env[top]["kind"] != "typedef":
                    rvv, evv = dict(rv), dict(ev)
                    rl, el = rvv.pop("len"), evv.pop("len")
                    if rvv != evv:
                        fails.append(("unpack.value", "unpacked values differ from the bytes at the C layout", rv, a.get("value") if isinstance(a, dict) else a, ev))
                    elif rl != el:
                        fails.append(("len", "len(instance)=%r, expected %r" % (rl, el), rv, a.get("value") if isinstance(a, dict) else a, ev))
                else:
                    if rv != ev:
                        fails.append(("unpack.value", "typedef value differs", rv, a.get("value") if isinstance(a, dict) else a, ev))
                # what the instance reports after unpack: offsets()/offset_of() must be the C ABI offsets
                if not fails and env[top]["kind"] != "typedef" and O.is_fixed(top, env):
                    el = oracle_layout(top, env, ps)
                    if el is not None and real.get("offsets") != el["offsets"]:
                        fails.append(("offsets-after-unpack", "instance.offsets() = %r, C ABI %r" % (real.get("offsets"), el["offsets"]),
                                      real.get("offsets"), a.get("offsets") if isinstance(a, dict) else a, el["offsets"]))
                    Lr = O.layout(top, env, ps)
                    want = [[f["name"], 0 if env[top]["kind"] == "union" else o]
                            for f, o in zip(env[top]["fields"], Lr["offs"]) if f["k"] not in ("bits", "bitsEx")]
                    if not fails and real.get("offset_of") != want:
                        fails.append(("offset_of", "instance.offset_of() = %r, C ABI %r" % (real.get("offset_of"), want),
                                      real.get("offset_of"), a.get("offset_of") if isinstance(a, dict) else a, want))
                if not fails and not noncanon:
                    if real["packed"] is None:
                        fails.append(("pack.raise", "pack() of the unpacked instance raises %s" % real.get("pack_exc"),
                                      real.get("pack_exc"), a.get("packed") if isinstance(a, dict) else a, exp["packed"]))
                    elif real["packed"] != exp["packed"]:
                        fails.append(("pack.bytes", "pack() gives %s, the original bytes (padding zeroed) are %s" % (real["packed"], exp["packed"]),
                                      real["packed"], a.get("packed") if isinstance(a, dict) else a, exp["packed"]))
        # correspondence
        if a == "unmodelled":
            ck.count("U.unmodelled")
            return fails
        if isinstance(a, dict) and "err" in a:
            corr.append(("unpack-model-error", case.dump(), real, a))
            return fails
        if a["ok"] != real["ok"]:
            if not fails:
                corr.append(("unpack.ok", case.dump(), real, a))
            return fails
        if not a["ok"]:
            ck.count("U.both-reject")
            return fails
        ck.count("U.both-accept")
        ck.count("U.wf" if a.get("wf") else "U.not-wf")
        ck.count("U.canonical" if a.get("canonical") else "U.noncanonical-leb")
        mod = {"ok": True, "value": norm(a["value"]), "len": a["len"],
               "offsets": R.offsets_model(a["offsets"]) if a["offsets"] is not None else None, "packed": a["packed"]}
        if env[top]["kind"] != "typedef" and a.get("offset_of") is not None:
            mod["offset_of"] = a["offset_of"]
        rl = {k: real.get(k) for k in mod}
        rl["value"] = norm(rl["value"])
        if env[top]["kind"] == "typedef":
            mod["len"] = None
        if mod != rl and not fails:
            corr.append(("unpack", case.dump(), rl, mod))
        # the theorem instances, evaluated on the model: pack(unpack) = canon(mask) and mask/len facts
        if exp is not None and exp["ok"] and bool(a.get("canonical")) == noncanon:
            corr.append(("model canonical flag != oracle", case.dump(), noncanon, a.get("canonical")))
        if a.get("wf") and a.get("canonical") and a["packed"] != a["canon"]:
            corr.append(("model: pack(unpack) != canon mask", case.dump(), a["packed"], a["canon"]))
        if exp is not None and exp["ok"] and a["mask"] != exp["mask"] and not fails:
            corr.append(("model mask != oracle mask", case.dump(), a["mask"], exp["mask"]))
        if a["refvalue"] != "none" and env[top]["kind"] != "typedef" and norm(a["refvalue"]) != mod["value"]:
            corr.append(("model unpack != refDecode", case.dump(), a["refvalue"], a["value"]))
        return fails

    def fails_aspect(aspect, case):
        """predicate for the shrinker: does `case` still fail on `aspect`? (fresh type names each time)"""
        env2, top2 = rename_env(case.env, case.top, "s%d" % next(G._counter))
        c2 = Case(top2, env2, case.ps, case.data, case.off, case.stream)
        try:
            classes = R.build(env2)
        except Exception:
            return aspect == "define"
        if aspect == "define":
            return False
        if aspect.startswith("layout"):
            return any(f[0] == aspect for f in eval_layout(c2, classes))
        if c2.data is None:
            return False
        return any(f[0] == aspect for f in eval_unpack(c2, classes))

    def shrink(aspect, case):
        """greedy: descend into nested types, drop top-level fields, drop array counts — while the same
        aspect still fails (data re-synthesised)"""
        cur = case
        n0 = len(corr)
        nref = len(ref_broken)

        def resynth(top, env, old):
            if old.data is None:
                return None
            try:
                return O.synth(top, env, old.ps if old.ps else 8, rng("C16.shrink"))
            except Exception:
                return False

        def candidates(c):
            d = c.env[c.top]
            # 1. a nested type alone
            for f in d["fields"]:
                if f["k"] in ("nest", "bitsEx"):
                    names = list(c.env)
                    sub = {n: c.env[n] for n in names[:names.index(f["ty"]) + 1]}
                    yield f["ty"], copy.deepcopy(sub)
            # 2. without one field
            if len(d["fields"]) > 1:
                for i in range(len(d["fields"])):
                    env2 = copy.deepcopy(c.env)
                    d2 = env2[c.top]
                    f = d2["fields"].pop(i)
                    if any(g.get("ref") == f.get("name") for g in d2["fields"]):
                        continue
                    d2["src"] = regen_src(d2)
                    yield c.top, env2
            # 3. arrays -> single elements
            for i, f in enumerate(d["fields"]):
                if f.get("count"):
                    env2 = copy.deepcopy(c.env)
                    env2[c.top]["fields"][i]["count"] = 0
                    env2[c.top]["src"] = regen_src(env2[c.top])
                    yield c.top, env2
            if d.get("packed"):
                env2 = copy.deepcopy(c.env)
                env2[c.top]["packed"] = False
                yield c.top, env2

        try:
            for _ in range(40):
                for top2, env2 in candidates(cur):
                    data = resynth(top2, env2, cur)
                    if data is False:
                        continue
                    c2 = Case(top2, env2, cur.ps, data, 0, cur.stream)
                    if fails_aspect(aspect, c2):
                        cur = c2
                        break
                else:
                    break
        except Exception:
            pass
        del corr[n0:]
        del ref_broken[nref:]
        return cur

    def run_case(case, do_layout=True):
        top, env = case.top, case.env
        ck.case((case.stream, env[top]["src"], case.ps, case.data), nontrivial=True)
        for k in features(top, env):
            ck.count("shape." + k)
        try:
            classes = R.build(env)
        except Exception as e:
            # does the model's reading of the grammar admit every definition of the environment?
            answers = drv.ask_many([dict(op="struct.parse", **G.driver_def(n, env)) for n in env])
            if any(isinstance(a, dict) and "err" in a for a in answers):
                ck.count("P.both-reject")     # outside the language (e.g. `.name` reference to a name with '$')
                return
            violation("define", case, "the definition raises %s: %s" % (type(e).__name__, str(e)[:80]), type(e).__name__, None, "a class")
            return
        # P: parser
        reqs = [dict(op="struct.parse", **G.driver_def(n, env)) for n in env]
        for n, a in zip(env, drv.ask_many(reqs)):
            real = R.reflect_fields(classes[n])
            mod = a.get("fields") if isinstance(a, dict) else None
            if mod is not None:
                mod = [[x[0], None if x[0] == "Leb128Field" else x[1]] + x[2:] for x in mod]
                if env[n]["kind"] == "typedef" and env[n].get("tdcount"):
                    mod[0][4] = env[n]["tdcount"]
            ck.count("P.definitions")
            if mod != real:
                corr.append(("parse", {"name": n, "src": env[n]["src"], "kind": env[n]["kind"]}, real, mod))
        if do_layout:
            for f in eval_layout(case, classes):
                violation(f[0], Case(top, env, f[1], None, 0, case.stream), f[2], f[3], f[4], f[5])
        if case.data is not None:
            for f in eval_unpack(case, classes):
                violation(f[0], case, f[1], f[2], f[3], f[4])

    # ---- corpus (run first) -------------------------------------------------------------------
    for i, entries in enumerate(CORPUS):
        env, top = corpus_env(entries, "%sc%d" % (tag, i))
        for ps in (4, 8):
            try:
                data = O.synth(top, env, ps, r)
            except O.NotJudged:
                continue
            run_case(Case(top, env, ps, b"\xaa" * 3 + data + b"\x55", 3, "corpus"), do_layout=(ps == 4))
    for i, (entries, data) in enumerate(CORPUS_VAR):
        env, top = corpus_env(entries, "%sv%d" % (tag, i))
        run_case(Case(top, env, 8, data, 0, "corpus-var"), do_layout=False)
    ck.sample({"corpus": CORPUS[0][0][2]})

    # ---- generated definitions ------------------------------------------------------------------
    g = G.Gen(r, tag.strip("_") + "g")
    nfix = 260 if quick else 40000
    nvar = 200 if quick else 30000
    nmal = 60 if quick else 10000
    gcc_pool = []
    for n in range(nfix + nvar + nmal):
        varlen = nfix <= n < nfix + nvar
        mal = n >= nfix + nvar
        top = g.case(varlen=varlen or (mal and r.random() < 0.5), allow_x=mal)
        env = dict(g.env)
        ps = r.choice([4, 8, 32, 64]) if not mal else r.choice([0, 4, 8, 32, 64])
        try:
            data = O.synth(top, env, ps if ps else 8, r)
        except (O.NotJudged, O.Short, Exception):
            data = bytes(r.getrandbits(8) for _ in range(r.randrange(0, 80)))
        pre = bytes(r.getrandbits(8) for _ in range(r.choice([0, 0, 0, 4, 8])))
        if mal:
            pre = bytes(r.getrandbits(8) for _ in range(r.choice([0, 1, 2, 3, 5, 7])))     # unaligned base
            c = r.random()
            if c < 0.4 and data:
                data = data[:r.randrange(len(data))]                                        # truncated
            elif c < 0.6:
                data = bytes(r.getrandbits(8) for _ in range(len(data)))                    # arbitrary bytes
        post = bytes(r.getrandbits(8) for _ in range(r.choice([0, 0, 1, 5])))
        stream = "malformed" if mal else ("var" if varlen else "fixed")
        ck.count("stream." + stream)
        case = Case(top, env, ps, pre + data + post, len(pre), stream)
        run_case(case, do_layout=(n % 2 == 0))
        if n < 3:
            ck.sample({"src": env[top]["src"], "kind": env[top]["kind"], "packed": env[top].get("packed"), "psize": ps,
                       "data": (pre + data + post).hex(), "offset": len(pre)})
        if not varlen and not mal:
            gcc_pool.append((top, env))

    # ---- single variable-length field, boundary counts, data ending exactly at the instance ---------
    k = 0
    for t in G.VAR_LETTERS:
        for kind in ("var", "cnt", "bound", "leb"):
            for cnt in (0, 1, 2):
                for packed in (False, True):
                    k += 1
                    nm = "E%s%d" % (tag.strip("_"), k)
                    o = r.choice([None, "<", ">"])
                    if kind == "var":
                        fs = [{"k": "var", "t": t, "name": "v", "order": o}]
                    elif kind == "cnt":
                        fs = [{"k": "cnt", "t": t, "ct": r.choice("bBhHiI"), "name": "v", "order": o}]
                    elif kind == "bound":
                        fs = [{"k": "raw", "t": r.choice("BHI"), "count": 0, "name": "n", "order": o},
                              {"k": "bound", "t": t, "ref": "n", "name": "v", "order": o}]
                    else:
                        if t not in "bBhHiIqQ":
                            continue
                        fs = [{"k": "leb", "t": t, "signed": t in "bhil", "name": "v"}]
                    d = {"name": nm, "kind": "struct", "packed": packed, "order": None, "fields": fs}
                    d["src"] = regen_src(d)
                    env = {nm: d}
                    sz = O.c_size(t, 8)
                    f = fs[-1]
                    od = O.order_of(f, d)
                    body = b"".join(bytes([r.randrange(1, 256)]) + bytes(r.getrandbits(8) for _ in range(sz - 1)) for _ in range(cnt))
                    if kind == "var" and cnt == 2 and sz > 1:
                        # sz null bytes straddling the two (non-null) elements: not a terminator
                        h = r.randrange(1, sz)
                        body = bytes(r.randrange(1, 256) for _ in range(sz - h)) + bytes(sz) + bytes(r.randrange(1, 256) for _ in range(h))
                    if kind == "var":
                        data = body + bytes(sz)
                    elif kind == "cnt":
                        data = struct.pack(od + f["ct"], cnt) + body
                    elif kind == "bound":
                        data = struct.pack(od + fs[0]["t"], cnt)
                        data += bytes(r.getrandbits(8) for _ in range(O.up(len(data), 1 if packed else sz) - len(data))) + body
                    else:
                        data = O.leb_write([0, -1 if f["signed"] else 127, 300][cnt], f["signed"])
                    ck.count("stream.boundary")
                    run_case(Case(nm, env, 8, data, 0, "boundary"), do_layout=False)

    # ---- known-finding probes --------------------------------------------------------------------
    probe_env, probe_top = corpus_env([("struct", "KFwide", "B *#5/5 : a/b", {})], tag + "k1")
    try:
        cls = R.build(probe_env)[probe_top]
        v = cls().unpack(b"\xff\xff")
        if cls.size() == 1 and v.b == 7:
            ck.report("C16:layout:bit-field group wider than its storage unit",
                      "`B *#5/5 : a/b` is accepted with size 1 and `b` silently truncated to 3 bits (C needs two units)",
                      "oracle", "Amoco.Struct.Props.pack_unpack (hypothesis wf) / layout_eq_abi",
                      case={"src": "B *#5/5 : a/b", "data": "ffff"}, real={"size": cls.size(), "b": v.b}, expected={"size": 2, "b": 31})
    except Exception:
        pass
    probe_env, probe_top = corpus_env([("struct", "KFsign", "h *#8/8 : a/b", {})], tag + "k2")
    try:
        cls = R.build(probe_env)[probe_top]
        inst = cls().unpack(b"\xff\xff")
        try:
            out = inst.pack()
            okp = out == b"\xff\xff"
        except Exception as e:
            okp = False
        if not okp:
            ck.report("C16:pack:bit-field over a signed storage type with the sign bit set",
                      "`h *#8/8 : a/b` unpacked from ff ff cannot be packed again (struct.error: value out of range for 'h')",
                      "oracle", "Amoco.Struct.Props.pack_unpack (hypothesis wf: sign bit uncovered)",
                      case={"src": "h *#8/8 : a/b", "data": "ffff"}, real="raises", expected="ffff")
    except Exception:
        pass
    probe_env, probe_top = corpus_env([("struct", "KFx", "B : a\nx : pad\nH : b", {})], tag + "k3")
    try:
        cls = R.build(probe_env)[probe_top]
        try:
            cls().unpack(b"\x01\x02\x03\x04")
        except Exception as e:
            ck.report("C16:unpack:pad byte 'x' without a count",
                      "`x : pad` is accepted by the language but unpack raises %s (struct returns no value for 'x')" % type(e).__name__,
                      "oracle", "Amoco.Struct.Props.pack_unpack (unpack fails: outside the statement)",
                      case={"src": "B : a\nx : pad\nH : b", "data": "01020304"}, real="raises", expected="a=1, b=0x0403")
    except Exception:
        pass

    # ---- B: LEB128 ---------------------------------------------------------------------------------
    from amoco.system.structs.utils import read_leb128, write_uleb128, write_sleb128
    nleb = 1500 if quick else 250000
    reqs, expect = [], []
    for k in range(nleb):
        sg = r.random() < 0.5
        c = r.random()
        if c < 0.3:
            b = r.choice([0, 6, 7, 8, 13, 14, 15, 31, 32, 63, 64, 65, 70])
            v = r.choice([(1 << b) - 1, 1 << b, (1 << b) + 1, 0])
            if sg and r.random() < 0.5:
                v = -v - r.choice([0, 1])
        else:
            v = r.getrandbits(r.randrange(1, 130))
            if sg and r.random() < 0.5:
                v = -v
        w = (write_sleb128 if sg else write_uleb128)(v)
        exp_w = O.leb_write(v, sg)
        ck.count("B.write")
        ck.case(("leb.w", sg, v), nontrivial=True)
        if w != exp_w:
            ck.report("C16:leb.write:%s" % ("signed" if sg else "unsigned"), "write of %d gives %s, LEB128 is %s" % (v, w.hex(), exp_w.hex()),
                      "oracle", "Amoco.Struct.Props.uleb_roundtrip / sleb_roundtrip", case={"signed": sg, "value": v}, real=w.hex(), expected=exp_w.hex())
        reqs.append({"op": "leb.write", "signed": sg, "value": v}); expect.append(("w", sg, v, w.hex()))
        # reading: what was written (+ tail, at an offset), and arbitrary bytes
        pre = bytes(r.getrandbits(8) for _ in range(r.choice([0, 0, 1, 3])))
        if r.random() < 0.7:
            bs = w + bytes(r.getrandbits(8) for _ in range(r.choice([0, 0, 2])))
            want = (v, len(w))
        else:
            bs = bytes(r.getrandbits(8) for _ in range(r.randrange(1, 8)))
            bs = bs[:-1] + bytes([bs[-1] & 0x7f])
            want = None
        try:
            rd = read_leb128(pre + bs, -1 if sg else 1, len(pre))
            rd = [rd[0], rd[1]]
        except Exception as e:
            rd = None
        ck.count("B.read")
        ck.case(("leb.r", sg, pre + bs, len(pre)), nontrivial=True)
        if want is not None and rd != [want[0], want[1]]:
            ck.report("C16:leb.read:%s" % ("signed" if sg else "unsigned"), "read(write(%d)) = %r" % (v, rd), "oracle",
                      "Amoco.Struct.Props.uleb_roundtrip / sleb_roundtrip", case={"signed": sg, "value": v, "bytes": (pre + bs).hex(), "offset": len(pre)},
                      real=rd, expected=list(want))
        reqs.append({"op": "leb.read", "signed": sg, "data": (pre + bs).hex(), "offset": len(pre)}); expect.append(("r", sg, (pre + bs).hex(), rd))
    for (kind, sg, x, real), a in zip(expect, drv.ask_many(reqs)):
        if a != real:
            corr.append(("leb." + kind, {"signed": sg, "input": x}, real, a))
    ck.sample({"leb": [expect[0], expect[1]]})

    # ---- G: gcc validation of the reference -----------------------------------------------------------
    ngcc = 60 if quick else 15000
    pool = gcc_pool[:ngcc]
    with tempfile.TemporaryDirectory(prefix="c16gcc") as wd:
        for ps in (8, 4):
            names, env_all = [], {}
            for top, env in pool:
                try:
                    for nme in env:
                        O.layout(nme, env, ps)
                    O.c_table([top], env)
                except (O.VarLen, O.NotJudged):
                    continue
                env_all.update(env)
                names.append(top)
            if not names:
                continue
            try:
                tabs = gcc_tables(names, env_all, ps, wd)
            except InternalError as e:
                ref_broken.append(("gcc", {"psize": ps}, str(e)[:600], None))
                continue
            areqs = [model_layout_req(nme, env_all_for(nme, pool), ps) for nme in names]
            answers = drv.ask_many(areqs)
            for nme, a in zip(names, answers):
                ck.count("G.definitions-vs-gcc")
                gsz, gal, goffs = tabs[nme]
                L = O.layout(nme, env_all, ps)
                gofs_cmp = [(o if g is not None else None) for o, g in zip(L["offs"], goffs)]
                if (L["size"], L["align"], gofs_cmp) != (gsz, gal, goffs):
                    ref_broken.append(("python-oracle vs gcc", {"name": nme, "src": env_all[nme]["src"], "psize": ps,
                                                                "kind": env_all[nme]["kind"], "packed": env_all[nme].get("packed")},
                                       {"size": L["size"], "align": L["align"], "offs": L["offs"]}, {"size": gsz, "align": gal, "offs": goffs}))
                if isinstance(a, dict) and a.get("ref"):
                    rf = a["ref"]
                    rofs = [(o if g is not None else None) for o, g in zip(rf["offs"], goffs)]
                    if (rf["size"], rf["align"], rofs) != (gsz, gal, goffs):
                        ref_broken.append(("lean-ref vs gcc", {"name": nme, "src": env_all[nme]["src"], "psize": ps}, rf, {"size": gsz, "align": gal, "offs": goffs}))
    drv.close()

    # ---- broken obligations / ties -----------------------------------------------------------------------
    for b in broken:
        ck.report("C16:proof-obligation", "proof obligation broken: %s" % b[:300], "proof-obligation", b[:2000],
                  failing_input_found=False)
    if corr:
        name, case, real, mod = corr[0]
        ck.report("C16:correspondence", "model and code disagree on %d cases (first: %s) and the property oracle sides with the code" % (len(corr), name),
                  "correspondence", "correspondence Amoco.Struct ~ amoco/system/structs (%s)" % name, case=case, real=real, model=mod,
                  failing_input_found=False)
    if ref_broken:
        name, case, a, b = ref_broken[0]
        ck.report("C16:reference-validation", "the C ABI reference disagrees with its validator on %d definitions (first: %s)" % (len(ref_broken), name),
                  "reference-validation", "gcc validation of Amoco.Struct.refDef / struct_oracle.layout (%s)" % name, case=case, real=a, expected=b,
                  failing_input_found=False)
    ck.oblige("correspondence parser/layout/unpack/pack/leb128", not corr, "%d disagreements" % len(corr))
    ck.oblige("reference validation (gcc -m64, -m32 -malign-double)", not ref_broken, "%d disagreements" % len(ref_broken))
    ck.assumptions += [
        "CPython `struct`, float<->double conversion (an 'f' signalling NaN is quieted by CPython: such inputs are skipped and counted), pyparsing: modelled, not verified",
        "bit-field groups are read as ONE storage unit of the declared type (the language's own reading; = MS bit-field ABI, validated with gcc ms_struct)",
        "psize 0 (host-native) with l/L/P, the pad letter 'x' and definitions outside `modelled`: correspondence only, the property does not judge them",
        "pack(unpack) reproduces LEB128 numbers only in shortest form (theorem hypothesis `canonical`); other encodings are counted, not judged"]
    ck.trusted += ["harness/struct_oracle.py (independent C ABI calculator + python struct), validated against gcc each run",
                   "harness/struct_real.py (reflection/canonicalisation of amoco objects)", "compiled Lean driver drv_struct",
                   "gcc/objcopy for the reference validation"]
    return ck.finish("definitions drawn from the grammar of the definition language (scalars incl. pointer-size letters, arrays, nested "
                     "structs/unions/typedefs up to depth 4, bit-field groups incl. one-part lines that merge, packed or not, byte orders, "
                     "comments/whitespace variants; variable-length: terminated, counted, bound, LEB128); data: synthesised valid instances "
                     "with random padding, at aligned and unaligned offsets, truncated and arbitrary bytes; every case distinct by "
                     "(stream, source text, psize, data)")


def replay(path):
    """re-run the case of a replay file on the current tree: prints real / model / expected"""
    rec = json.load(open(path))
    c = rec.get("case") or {}
    if "env" not in c:
        print(json.dumps(rec, indent=1)[:4000])
        return 0
    case = load_case(c)
    env2, top2 = rename_env(case.env, case.top, "r%d" % os.getpid())
    fresh_amoco()
    drv = Driver("drv_struct")
    out = {"signature": rec.get("signature"), "broken": rec.get("broken")}
    try:
        classes = R.build(env2)
    except Exception as e:
        out["real"] = "definition raises %s: %s" % (type(e).__name__, e)
        print(json.dumps(out, indent=1, default=repr))
        return 1
    ps = case.ps if case.ps is not None else 8
    out["layout"] = {"real": real_layout(classes, top2, ps), "model": drv.ask(model_layout_req(top2, env2, ps)),
                     "expected": oracle_layout(top2, env2, ps)}
    if case.data is not None:
        out["unpack"] = {"real": R.run_unpack(classes[top2], top2, env2, ps, case.data, case.off),
                         "model": drv.ask(model_unpack_req(top2, env2, ps, case.data, case.off))}
        try:
            out["unpack"]["expected"] = oracle_unpack(top2, env2, ps, case.data, case.off)
        except Exception as e:
            out["unpack"]["expected"] = "not judged (%s)" % type(e).__name__
    drv.close()
    print(json.dumps(out, indent=1, default=repr))
    return 0


def env_all_for(name, pool):
    for top, env in pool:
        if name in env:
            return env
    raise KeyError(name)


if __name__ == "__main__":
    if len(sys.argv) > 2 and sys.argv[1] == "--replay":
        sys.exit(replay(sys.argv[2]))
    sys.exit(main(sys.argv[1] if len(sys.argv) > 1 else "quick"))
