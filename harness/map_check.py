"""
map_check.py — shared machinery of the mapper checks (C02, C09):
  * correspondence of the real `mapper` with the Lean model on IR programs (ordered map, lastw, mods,
    zones byte by byte, after every statement and at the end),
  * the property oracle on real code, independent of the model: `(concrete >> symbolic)` against the
    sequential reference execution (map_ref), a remaining `mem`-with-mods interpreted by replay,
  * shrinking and shape signatures of failing programs.
"""
import json
import map_ref
from map_gen import REGSIZE, PTRS, DATA32, DATA64, size_of
from map_real import (Settings, run, concrete_mapper, eval_real, Unknown, dump_map, dump_zones, repr_canon,
                      zone_key, reg)

SETTINGS = ((True, True), (False, True), (False, False), (True, False))     # (noaliasing, memtrace)


def setting_name(noal, mt):
    return "noaliasing=%s,memtrace=%s" % (noal, mt)


# ---------------------------------------------------------------------------------------------------
# correspondence
# ---------------------------------------------------------------------------------------------------

def _has_operator(c):
    """does a canonical expression contain an operator node (inside mods and load bases too)?"""
    for p in c:
        if p[0] != "s":
            continue
        l = p[1]
        if l[0] in ("o", "u", "?"):
            return True
        if l[0] == "a" and _has_operator(l[1]):
            return True
        if l[0] == "l":
            if _has_operator(l[1]):
                return True
            for m in l[5]:
                if m and m[0] != "reg-mod" and (_has_operator(m[0]) or _has_operator(m[2])):
                    return True
    return False


ALGEBRA = "algebra-in-pointer"     # a pointer whose base contains an operator: its normal form (extract_offset,
                                   # operand order, x|0 -> x …) is the algebra's business (C01), not the mapper's


def _same_entries(A, B, states, count):
    if len(A) != len(B):
        return "number of items %d vs %d" % (len(A), len(B))
    for i, (a, b) in enumerate(zip(A, B)):
        if a[0] != b[0]:
            return "item %d kind" % i
        if a[0] == "r":
            if a[1:3] != b[1:3]:
                return "item %d register %s vs %s" % (i, a[1:3], b[1:3])
            k = map_ref.same_canon(a[3], b[3], states)
        else:
            kp = map_ref.same_canon(a[1], b[1], states)
            if kp != "equal":
                count("pointer-" + kp)       # the base mentions values the algebra rewrote (inside mods): compared by value
            if kp == "different" or a[2] != b[2]:
                if _has_operator(a[1]) or _has_operator(b[1]):
                    return ALGEBRA
                return "item %d pointer" % i
            if a[4] != b[4]:
                return "item %d byte order" % i
            k = map_ref.same_canon(a[3], b[3], states)
        count("value-" + k)
        if k == "different":
            return "item %d value" % i
    return None


def _same_zones(A, B, states, count):
    A = {k: v for k, v in A.items() if v}
    B = {k: v for k, v in B.items() if v}
    # zone keys are canonical bases; a base that mentions values the algebra rewrote is matched by value
    pairs, restB = [], dict(B)
    for ka in A:
        if ka in restB:
            pairs.append((ka, ka))
            del restB[ka]
            continue
        found = None
        if ka != "None":
            for kb in restB:
                if kb != "None" and map_ref.same_canon(json.loads(ka), json.loads(kb), states) != "different":
                    found = kb
                    break
        if found is None:
            if any(k != "None" and _has_operator(json.loads(k)) for k in list(A) + list(B)):
                return ALGEBRA
            return "zone keys %s vs %s" % (sorted(A), sorted(B))
        count("zone-key-by-value")
        pairs.append((ka, found))
        del restB[found]
    if restB:
        if any(k != "None" and _has_operator(json.loads(k)) for k in list(A) + list(B)):
            return ALGEBRA
        return "zone keys %s vs %s" % (sorted(A), sorted(B))
    for ka, kb in pairs:
        if [x[0] for x in A[ka]] != [x[0] for x in B[kb]]:
            return "zone %s offsets" % ka
        for x, y in zip(A[ka], B[kb]):
            kk = map_ref.same_canon(x[1], y[1], states)
            count("zone-byte-" + kk)
            if kk == "different":
                return "zone %s byte at %d" % (ka, x[0])
    return None


def norm(x):
    return json.loads(json.dumps(x))


def compare_run(drv, prog, noal, mt, r, count):
    """runs the program on the real mapper and on the model; returns None (agree), "unmodelled",
       ("raise", exception name) or ("diff", where, real dump, model dump)."""
    trace = []
    with Settings(noal, mt):
        try:
            m, _ = run(prog, trace=trace)
        except Exception as ex:
            return ("raise", type(ex).__name__)
        real = dump_map(m)
        real["zones"] = dump_zones(m)
    mod = drv.ask({"op": "map.run", "prog": prog, "noaliasing": noal, "memtrace": mt, "trace": True})
    if mod == "unmodelled":
        return "unmodelled"
    if isinstance(mod, dict) and "err" in mod:
        return ("diff", "driver error " + str(mod["err"]), None, mod)
    states = map_ref.probe_states(REGSIZE, r)
    for i, (tr, tm) in enumerate(zip(trace, mod["trace"])):
        w = _same_entries(norm(tr["entries"]), tm["entries"], states, count)
        if w is None and tr["lastw"] != tm["lastw"]:
            w = "lastw %d vs %d" % (tr["lastw"], tm["lastw"])
        if w == ALGEBRA:
            count(ALGEBRA + "(comparison stops there)")
            return None
        if w is not None:
            return ("diff", "after statement %d: %s" % (i, w), tr, tm)
    mz = {("None" if k is None else repr_canon(k)): v for k, v in mod["zones"]}
    w = _same_zones(norm(real["zones"]), mz, states, count)
    if w == ALGEBRA:
        count(ALGEBRA + "(comparison stops there)")
        return None
    if w is not None:
        return ("diff", "final " + w, real["zones"], mz)
    return None


# ---------------------------------------------------------------------------------------------------
# oracle
# ---------------------------------------------------------------------------------------------------

def base_state(vals, k=0):
    regs = {n: ((0x01010101 * (i + 3) * 7 + i + 0x1111 * k) & ((1 << REGSIZE[n]) - 1)) for i, n in enumerate(DATA32 + DATA64)}
    for p in PTRS:
        regs[p] = 0x3000 + 0x100 * PTRS.index(p)
    regs.update(vals)
    return map_ref.State(regs, REGSIZE)


def overlap_of_distinct_zones(accesses, st0):
    """do two accesses through different zones touch a common byte under st0?  None if some pointer does
       not evaluate."""
    spans = []
    for p, n in accesses:
        try:
            a = eval_real(p, st0)
        except Unknown:
            return None
        spans.append((zone_key(p), a, a + n))
    for i in range(len(spans)):
        for j in range(i + 1, len(spans)):
            a, b = spans[i], spans[j]
            if a[0] != b[0] and a[1] < b[2] and b[1] < a[2]:
                return True
    return False


def oracle(prog, noal, mt, vals, check_mem=True, k=0):
    """property oracle on the real code for one pointer assignment.
       returns ("ok" | "skip-<why>" | "raise-<exc>", None) or ("fail", detail)"""
    st0 = base_state(vals, k)
    st = st0.copy()
    map_ref.run(prog, st)
    with Settings(noal, mt):
        acc = []
        try:
            m, _ = run(prog, accesses=acc)
        except Exception as ex:
            return "raise-symbolic-" + type(ex).__name__, None
        if noal:
            ov = overlap_of_distinct_zones(acc, st0)
            if ov is None:
                return "skip-pointer-unknown", None
            if ov:
                return "skip-distinct-bases-overlap", None
        c = concrete_mapper(st0, [(a, n) for _, a, n in st.accesses])
        try:
            cm = c >> m
        except Exception as ex:
            return "raise-compose-" + type(ex).__name__, None
        for n, size in REGSIZE.items():
            v = cm[reg(n, size)]
            if v._is_cst:
                got, how = v.v & v.mask, "constant"
            else:
                try:
                    got, how = eval_real(v, st0), "replay"
                except Unknown:
                    continue
            if got != st.reg(n):
                return "fail", {"where": "reg", "loc": n, "got": got, "expected": st.reg(n), "how": how,
                                "symbolic": str(m[reg(n, size)]), "composed": str(v)}
        if check_mem:
            # final memory (1): the pointer items of the composed map replayed in order on the initial memory
            # (a pointer or a value that stayed symbolic is interpreted by replay)
            fin = st0.copy()
            en = getattr(cm.generation(), "endian", {})
            allconst, known = True, True
            for loc, v in cm:
                if not loc._is_ptr:
                    continue
                allconst = allconst and bool(loc.base._is_cst)
                try:
                    fin.write(eval_real(loc, st0), v.size // 8, eval_real(v, st0), en.get(loc, 1) == -1)
                except Unknown:
                    known = False
                    break
            if known:
                for a in sorted(st.mem):
                    if fin.byte(a) != st.byte(a):
                        return "fail", {"where": "mem", "loc": a, "got": fin.byte(a), "expected": st.byte(a),
                                        "how": "replay of the composed map's pointer items"}
            # final memory (2): when every pointer reduced to a constant, the concrete zone itself
            if allconst:
                for a in sorted(st.mem):
                    p = cm.mmap.read(a, 1)[0]
                    if isinstance(p, bytes):
                        got = p[0]
                    elif not p._is_def:
                        got = st0.byte(a)
                    else:
                        try:
                            got = eval_real(p, st0)
                        except Unknown:
                            continue
                    if got != st.byte(a):
                        return "fail", {"where": "mem", "loc": a, "got": got, "expected": st.byte(a), "how": "zone"}
    return "ok", None


# ---------------------------------------------------------------------------------------------------
# a store in one byte order read back in the other (outside the theorems, which fix one byte order per
# program: sh2 stores its operands little-endian and pops big-endian).  Directly on the real mapper.
# ---------------------------------------------------------------------------------------------------

def mixed_order_case(r):
    s1 = r.choice((16, 32, 64))
    s2 = r.choice((8, 16, 32, 64))
    n1, n2 = s1 // 8, s2 // 8
    d1 = r.randrange(-4, 5)
    d2 = d1 if r.random() < 0.4 else d1 + r.randrange(-(n2 - 1), n1)
    e1 = r.choice((1, -1))
    e2 = -e1 if r.random() < 0.8 else e1
    return {"store": [d1, s1, e1], "load": [d2, s2, e2], "value": r.choice(("reg", "cst")), "cst": r.getrandbits(s1)}


def mixed_order_shape(case):
    (d1, s1, e1), (d2, s2, e2) = case["store"], case["load"]
    rel = "same" if (d1, s1) == (d2, s2) else ("inside" if d1 <= d2 and d2 * 8 + s2 <= d1 * 8 + s1 else "across")
    return "%s-store/%s-load:%s:%s" % ("be" if e1 < 0 else "le", "be" if e2 < 0 else "le", rel, case["value"])


def mixed_order_oracle(case, noal, mt, k=0):
    """("ok", None) or ("fail", detail): `[p+d1] :=(e1) v; y := load(e2) [p+d2]` composed with a concrete state
       against the byte-level execution"""
    from map_real import mapper, mem, cst
    (d1, s1, e1), (d2, s2, e2) = case["store"], case["load"]
    st0 = base_state({}, k)
    st = st0.copy()
    pv = st0.reg("p")
    val = (st0.reg("x") & ((1 << s1) - 1)) if case["value"] == "reg" else case["cst"]
    st.write(pv + d1, s1 // 8, val, e1 < 0)
    expected = st.read(pv + d2, s2 // 8, e2 < 0)
    with Settings(noal, mt):
        try:
            m = mapper()
            P, X, Y = reg("p", 32), reg("x", 64), reg("y", 64)
            v = X[0:s1] if case["value"] == "reg" else cst(case["cst"], s1)
            m[mem(P, s1, disp=d1, endian=e1)] = v
            m[Y] = m(mem(P, s2, disp=d2, endian=e2)).zeroextend(64)
            c = concrete_mapper(st0, [(pv + d1, s1 // 8), (pv + d2, s2 // 8)])
            got = (c >> m)[Y]
        except Exception as ex:
            return "raise-" + type(ex).__name__, None
        if got._is_cst:
            got, how = got.v & got.mask, "constant"
        else:
            try:
                got, how = eval_real(got, st0), "replay"
            except Unknown:
                return "skip-symbolic", None
        if got != expected:
            return "fail", {"where": "reg", "loc": "y", "got": got, "expected": expected, "how": how, "symbolic": str(m[Y])}
    return "ok", None


# ---------------------------------------------------------------------------------------------------
# shrinking and shapes
# ---------------------------------------------------------------------------------------------------

def shrink(prog, fails):
    """greedy removal of statements while `fails(prog)` stays true"""
    stmts = list(prog["stmts"])
    changed = True
    while changed and len(stmts) > 1:
        changed = False
        for i in range(len(stmts)):
            cand = {"be": prog["be"], "stmts": stmts[:i] + stmts[i + 1:]}
            try:
                if fails(cand):
                    stmts = cand["stmts"]
                    changed = True
                    break
            except Exception:
                pass
    return {"be": prog["be"], "stmts": stmts}


def _loads(e, out):
    k = e[0]
    if k == "load":
        _loads(e[1][0], out)
        out.append(e)
    elif k in ("slc", "addc"):
        _loads(e[1], out)
    elif k == "cat":
        for x in e[1]:
            _loads(x, out)
    elif k == "op":
        _loads(e[2], out)
        _loads(e[3], out)


def shape(prog):
    """shape of a (shrunk) program: the sequence of its memory accesses and pointer updates, pointers
       renamed in order of appearance — `st32[P0] st8[P1] ld32[P1]`"""
    names = {}

    def ptr(addr):
        base, disp = addr
        if base[0] == "cst":
            b = "K"
        elif base[0] == "reg":
            b = names.setdefault(base[1], "P%d" % len(names))
        else:
            b = "E"
        return "%s%s" % (b, ("%+d" % disp) if disp else "")

    out = []
    for s in prog["stmts"]:
        ls = []
        _loads(s[-1], ls)
        for l in ls:
            out.append("ld%d[%s]" % (l[2], ptr(l[1])))
        if s[0] == "store":
            out.append("st%d[%s]" % (s[2], ptr(s[1])))
        elif s[1] in PTRS:
            out.append("%s:=" % names.setdefault(s[1], "P%d" % len(names)))
        elif not ls:
            out.append("r")
    return ("be " if prog["be"] else "le ") + " ".join(out)
