"""
struct_oracle.py — property-level oracle for C16, independent of amoco.

Works on the generator's own description of a definition (plain dicts, see struct_gen.py):
  * `layout(name, env, ps)`  : C ABI layout (size, alignment, member offsets) of a fixed-size
                               definition — natural alignment, none when packed, unions, arrays,
                               nested aggregates, bit-field groups as one storage unit of the
                               declared type (the unit reading of the language, = MS bit-field ABI);
  * `decode(name, env, ps, data, base)` : expected unpacked value, byte length and data mask, using
                               Python's `struct` for scalars and the ABI offsets for members
                               (variable-length members are parsed sequentially, each aligned to its
                               element type relative to the start of the structure);
  * `synth(name, env, ps, r)` : a byte string that is a valid instance (random values, random padding);
  * `c_source(...)`          : C declarations + sizeof/_Alignof/offsetof table for gcc.

Value encoding (same as the Lean driver): int | {"b": hex} | [..] | None | {"i": {name: v}, "len": n};
floats are represented by the unsigned integer of their bytes in the field's byte order.
"""
import struct

INT_LETTERS = "bBhHiIlLqQP"
SIGNED = "bhilq"
CTYPE = {"x": "unsigned char", "c": "char", "b": "signed char", "B": "unsigned char", "s": "char",
         "h": "short", "H": "unsigned short", "i": "int", "I": "unsigned int", "l": "long",
         "L": "unsigned long", "q": "long long", "Q": "unsigned long long", "f": "float",
         "d": "double", "P": "void *"}


class VarLen(Exception):
    pass


class NotJudged(Exception):
    """the property does not say what should happen (construct without C counterpart)"""


class Short(Exception):
    pass


class CPythonFloat(NotJudged):
    """a signalling NaN in an 'f' field: CPython quiets it when widening to a Python float"""


def ptr(ps):
    if ps in (4, 32):
        return 4
    if ps in (8, 64):
        return 8
    raise NotJudged("pointer size %r" % ps)


def c_size(t, ps):
    if t in "xcbBs":
        return 1
    if t in "hH":
        return 2
    if t in "iIf":
        return 4
    if t in "qQd":
        return 8
    if t in "lLP":
        return ptr(ps)
    raise NotJudged(t)


def up(o, a):
    return -(-o // a) * a


# ---------------------------------------------------------------------------------------
# layout
# ---------------------------------------------------------------------------------------

def member(f, env, ps):
    """(size, align) of a fixed-size member"""
    k = f["k"]
    if k == "raw":
        s = c_size(f["t"], ps)
        return s * max(f["count"], 1), s
    if k == "bits":
        s = c_size(f["t"], ps)
        return s, s
    if k == "nest":
        L = layout(f["ty"], env, ps)
        return L["size"] * max(f["count"], 1), L["align"]
    if k == "bitsEx":
        L = layout(f["ty"], env, ps)
        return L["size"], L["align"]
    raise VarLen(k)


def layout(name, env, ps):
    d = env[name]
    ms = [member(f, env, ps) for f in d["fields"]]
    if d.get("packed"):
        ms = [(s, 1) for (s, a) in ms]
    al = max([a for (s, a) in ms] + [1])
    if d["kind"] == "union":
        return {"size": up(max(s for s, a in ms), al), "align": al, "offs": [0] * len(ms), "sizes": [s for s, a in ms]}
    offs, e = [], 0
    for s, a in ms:
        o = up(e, a)
        offs.append(o)
        e = o + s
    return {"size": up(e, al), "align": al, "offs": offs, "sizes": [s for s, a in ms]}


def is_fixed(name, env):
    try:
        layout(name, env, 8)
        return True
    except VarLen:
        return False


def align_of_field(f, env, ps):
    k = f["k"]
    if k in ("raw", "bits", "var", "cnt", "bound"):
        return c_size(f["t"], ps)
    if k == "leb":
        return 1
    d = env[f["ty"]]
    if d.get("packed"):
        return 1
    return max(align_of_field(g, env, ps) for g in d["fields"])


# ---------------------------------------------------------------------------------------
# scalar codecs through python struct
# ---------------------------------------------------------------------------------------

def std_letter(t, ps):
    """the standard-size struct letter for C type letter t under the data model"""
    if t in "lLP":
        n = ptr(ps)
        if t == "l":
            return "i" if n == 4 else "q"
        return "I" if n == 4 else "Q"
    return t


def dec_scalar(t, order, ps, bs):
    if t in "cs":
        return {"b": bs.hex()}
    if t in "fd":
        w = int.from_bytes(bs, "big" if order == ">" else "little")
        if t == "f" and (w >> 23) & 0xff == 0xff and (w & 0x7fffff) != 0 and not (w >> 22) & 1:
            raise CPythonFloat()
        return w
    return struct.unpack(order + std_letter(t, ps), bs)[0]


def take(data, pos, n):
    if pos + n > len(data) or pos < 0:
        raise Short()
    return data[pos:pos + n]


def covered_mask(order, size, nbits):
    v = (1 << nbits) - 1
    v &= (1 << (8 * size)) - 1
    return v.to_bytes(size, "big" if order == ">" else "little")


def typedef_scalar(name, env):
    """the (letter, order) of the integer scalar a typedef chain ends in, or None"""
    d = env[name]
    if d["kind"] != "typedef":
        return None
    f = d["fields"][0]
    if f["k"] == "raw" and f["count"] == 0 and f["t"] in INT_LETTERS:
        return f["t"], f.get("order") or d.get("order") or "<"
    if f["k"] == "nest" and f["count"] == 0:
        return typedef_scalar(f["ty"], env)
    return None


# ---------------------------------------------------------------------------------------
# decode: expected value / length / mask
# ---------------------------------------------------------------------------------------

def order_of(f, d):
    return f.get("order") or d.get("order") or "<"


def dec_field(f, d, env, ps, data, pos, ns):
    """returns (value, size, mask) of member f located at pos"""
    k = f["k"]
    o = order_of(f, d)
    if k == "raw":
        t = f["t"]
        if t == "x":
            raise NotJudged("x")
        s = c_size(t, ps)
        n = max(f["count"], 1)
        bs = take(data, pos, s * n)
        if t in "cs":
            return {"b": bs.hex()}, s * n, b"\xff" * (s * n)
        if f["count"] == 0:
            return dec_scalar(t, o, ps, bs), s, b"\xff" * s
        return [dec_scalar(t, o, ps, bs[i * s:(i + 1) * s]) for i in range(n)], s * n, b"\xff" * (s * n)
    if k in ("bits", "bitsEx"):
        if k == "bits":
            t, s = f["t"], c_size(f["t"], ps)
            if t not in INT_LETTERS:
                raise NotJudged("bit-field over " + t)
        else:
            sc = typedef_scalar(f["ty"], env)
            if sc is None:
                raise NotJudged("bit-field over a non-integer typedef")
            t, o = sc
            s = c_size(t, ps)
        if sum(sz for _, sz in f["subs"]) > 8 * s:
            raise NotJudged("bit-field group wider than its storage unit")
        u = int.from_bytes(take(data, pos, s), "big" if o == ">" else "little")
        out, l = {}, 0
        for nm, sz in f["subs"]:
            out[nm] = (u >> l) & ((1 << sz) - 1)
            l += sz
        return {"d": out}, s, covered_mask(o, s, l)
    if k == "nest":
        td = env[f["ty"]]
        if f["count"] == 0:
            return dec_def(f["ty"], env, ps, data, pos)
        vals, tot, mask = [], 0, b""
        for _ in range(f["count"]):
            v, n, m = dec_def(f["ty"], env, ps, data, pos + tot)
            vals.append(v); tot += n; mask += m
        return vals, tot, mask
    if k == "var":
        t = f["t"]
        s = c_size(t, ps)
        els = []
        p = pos
        while True:
            e = take(data, p, s)
            els.append(e)
            p += s
            if e == b"\0" * s:
                break
        n = len(els) * s
        if t in "cs":
            return {"b": b"".join(els).hex()}, n, b"\xff" * n
        return [dec_scalar(t, o, ps, e) for e in els], n, b"\xff" * n
    if k == "cnt":
        t, ct = f["t"], f["ct"]
        cs = struct.calcsize("<" + ct)
        cnt = struct.unpack(o + ct, take(data, pos, cs))[0]
        if cnt < 0:
            raise Short()
        s = c_size(t, ps)
        body = take(data, pos + cs, s * cnt)
        n = cs + s * cnt
        if t in "cs":
            return {"b": body.hex()}, n, b"\xff" * n
        if cnt == 0:
            return None, n, b"\xff" * n
        return [dec_scalar(t, o, ps, body[i * s:(i + 1) * s]) for i in range(cnt)], n, b"\xff" * n
    if k == "bound":
        t = f["t"]
        cnt = ns.get(f["ref"])
        if not isinstance(cnt, int) or cnt < 0:
            raise Short()
        if cnt == 0:
            return None, 0, b""
        s = c_size(t, ps)
        body = take(data, pos, s * cnt)
        n = s * cnt
        if t == "s":
            return {"b": body.hex()}, n, b"\xff" * n
        if t == "c":
            return [{"b": body[i:i + 1].hex()} for i in range(cnt)], n, b"\xff" * n
        return [dec_scalar(t, o, ps, body[i * s:(i + 1) * s]) for i in range(cnt)], n, b"\xff" * n
    if k == "leb":
        res, shift, p = 0, 0, pos
        while True:
            b = take(data, p, 1)[0]
            p += 1
            res |= (b & 0x7f) << shift
            shift += 7
            if not b & 0x80:
                break
        if f["signed"] and (b & 0x40):
            res -= 1 << shift
        return res, p - pos, b"\xff" * (p - pos)
    raise NotJudged(k)


def store(f, v, ns):
    if f["k"] in ("bits", "bitsEx"):
        ns.update(v["d"])
    else:
        ns[f["name"]] = v


def dec_def(name, env, ps, data, base):
    """(value, length, mask) of definition `name` located at `base`"""
    d = env[name]
    fixed = is_fixed(name, env)
    if d["kind"] == "typedef":
        f = d["fields"][0]
        v, n, m = dec_field(f, d, env, ps, data, base, {})
        if isinstance(v, dict) and "d" in v:
            raise NotJudged("typedef of bit-field")
        L = layout(name, env, ps)
        return v, L["size"], m + b"\0" * (L["size"] - n)
    packed = bool(d.get("packed"))
    ns = {}
    if fixed:
        L = layout(name, env, ps)
        mask = bytearray(L["size"])
        best = None
        for f, o in zip(d["fields"], L["offs"]):
            v, n, m = dec_field(f, d, env, ps, data, base + o, ns)
            store(f, v, ns)
            if d["kind"] == "union":
                if best is None or len(m) > len(best):
                    best = m
            else:
                mask[o:o + n] = m
        if d["kind"] == "union":
            mask[0:len(best)] = best
        return {"i": ns, "len": L["size"]}, L["size"], bytes(mask)
    if d["kind"] == "union":
        raise NotJudged("union with variable-length member")
    # variable length: members follow each other, each aligned (unless packed) relative to the start
    rel, mask, al = 0, b"", 1
    for f in d["fields"]:
        a = 1 if packed else align_of_field(f, env, ps)
        al = max(al, a)
        o = up(rel, a)
        mask += b"\0" * (o - rel)
        v, n, m = dec_field(f, d, env, ps, data, base + o, ns)
        store(f, v, ns)
        mask += m
        rel = o + n
    tot = rel if packed else up(rel, al)
    mask += b"\0" * (tot - rel)
    return {"i": ns, "len": tot}, tot, mask


def decode(name, env, ps, data, base=0):
    return dec_def(name, env, ps, data, base)


def canon(mask, data, base):
    out = bytearray(len(mask))
    for i, m in enumerate(mask):
        b = data[base + i] if base + i < len(data) else 0
        out[i] = m & b
    return bytes(out)


# ---------------------------------------------------------------------------------------
# synthesis of valid instances
# ---------------------------------------------------------------------------------------

def rnd_scalar(t, ps, r, small=False):
    s = c_size(t, ps)
    if small:
        return r.choice([0, 0, 1, 2, 3, 5]).to_bytes(s, "little")
    if t == "f":
        while True:
            bs = bytes(r.getrandbits(8) for _ in range(4))
            w = int.from_bytes(bs, "little")
            # no signalling NaN in either byte order (CPython quiets it in the float<->double conversion)
            ok = True
            for x in (w, int.from_bytes(bs, "big")):
                if (x >> 23) & 0xff == 0xff and (x & 0x7fffff) != 0 and not (x >> 22) & 1:
                    ok = False
            if ok:
                return bs
    c = r.random()
    if c < 0.15:
        return bytes([r.choice([0, 0xff, 0x80, 0x7f])] * s)
    if c < 0.27:
        # a single non-zero byte (zero low byte, zero high byte, ...)
        out = bytearray(s)
        out[r.randrange(s)] = r.choice([1, 0x80, 0xff, r.randrange(1, 256)])
        return bytes(out)
    if c < 0.35:
        out = bytearray(r.getrandbits(8) for _ in range(s))
        out[r.randrange(s)] = 0
        return bytes(out)
    return bytes(r.getrandbits(8) for _ in range(s))


def refs_of(d):
    return {f["ref"] for f in d["fields"] if f["k"] == "bound"}


def synth_field(f, d, env, ps, r, ns_small):
    k = f["k"]
    o = order_of(f, d)
    if k == "raw":
        s = c_size(f["t"], ps)
        n = max(f["count"], 1)
        small = f.get("name") in ns_small
        out = b""
        for _ in range(n):
            b = rnd_scalar(f["t"], ps, r, small)
            if small and o == ">":
                b = b[::-1]
            out += b
        return out
    if k == "bits":
        return rnd_scalar(f["t"], ps, r)
    if k == "bitsEx" or k == "nest":
        n = max(f.get("count", 0), 1)
        return b"".join(synth(f["ty"], env, ps, r) for _ in range(n))
    if k == "var":
        s = c_size(f["t"], ps)
        n = r.choice([0, 0, 1, 2, 3, 5])
        out = b""
        sparse = r.random() < 0.5
        for _ in range(n):
            e = rnd_scalar(f["t"], ps, r)
            if sparse and s > 1:
                # elements with zero bytes inside: runs of `s` null bytes that straddle two elements are
                # not a terminator (the terminator is a null ELEMENT)
                e = bytes(0 if r.random() < 0.5 else r.randrange(1, 256) for _ in range(s))
            if e == b"\0" * s:
                e = b"\x01" * s
            out += e
        return out + b"\0" * s
    if k == "cnt":
        s = c_size(f["t"], ps)
        n = r.choice([0, 0, 1, 2, 3, 5])
        return struct.pack(o + f["ct"], n) + bytes(r.getrandbits(8) for _ in range(s * n))
    if k == "bound":
        return None     # needs the decoded count: handled by synth()
    if k == "leb":
        c = r.random()
        if f["signed"]:
            v = r.choice([0, 1, -1, 63, 64, -64, -65, 127, 128, -128, -129]) if c < 0.4 else r.randint(-(1 << r.randrange(1, 70)), 1 << r.randrange(1, 70))
        else:
            v = r.choice([0, 1, 63, 64, 127, 128, 255, 16383, 16384]) if c < 0.4 else r.getrandbits(r.randrange(1, 70))
        small = f.get("name") in ns_small
        if small:
            v = r.choice([0, 0, 1, 2, 3, 5])
        enc = leb_write(v, f["signed"])
        if r.random() < 0.08:
            # a non-canonical (padded) encoding of the same value: readers accept it, writers never produce it
            enc = enc[:-1] + bytes([enc[-1] | 0x80]) + (b"\x7f" if (f["signed"] and v < 0) else b"\x00")
        return enc
    raise NotJudged(k)


def leb_write(v, signed):
    out = bytearray()
    if not signed:
        if v < 0:
            raise NotJudged("negative uleb")
        while True:
            x = v & 0x7f
            v >>= 7
            if v:
                out.append(x | 0x80)
            else:
                out.append(x)
                return bytes(out)
    while True:
        x = v & 0x7f
        v >>= 7
        if (v == 0 and not x & 0x40) or (v == -1 and x & 0x40):
            out.append(x)
            return bytes(out)
        out.append(x | 0x80)


def synth(name, env, ps, r):
    """bytes of a valid instance of `name` (random field values, random padding bytes)"""
    d = env[name]
    packed = bool(d.get("packed"))
    if d["kind"] == "typedef":
        f = d["fields"][0]
        b = synth_field(f, d, env, ps, r, set())
        L = layout(name, env, ps)
        return b + bytes(r.getrandbits(8) for _ in range(L["size"] - len(b)))
    if d["kind"] == "union":
        L = layout(name, env, ps)
        out = bytearray(r.getrandbits(8) for _ in range(L["size"]))
        # make one member (random choice) well-formed, e.g. nested aggregates
        i = r.randrange(len(d["fields"]))
        b = synth_field(d["fields"][i], d, env, ps, r, set())
        out[0:len(b)] = b
        return bytes(out)
    small = refs_of(d)
    out = b""
    ns = {}
    al = 1
    for f in d["fields"]:
        a = 1 if packed else align_of_field(f, env, ps)
        al = max(al, a)
        o = up(len(out), a)
        out += bytes(r.getrandbits(8) for _ in range(o - len(out)))
        if f["k"] == "bound":
            cnt = ns.get(f["ref"])
            if not isinstance(cnt, int) or cnt < 0 or cnt > 64:
                cnt = 0
            b = bytes(r.getrandbits(8) for _ in range(c_size(f["t"], ps) * cnt))
        else:
            b = synth_field(f, d, env, ps, r, small)
        # decode what we just produced so that bound counts are known
        try:
            v, n, m = dec_field(f, d, env, ps, out + b, len(out), ns)
            store(f, v, ns)
        except (NotJudged, Short):
            pass
        out += b
    if not packed:
        e = up(len(out), al)
        out += bytes(r.getrandbits(8) for _ in range(e - len(out)))
    return out


# ---------------------------------------------------------------------------------------
# C source for gcc
# ---------------------------------------------------------------------------------------

def c_decl(name, env, emitted, out):
    """emit C declarations for `name` and what it needs; returns the C type expression"""
    d = env[name]
    if name in emitted:
        return emitted[name]
    lines = []
    hasbits = any(f["k"] in ("bits", "bitsEx") for f in d["fields"])
    if d["kind"] == "typedef":
        f = d["fields"][0]
        if f["k"] == "raw":
            base = CTYPE[f["t"]]
        elif f["k"] == "nest":
            base = c_decl(f["ty"], env, emitted, out)
        else:
            raise NotJudged("typedef of " + f["k"])
        n = f["count"]
        if base.endswith("*"):
            out.append("typedef %s%s%s;" % (base, name, "[%d]" % n if n else ""))
        else:
            out.append("typedef %s %s%s;" % (base, name, "[%d]" % n if n else ""))
        emitted[name] = name
        return name
    kw = "union" if d["kind"] == "union" else "struct"
    attrs = []
    if d.get("packed"):
        attrs.append("packed")
    if hasbits and not d.get("packed"):
        attrs.append("ms_struct")
    members = []
    prevbits = False
    for i, f in enumerate(d["fields"]):
        k = f["k"]
        if k == "raw":
            t = CTYPE[f["t"]]
            n = f["count"]
            members.append("%s m%d%s;" % (t, i, "[%d]" % n if n else ""))
            prevbits = False
        elif k in ("bits", "bitsEx"):
            if d.get("packed"):
                # under `packed` gcc packs bit-fields bitwise; the unit reading is a plain scalar
                t = CTYPE[f["t"]] if k == "bits" else c_decl(f["ty"], env, emitted, out)
                members.append("%s m%d;" % (t, i))
            else:
                if k == "bits":
                    t = CTYPE[f["t"]]
                else:
                    t = c_decl(f["ty"], env, emitted, out)
                if prevbits:
                    members.append("%s :0;" % t)
                for j, (nm, sz) in enumerate(f["subs"]):
                    members.append("%s m%d_%d:%d;" % (t, i, j, sz))
                # the member that names the unit for offsetof: none (bit-fields have no address);
                # the offsets of the following members and sizeof pin the unit
                prevbits = True
        elif k == "nest":
            t = c_decl(f["ty"], env, emitted, out)
            n = f["count"]
            members.append("%s m%d%s;" % (t, i, "[%d]" % n if n else ""))
            prevbits = False
        else:
            raise VarLen(k)
    a = (" __attribute__((%s))" % ",".join(attrs)) if attrs else ""
    out.append("%s%s %s { %s };" % (kw, a, name, " ".join(members)))
    emitted[name] = "%s %s" % (kw, name)
    return emitted[name]


def c_table(names, env):
    """C source whose .rodata `table` holds, per definition: sizeof, _Alignof, then offsetof of each
    addressable member; returns (source, index) where index[name] = list of member positions
    (None for bit-field groups)"""
    out, emitted, entries, index = [], {}, [], {}
    for name in names:
        t = c_decl(name, env, emitted, out)
        d = env[name]
        entries.append("sizeof(%s)" % t)
        entries.append("_Alignof(%s)" % t)
        mem = []
        if d["kind"] != "typedef":
            for i, f in enumerate(d["fields"]):
                if f["k"] in ("bits", "bitsEx") and not d.get("packed"):
                    mem.append(None)
                else:
                    mem.append(i)
                    entries.append("__builtin_offsetof(%s, m%d)" % (t, i))
        index[name] = mem
    src = "\n".join(out) + "\nconst unsigned long long table[] = {\n" + ",\n".join(entries) + "\n};\n"
    return src, index
