"""
C01 — Expression algebra preserves bit-vector meaning.   ./check C01 [--tier quick|thorough]

Theorems: lean/Amoco/Props/C01.lean (per-rule soundness lemmas, constant folding, evaluation) about the model
Amoco.Model.{Expr,Render,Simplify,Eval}; tie and oracle: harness/expr_check.py.
"""
import sys
import expr_check

if __name__ == "__main__":
    sys.exit(expr_check.run_check("C01", sys.argv[1] if len(sys.argv) > 1 else "quick"))
