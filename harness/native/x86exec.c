/*
 * x86exec.c — native execution oracle for C06 (x86-64 user-mode integer instructions).
 *
 * Protocol (binary, little-endian, over stdin/stdout), one request → one reply:
 *   request : u64 regs[16] (rax rcx rdx rbx rsp rbp rsi rdi r8..r15), u64 rflags, u32 codelen, u8 code[16],
 *             u8 mem[WIN]            (initial content of the scratch window at WIN_ADDR)
 *   reply   : u32 status (0 ok, else signal number), u64 regs[16], u64 rflags, u8 mem[WIN]
 * The instruction bytes are copied to a fixed code page (CODE_ADDR) followed by an absolute jump to the
 * exit trampoline; all 16 guest registers and the status flags are loaded before and stored after.
 * Faults (SIGSEGV/SIGILL/SIGFPE/SIGBUS/SIGTRAP) are caught on an alternate stack and reported.
 *
 * build: gcc -O1 -o x86exec x86exec.c
 */
#define _GNU_SOURCE
#include <stdio.h>
#include <stdlib.h>
#include <string.h>
#include <stdint.h>
#include <signal.h>
#include <setjmp.h>
#include <unistd.h>
#include <sys/mman.h>

#define WIN_ADDR  0x20000000UL
#define WIN       4096
#define CODE_ADDR 0x1FFF0000UL

/* frames used by the trampolines (rip-relative) */
uint64_t host_rsp;
uint64_t guest_rsp;
uint64_t code_ptr;
uint64_t out_rsp;
uint64_t guest_frame[16];          /* rflags, rax rcx rdx rbx rbp rsi rdi r8..r15 */
uint64_t out_frame[17];            /* filled by pushes: [0]=rax … [14]=r15, [15]=rflags; [16] = end */

void tramp_enter(void);
void tramp_exit(void);

__asm__(
".text\n"
".globl tramp_enter\n"
"tramp_enter:\n"
"  push %rbx\n push %rbp\n push %r12\n push %r13\n push %r14\n push %r15\n"
"  mov %rsp, host_rsp(%rip)\n"
"  lea guest_frame(%rip), %rsp\n"
"  popfq\n"
"  pop %rax\n pop %rcx\n pop %rdx\n pop %rbx\n pop %rbp\n pop %rsi\n pop %rdi\n"
"  pop %r8\n pop %r9\n pop %r10\n pop %r11\n pop %r12\n pop %r13\n pop %r14\n pop %r15\n"
"  mov guest_rsp(%rip), %rsp\n"
"  jmp *code_ptr(%rip)\n"
".globl tramp_exit\n"
"tramp_exit:\n"
"  mov %rsp, out_rsp(%rip)\n"
"  lea out_frame+128(%rip), %rsp\n"
"  pushfq\n"
"  push %r15\n push %r14\n push %r13\n push %r12\n push %r11\n push %r10\n push %r9\n push %r8\n"
"  push %rdi\n push %rsi\n push %rbp\n push %rbx\n push %rdx\n push %rcx\n push %rax\n"
"  cld\n"
"  mov host_rsp(%rip), %rsp\n"
"  pop %r15\n pop %r14\n pop %r13\n pop %r12\n pop %rbp\n pop %rbx\n"
"  ret\n"
);

static sigjmp_buf jb;
static volatile int in_guest = 0;

static void on_signal(int sig) {
    if (in_guest) siglongjmp(jb, sig);
    _exit(100 + sig);
}

static int read_all(void *p, size_t n) {
    unsigned char *c = p;
    while (n) { ssize_t k = read(0, c, n); if (k <= 0) return 0; c += k; n -= k; }
    return 1;
}
static void write_all(const void *p, size_t n) {
    const unsigned char *c = p;
    while (n) { ssize_t k = write(1, c, n); if (k <= 0) _exit(3); c += k; n -= k; }
}

struct request { uint64_t regs[16]; uint64_t rflags; uint32_t codelen; uint8_t code[16]; uint8_t mem[WIN]; } __attribute__((packed));
struct reply   { uint32_t status; uint64_t regs[16]; uint64_t rflags; uint8_t mem[WIN]; } __attribute__((packed));

int main(void) {
    uint8_t *win = mmap((void *)WIN_ADDR, WIN, PROT_READ | PROT_WRITE, MAP_PRIVATE | MAP_ANONYMOUS | MAP_FIXED, -1, 0);
    uint8_t *code = mmap((void *)CODE_ADDR, 4096, PROT_READ | PROT_WRITE | PROT_EXEC, MAP_PRIVATE | MAP_ANONYMOUS | MAP_FIXED, -1, 0);
    if (win == MAP_FAILED || code == MAP_FAILED) return 2;
    static uint8_t altstack[1 << 16];
    stack_t ss = { .ss_sp = altstack, .ss_size = sizeof altstack, .ss_flags = 0 };
    sigaltstack(&ss, 0);
    struct sigaction sa; memset(&sa, 0, sizeof sa);
    sa.sa_handler = on_signal; sa.sa_flags = SA_ONSTACK | SA_NODEFER;
    int sigs[] = { SIGSEGV, SIGILL, SIGFPE, SIGBUS, SIGTRAP };
    for (unsigned i = 0; i < sizeof sigs / sizeof *sigs; i++) sigaction(sigs[i], &sa, 0);

    static struct request rq; static struct reply rp;
    while (read_all(&rq, sizeof rq)) {
        memcpy(win, rq.mem, WIN);
        unsigned n = rq.codelen > 15 ? 15 : rq.codelen;
        memcpy(code, rq.code, n);
        /* jmp *0(%rip) ; .quad tramp_exit */
        code[n] = 0xFF; code[n + 1] = 0x25; memset(code + n + 2, 0, 4);
        uint64_t ex = (uint64_t)tramp_exit; memcpy(code + n + 6, &ex, 8);
        code_ptr = CODE_ADDR;
        /* only status flags + DF are taken from the request; bit 1 is always set */
        guest_frame[0] = (rq.rflags & 0xCD5) | 0x202;
        static const int order[15] = { 0, 1, 2, 3, 5, 6, 7, 8, 9, 10, 11, 12, 13, 14, 15 };
        for (int i = 0; i < 15; i++) guest_frame[1 + i] = rq.regs[order[i]];
        guest_rsp = rq.regs[4];
        memset(&rp, 0, sizeof rp);
        int sig = sigsetjmp(jb, 1);
        if (sig == 0) {
            in_guest = 1;
            tramp_enter();
            in_guest = 0;
            rp.status = 0;
            for (int i = 0; i < 15; i++) rp.regs[order[i]] = out_frame[i];
            rp.regs[4] = out_rsp;
            rp.rflags = out_frame[15];
        } else {
            in_guest = 0;
            __asm__ volatile("cld");
            rp.status = (uint32_t)sig;
        }
        memcpy(rp.mem, win, WIN);
        write_all(&rp, sizeof rp);
    }
    return 0;
}
