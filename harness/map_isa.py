"""
map_isa.py — ISA-level, model-independent oracle of property C02
("Symbolic block map agrees with step-by-step concrete execution").

For every ISA module of isa.CPU_MODULES that imports and has semantics, for the four settings of
(conf.Cas.noaliasing, conf.Cas.memtrace), for spec-directed instruction sequences of length 1..8 and
a couple of fully concrete start states (all registers constant, two windows of raw bytes in memory):

  route A ("symbolic once"):  m = mapper(); for i in instrs: i(m);   A = concrete >> m
  route B ("step by step"):   B = the same concrete state, built again;  for i in instrs: i(B)

and the final value of every register and of every memory byte is compared.  Only "both routes give a
constant and the constants differ" is a violation; a value that stays symbolic on route A is accepted
(counted), an exception on either route is counted per class and the case is dropped (C01/C17 business).
Failing sequences are shrunk and reported with a narrow signature
      C02:<isa>:<mnemonics of the shrunk sequence joined by +>:<reg|flags|pc|mem>[:<setting suffix>]
(suffix = the settings under which the shrunk case differs, none when it differs under all four), except:
  * one defect of the mapper itself that every storing instruction of every ISA shows — with noaliasing=True
    and memtrace=False a store is kept in the map's own memory only and `state >> map` loses it — gets the
    single signature `C02:noaliasing=True,memtrace=False:stores-not-composed`, after the mechanism has been
    verified on the shrunk case (differs under that setting only, bytes keep their start value on route A);
  * differences caused by the hidden signedness flag `sf` of constants get
    `C02:<isa>:<mnemonic>:<class>:signedness-flag-carried-between-steps`, where <mnemonic> is the last
    instruction of the shrunk sequence that changes the differing location on route B.  Mechanism check:
    the shrunk case is re-run (both routes) in a world where the flag cannot matter — `cst.value` patched
    for the duration of the check to read every constant as unsigned, then as two's complement — and the
    difference must disappear in one of the two worlds.  (Why not "neutralise sf in route B between the
    steps": that never changes route B.  The state map already drops the flag when a value is stored and
    read back — `r[pos:pos+size] = v`, then `r[0:size]` — it is the evaluated block expression of route A
    that carries the flag of an intermediate constant (`cst(v<0)` sets it) across what were step boundaries,
    and inside one instruction both routes build the constants themselves.)
    This family gets ONE signature, `C02:signedness-flag-carried-between-steps` (FAMILY_SCOPE): the flag
    lives in cas/expressions.py, any ISA whose semantics compare, multiply, divide or shift shows it.
  * `C02:<isa>:semantics-depend-on-the-map-built-so-far` (one per ISA): the shrunk sequence X…;Y differs, but
    route A taken in two blocks — (state >> map(X…)) >> map(Y), map(Y) built on an empty mapper — agrees
    with step by step (split_agrees).  So Y's semantics are right on an empty map and wrong on top of the
    symbolic map of X…: an operand evaluated twice (fmap(fmap(x)); addr = fmap(a) then fmap[mem(addr)],
    which mapper.__setitem__ evaluates again) after X… changed a register it mentions, or — mips — the
    store's address evaluated again after the pending delayed load has landed.  Y is in the case ("culprit").
  * armv7: `C02:armv7:<write to pc>:interworking-decided-only-when-pc-is-constant` when bit 0 of pc is the
    difference or the two routes leave `internals["isetstate"]` different (__check_state decides in Python).
  * attribution of multi-instruction shrunk sequences to simpler findings: the prefix (without the last
    instruction) already differs in another class -> the prefix's own finding (`mulscc+st:mem` is
    `mulscc:reg` seen through memory); the last instruction alone differs from another start state, or has
    a single-instruction finding in this run -> that finding; the routes agree after the prefix and none
    of the mechanism checks applies -> `C02:<isa>:<last mnemonic>:<class>` (the last instruction alone,
    from the concrete state the others produce).
  * a directed phase (1b) pairs every mnemonic Y with an instruction X that writes, from its own old value,
    a register Y reads, so that the members of the second family are found whatever the seed; phase 1 runs
    every mnemonic alone from all three states.
Scope: with noaliasing=True the property is limited to states in which distinct symbolic pointers do not
overlap; a difference found under noaliasing=True is dropped (and counted) when two accesses of the map
(one of them a store) with different symbolic bases overlap in the concrete state.

Dependency-dense sequences (phase 1c, first claim on the budget): every mnemonic with semantics is the LAST
instruction of a sequence whose first instructions copy a register b into each operand register a of that
instruction (plain moves preferred, so that memory operands stay in the scratch windows) and then overwrite b
(by a move from a register not involved, else a small constant), so that b means two things in the block:
semantics that push an operand through the map twice (`src = fmap(op); ... fmap(f(src))`) or evaluate it in
the wrong map only go wrong on such blocks.  quick: rounds over all mnemonics in a seeded order until 70% of
the ISA's slice is used; thorough: every spec, three rounds.  The re-evaluation family is signed per ISA *and
mnemonic* (`C02:<isa>:<mnemonic>:semantics-depend-on-the-map-built-so-far`).

Width boundaries (phase 1d, own part of the budget, runs first): the three ordinary states hold small positive
values (bit 31 of a register is never set, shift counts are whatever the random bytes give).  For every spec of a
mnemonic whose semantics or decoded operands hold a shift / rotate operator: a sample without memory operand, its
immediate positions (found by decoding: a named field of the spec or a byte after its fixed part whose change keeps
mnemonic, length, kinds and registers of the operands and changes their text), each immediate set to 0, 1, w-1, w,
w+1, 31, all-ones for the widths w of the operands (immediates that feed a shift count first), the same behind every
prefix that changes the operand widths (x86 0x66), the register-count forms as sampled, and short chains of these
instructions — all from the boundary states BOUNDARY_SIDS (sign bit of every 8/16/32/64-bit sub-width set; all-ones;
four mixed states with shift counts, only-the-top-bit, largest positive, 0, 1 in neighbouring registers).
The mechanism check of the signedness-flag family additionally requires that the world in which the difference
disappears leaves the value of step-by-step execution unchanged (reading constants as unsigned turns an arithmetic
shift of a constant into a logical one on route B: such an agreement explains nothing).

Nothing here depends on the Lean model: the only things trusted are amoco's own public API
(mapper.__setitem__/__getitem__, `>>`, MemoryMap.write/read) used to build/read concrete states.

Precautions against false alarms
  * states are rebuilt from scratch for each route (no deepcopy), instructions are decoded again for each
    route, routes run in a fixed order (per state: A = map + composition, then B);
  * at the start of every route (before its decode, never in the middle of a route) the process-global
    expression objects of the ISA (registers, slices …: their `sf`/`size`, mutated by some decoders and
    semantics — a C10 defect) and the `internals` dictionaries (arm isetstate/itstate/endianstate, x86
    mode …) are put back to their import-time values: each route behaves as in a fresh process;
  * every instruction gets `i.address` (consecutive from 0x1000, the value of the pc register in the state);
  * pending delayed register writes (mips load delay: mapper.delayed) are flushed with update_delayed()
    at the end of both routes;
  * values are compared by `.v` masked to the size, never by str;
  * when either final memory holds stores at symbolic addresses (zones other than the concrete one) the
    memory comparison is skipped for that case (aliasing is then outside what the raw zone can tell);
  * memory never mapped on route A ("bottom") versus a constant on route B is counted, not flagged;
  * the address-space limit of the process is lowered during the run (amoco computes `cst << n` on
    Python integers: a shift by a loaded 2^33 would allocate gigabytes) and restored afterwards; such
    cases end as MemoryError = an exception on a route = dropped.
"""
import sys, os, time, signal
from common import *
import isa, c10
from amoco.config import conf
from amoco.cas import expressions as _E
from amoco.cas.expressions import exp, cst, reg, regtype, locations_of
from amoco.cas.mapper import mapper
from amoco.arch import core as acore

BROKEN = "C02 uniformity of ISA semantics / block map vs step-by-step"
STORE_LOST_SIG = "C02:noaliasing=True,memtrace=False:stores-not-composed"    # one for all ISAs (see the module docstring)
SF_SUFFIX = "signedness-flag-carried-between-steps"
REEVAL_SUFFIX = "semantics-depend-on-the-map-built-so-far"
# Scope of the signatures of the two families that are recognised by a mechanism check (the check is what
# keeps them narrow).  The signedness-flag family is a defect of the expression layer, not of an instruction:
# any semantics that compares, multiplies, divides or shifts shows it when an intermediate value has its top
# bit set; the second family is recognised by what split_agrees() verifies — the same last instruction gives the
# right result when its map is built on an empty mapper and composed after the prefix's map, the wrong one when
# it is built on top of the prefix's symbolic map — mostly one coding pattern (fmap(fmap(x)), fmap[mem(fmap(a))]:
# an operand evaluated twice) repeated in the functions of an ISA's asm.py, sometimes a wrong simplification
# of the symbolic expression (x86 Jcc after OR: `sf != bit0` becomes `~sf`, the C01 defect).  The sets of mnemonics and classes met keep growing with the seeds, so the
# default is one signature per ISA; the mnemonic that computed the differing value is in the case ("culprit").
#   "global": C02:<suffix>     "isa": C02:<isa>:<suffix>     "isa+class": C02:<isa>:<class>:<suffix>
#   "isa+mnemonic": C02:<isa>:<culprit mnemonic>:<suffix>
#   "isa+mnemonic+class": C02:<isa>:<culprit mnemonic>:<class>:<suffix>
# The signedness flag lives in cas/expressions.py, whatever the ISA (like the store-lost defect lives in the
# mapper): one global signature.  The re-evaluation pattern lives in the individual i_MNEMONIC functions of each
# ISA's asm.py: one signature per ISA and mnemonic, so that a further function with that behaviour is reported
# (the dependency-dense phase below reaches every mnemonic, which keeps the list stable across seeds).
FAMILY_SCOPE = {"signedness-flag-carried-between-steps": "global",
                "semantics-depend-on-the-map-built-so-far": "isa+mnemonic"}
ARMV7_PC_SIG = "C02:armv7:<write to pc>:interworking-decided-only-when-pc-is-constant"
# The memory model has no address width (DESIGN.md, C06): an access whose bytes straddle the top of a 16-bit
# address space reads / writes the bytes at 2^16.. when it is made in one piece and those at 0.. when its upper
# bytes are addressed separately (`M16(r8)` vs the sign byte `M8(r8+1)` with r8 = 0xffff).  Recognised by a
# mechanism check — the difference disappears when the memory image of the concrete state ends where the
# address space ends (nothing to read beyond it) — and only then; one signature per ISA.  The theorems exclude
# these states by hypothesis (Access.noWrap).
WRAP_SUFFIX = "access-wraps-address-space"


def family_signature(isa_name, mnemonic, cls, suffix):
    scope = FAMILY_SCOPE.get(suffix, "isa")
    if scope == "global":
        return "C02:%s" % suffix
    if scope == "isa":
        return "C02:%s:%s" % (isa_name, suffix)
    if scope == "isa+class":
        return "C02:%s:%s:%s" % (isa_name, cls, suffix)
    if scope == "isa+mnemonic":
        return "C02:%s:%s:%s" % (isa_name, mnemonic, suffix)
    return "C02:%s:%s:%s:%s" % (isa_name, mnemonic, cls, suffix)


SETTINGS = [(True, True), (True, False), (False, True), (False, False)]     # (noaliasing, memtrace)
LOW_N = 0x20000          # window 1: addresses [0, LOW_N)
HIGH_N = 0x10000         # window 2: the top HIGH_N bytes of the address space (negative displacements)
BASE_ADDR = 0x1000       # address of the first instruction = value of the pc register
NSTATES = 3
UNMAPPED = -1


# Boundary states (phase 1d), ids NSTATES.. : register values drawn from boundary classes per operand width.
#   3: the sign bit of every 8/16/32/64-bit sub-width set (each byte 0x80 | something), neither 0 nor all-ones
#   4: all-ones
#   5..8: mixed, a different class for neighbouring registers (so that the operand of a register-count shift and
#         its count fall into different classes): sign pattern / a shift count from COUNT_CLASSES / one of
#         {only the top bit, largest positive, 0x80, 0x8000, 0x80000000, 0, 1, 0x7f} / all-ones
# The value is a function of (size, state id, index of the register) only: a replay needs nothing else.
BOUNDARY_SIDS = [3, 4, 5, 6, 7, 8]
COUNT_CLASSES = [0, 1, 7, 8, 9, 15, 16, 17, 31, 32, 33, 63, 64, 65]


def boundary_value(size, sid, j):
    mask = (1 << size) - 1
    nb = (size + 7) // 8
    signpat = sum((0x80 | ((j * 5 + 3 * k + 1) & 0x7F)) << (8 * k) for k in range(nb)) & mask
    if sid == 3:
        return signpat
    if sid == 4:
        return mask
    c = (j + sid) % 4
    if c == 0:
        return signpat
    if c == 1:
        return COUNT_CLASSES[(j // 4 + 3 * sid) % len(COUNT_CLASSES)] & mask
    if c == 2:
        return [1 << (size - 1), (1 << (size - 1)) - 1, 0x80, 0x8000, 0x80000000, 0, 1, 0x7F][(j // 4 + sid) % 8] & mask
    return mask


def immediate_classes(widths, nbits):
    """boundary values of an immediate of nbits bits next to operands of the given widths: 0, 1, width-1, width,
    width+1 for each width, 31 (and 63 when a 64-bit operand is there), all-ones of the field"""
    vals = [0, 1]
    for w in sorted(widths):
        vals += [w - 1, w, w + 1]
    vals += [31, (1 << nbits) - 1]
    if any(w >= 64 for w in widths):
        vals.append(63)
    out = []
    for v in vals:
        v &= (1 << nbits) - 1
        if v not in out:
            out.append(v)
    return out


SHIFT_OPS = (_E.OP_LSL, _E.OP_LSR, _E.OP_ASR, _E.OP_ROR, _E.OP_ROL)


def _shifts_in(e, depth=0):
    """does the expression contain a shift / rotate operator?"""
    try:
        if depth > 12:
            return False
        if e._is_eqn:
            if getattr(e.op, "symbol", None) in SHIFT_OPS:
                return True
            l = getattr(e, "l", None)
            return (l is not None and _shifts_in(l, depth + 1)) or _shifts_in(e.r, depth + 1)
        if e._is_tst:
            return _shifts_in(e.tst, depth + 1) or _shifts_in(e.l, depth + 1) or _shifts_in(e.r, depth + 1)
        if e._is_slc:
            return _shifts_in(e.x, depth + 1)
        if e._is_cmp:
            return any(_shifts_in(p, depth + 1) for p in e.parts.values())
        if e._is_mem:
            return _shifts_in(e.a.base, depth + 1)
        if e._is_ptr:
            return _shifts_in(e.base, depth + 1)
        if e._is_vec:
            return any(_shifts_in(p, depth + 1) for p in e.l)
    except Exception:
        pass
    return False


def _shift_counts(e, acc, depth=0):
    """adds (operator, text of the count) of every shift / rotate operator of the expression to acc"""
    try:
        if depth > 12:
            return
        if e._is_eqn:
            if getattr(e.op, "symbol", None) in SHIFT_OPS:
                acc.add((e.op.symbol, str(e.r)))
            if getattr(e, "l", None) is not None:
                _shift_counts(e.l, acc, depth + 1)
            _shift_counts(e.r, acc, depth + 1)
        elif e._is_tst:
            for x in (e.tst, e.l, e.r):
                _shift_counts(x, acc, depth + 1)
        elif e._is_slc:
            _shift_counts(e.x, acc, depth + 1)
        elif e._is_cmp:
            for x in e.parts.values():
                _shift_counts(x, acc, depth + 1)
        elif e._is_mem:
            _shift_counts(e.a.base, acc, depth + 1)
        elif e._is_ptr:
            _shift_counts(e.base, acc, depth + 1)
        elif e._is_vec:
            for x in e.l:
                _shift_counts(x, acc, depth + 1)
    except Exception:
        pass


def map_shift_counts(m):
    acc = set()
    try:
        for loc, v in m:
            _shift_counts(v, acc)
            if loc._is_ptr:
                _shift_counts(loc.base, acc)
        for k, z in m.mmap._zones.items():
            if k is not None:
                _shift_counts(k, acc)
            for o in z._map:
                if not o.data._is_raw:
                    _shift_counts(o.data.val, acc)
    except Exception:
        pass
    return acc


def map_has_shift(m):
    """a shift / rotate operator occurs in a value, a store address or a stored value of the map"""
    try:
        for loc, v in m:
            if _shifts_in(v) or (loc._is_ptr and _shifts_in(loc.base)):
                return True
        for k, z in m.mmap._zones.items():
            if k is not None and _shifts_in(k):
                return True
            for o in z._map:
                if not o.data._is_raw and _shifts_in(o.data.val):
                    return True
    except Exception:
        pass
    return False


def map_touches_memory(m):
    try:
        if len(m.mmap._zones) > 1 or m.mmap._zones[None]._map:
            return True
        for loc, v in m:
            if loc._is_ptr or any(x._is_mem for x in locations_of(v)):
                return True
    except Exception:
        return True
    return False


class _Timeout(BaseException):
    pass


def _setting_name(s):
    return "noaliasing=%s,memtrace=%s" % (s[0], s[1])


def setting_suffix(failing):
    """'' when the difference shows under all four settings, otherwise the narrowest description"""
    f = set(failing)
    if f == set(SETTINGS):
        return ""
    for k, nm in ((1, "memtrace"), (0, "noaliasing")):
        for val in (False, True):
            if f == set(s for s in SETTINGS if s[k] == val):
                return ":%s=%s" % (nm, val)
    if len(f) == 1:
        return ":" + _setting_name(list(f)[0])
    return ":settings=" + "+".join("%s%s" % ("T" if s[0] else "F", "T" if s[1] else "F") for s in SETTINGS if s in f)


def reg_class(r_):
    if r_.etype & regtype.PC:
        return "pc"
    if r_.etype & regtype.FLAGS:
        return "flags"
    return "reg"


def _mem_words(r, nbytes, e):
    """window content: half of the aligned 32-bit words are arbitrary, half are small (<= 0xFFFF in the
    ISA's byte order: pointers back into the window, usable shift amounts)"""
    out = bytearray(r.getrandbits(8 * nbytes).to_bytes(nbytes, "little"))
    sel = r.getrandbits(nbytes // 4)
    z = (2, 4) if e == 1 else (0, 2)
    for k in range(nbytes // 4):
        if (sel >> k) & 1:
            out[4 * k + z[0]: 4 * k + z[1]] = b"\0\0"
    return bytes(out)


def _regname(l):
    """name of the register a location belongs to (a sub-register slice counts as its register)"""
    try:
        if l._is_slc:
            return l.x.ref if l.x._is_reg else None
        return l.ref
    except Exception:
        return None


def _has_operator(e, depth=0):
    """does the expression compute something (operator, test, memory) rather than just move bits around?"""
    try:
        if depth > 6 or e._is_eqn or e._is_tst or e._is_mem or e._is_ptr:
            return True
        if e._is_slc:
            return _has_operator(e.x, depth + 1)
        if e._is_cmp:
            return any(_has_operator(p, depth + 1) for p in e.parts.values())
        return False
    except Exception:
        return True


class Ctx(object):
    """one ISA: registers, global objects to restore, windows, spec pools"""

    def __init__(self, name, I, membank):
        self.name, self.I = name, I
        objs, ints = c10.global_objects(I)
        self.gobjs = [(o, o.sf, o.size) for _, o in objs]
        self.ints = [(v, dict(v)) for _, v in ints]
        seen, regs = set(), []
        for _, o in objs:
            # every register object reachable from the cpu module (c10.registers only keeps those first
            # reached by a plain module-level name: it misses eax/eflags/…, first reached as `ah.x`)
            if type(o) is reg and o.size > 0 and o.ref not in seen:
                seen.add(o.ref)
                regs.append(o)
        self.regs = regs
        self.uarch = I.dis.iclass._uarch
        self.e = -1 if I.be else 1
        try:
            self.pcsize = I.cpu.PC().size
        except Exception:
            self.pcsize = 32
        st = [o.size for o in regs if o.etype & regtype.STACK] or [o.size for o in regs if o.etype & regtype.PC]
        if st:
            self.psize = max(st)
        else:
            sizes = [o.size for o in regs]
            self.psize = max(set(sizes), key=sizes.count) if sizes else 32
        self.low = membank[self.e][0]
        self.windows = [(0, self.low)]
        self.full_windows = None     # set while the memory image is cut at the end of the address space
        if self.psize >= 24:
            self.windows.append(((1 << self.psize) - HIGH_N, membank[self.e][1]))
        self.modes = list(range(I.nsets)) if name == "armv7" else [0]
        self.pools = {}
        self.usable = {}
        self.selfw = {}
        self.wtab = {}
        self.wouts = {}
        self.dropped = {}
        self.shifty = {}        # mode -> mnemonics with a sample whose map holds a shift / rotate operator
        self.sigs = []          # shrunk failures already seen: (mnemonics tuple, class, failing settings)
        self.mnems = set()

    # -- process-global state ---------------------------------------------------------------
    def restore(self, mode=0):
        for o, sf, size in self.gobjs:
            if o.sf != sf:
                o.sf = sf
            if o.size != size:
                o.size = size
        for d, base in self.ints:
            if d != base:
                d.clear()
                d.update(base)
        self.I.set_mode(mode)
        isa.reset(self.I.dis)

    # -- decoding -------------------------------------------------------------------------------
    def decode(self, mode, bss):
        self.restore(mode)
        out, addr = [], BASE_ADDR
        for bs in bss:
            isa.reset(self.I.dis)
            i = self.I.dis(bs)
            if i is None:
                return None
            i.address = cst(addr, self.pcsize)
            addr += len(i.bytes)
            out.append(i)
        return out

    def build_pools(self, r):
        """per mode: specs by category, learnt from one to three spec-directed samples each"""
        for mode in self.modes:
            cats = {"dp": [], "mem": [], "cf": [], "other": []}
            pfx = []
            usable = []             # (mnemonic, index, spec) of every spec with a sample that executes
            try:
                specs = isa.module_specs(self.I, mode)
            except Exception:
                specs = isa.flatten(self.I.dis.specs[mode])
            for s in specs:
                if s.pfx is True:
                    pfx.append(s)
                    continue
                for _ in range(3):
                    got = self.sample_spec(mode, s, r)
                    if got is None:
                        continue
                    bs, i, m = got
                    cat = {acore.type_data_processing: "dp", acore.type_control_flow: "cf"}.get(i.type, "other")
                    if cat != "cf":
                        try:
                            if len(m.mmap._zones) > 1 or m.mmap._zones[None]._map:
                                cat = "mem"           # a store (whatever memtrace says, the map's own memory has it)
                            for loc, v in m:
                                if loc._is_ptr or any(x._is_mem for x in locations_of(v)):
                                    cat = "mem"
                        except Exception:
                            pass
                    cats[cat].append(s)
                    usable.append((i.mnemonic, len(usable), s))
                    # the decoded operands count too: arm builds `r1 >> 5` at decode time
                    if map_has_shift(m) or any(_shifts_in(o) for o in i.operands if isinstance(o, exp)):
                        self.shifty.setdefault(mode, set()).add(i.mnemonic)
                    break
            self.pools[mode] = (cats, pfx)
            self.usable[mode] = usable
        self.restore(0)

    def sample_spec(self, mode, s, r, pfx=None):
        """fresh spec-directed bytes of spec s that decode to an instruction with semantics which, alone on
        an empty map, executes without raising (raising semantics are C17's business: such instructions
        are dropped from the sequences and counted); returns (bytes, instruction, its map)"""
        try:
            bs = isa.directed_bytes(s, self.e, r)
            if pfx is not None:
                bs = isa.directed_bytes(pfx, self.e, r, tail=0) + bs
            self.restore(mode)
            i = self.I.dis(bs)
        except Exception:
            self.dropped["decode raises"] = self.dropped.get("decode raises", 0) + 1
            return None
        if i is None:
            return None
        if ("i_%s" % i.mnemonic) not in self.uarch:
            self.dropped["no i_MNEMONIC"] = self.dropped.get("no i_MNEMONIC", 0) + 1
            return None
        try:
            i.address = cst(BASE_ADDR, self.pcsize)
            m = mapper()
            i(m)
        except Exception as ex:
            k = "semantics raise " + type(ex).__name__
            self.dropped[k] = self.dropped.get(k, 0) + 1
            return None
        finally:
            self.restore(mode)
        return bytes(bs[:len(i.bytes)]), i, m

    @staticmethod
    def map_inputs(m):
        """names of the registers a (single-instruction) map reads: in its values, in its store addresses"""
        es = []
        for loc, v in m:
            es.append(v)
            if loc._is_ptr:
                es.append(loc.base)
        for k, z in m.mmap._zones.items():
            if k is not None:
                es.append(k)
            for o in z._map:
                if not o.data._is_raw:
                    es.append(o.data.val)
        out, todo = set(), es
        while todo:
            e = todo.pop()
            try:
                for l in locations_of(e):
                    if l._is_reg:
                        if not (l.etype & regtype.PC):
                            out.add(_regname(l))
                    elif l._is_mem:
                        todo.append(l.a.base)
                    elif l._is_ptr:
                        todo.append(l.base)
            except Exception:
                pass
        return out

    @staticmethod
    def map_outputs(m):
        return set(loc.ref for loc, _ in m if loc._is_reg and not (loc.etype & regtype.PC))

    def self_writers(self, mode, r, n):
        """register name -> byte strings of instructions X whose new value of that register mentions a
        register X itself modifies (r := r - s, pop, post-increment …): evaluating such a value a second
        time in the map is not idempotent"""
        if mode in self.selfw:
            return self.selfw[mode]
        cats, _ = self.pools[mode]
        pool = cats["dp"] * 3 + cats["mem"] + cats["other"]
        out, wr, nok = {}, {}, 0
        for _ in range(n if pool else 0):
            gx = self.sample_spec(mode, r.choice(pool), r)
            if gx is None:
                continue
            outs = self.map_outputs(gx[2])
            nok += 1
            for o in outs:
                wr[o] = wr.get(o, 0) + 1
            for loc, v in gx[2]:
                if loc._is_reg and loc.ref in outs and len(out.get(loc.ref, ())) < 6:
                    try:
                        syms = set(x.ref for x in locations_of(v) if x._is_reg)
                    except Exception:
                        continue
                    if syms & outs:
                        out.setdefault(loc.ref, []).append(gx[0])
        for o, c in wr.items():
            if c > 0.8 * nok:
                out.pop(o, None)        # written by (almost) every instruction: a second program counter (mips/sparc npc)
        self.selfw[mode] = out
        return out

    def writer_tables(self, mode, r, n):
        """from n samples of the data-processing specs of the ISA:
             copies[a]  = [(b, bytes)]  instructions whose only effect (besides pc/flags) is a := value mentioning
                                        exactly one other register b (mov a,b / mov al,bl / or a,b,zero …)
             writers[b] = [bytes]       instructions that overwrite b without reading it from a register it
                                        also writes (mov b,imm / xor b,b / mov b,c / add b,c,d …)"""
        if mode in self.wtab:
            return self.wtab[mode]
        cats, _ = self.pools[mode]
        pool = cats["dp"] * 4 + cats["other"]
        copies, writers = {}, {}
        copyspecs, wrspecs = [], []
        special = set(x.ref for x in self.regs if x.etype & (regtype.PC | regtype.FLAGS))
        samples = []
        for t in range(n if pool else 0):
            # first half: any data-processing spec; second half: the specs that turned out to copy / overwrite
            if t == n // 2:
                # registers written by (almost) every instruction are a second program counter / status word
                cnt = {}
                for _, gx in samples:
                    for o in self.map_outputs(gx[2]):
                        cnt[o] = cnt.get(o, 0) + 1
                special |= set(o for o, k in cnt.items() if k > 0.6 * len(samples))
                for sp, gx in samples:
                    self._classify_writer(sp, gx, special, copies, writers, copyspecs, wrspecs)
            if t < n // 2 or not (copyspecs or wrspecs):
                sp = r.choice(pool)
            else:
                sp = r.choice(copyspecs * 2 + wrspecs) if copyspecs else r.choice(wrspecs)
            gx = self.sample_spec(mode, sp, r)
            if gx is None:
                continue
            if t < n // 2:
                samples.append((sp, gx))
            else:
                self._classify_writer(None, gx, special, copies, writers, copyspecs, wrspecs)
        self.wtab[mode] = (copies, writers)
        return self.wtab[mode]

    def _classify_writer(self, sp, gx, special, copies, writers, copyspecs, wrspecs):
        m = gx[2]
        try:
            if len(m.mmap._zones) > 1 or m.mmap._zones[None]._map:
                return
            known = set(x.ref for x in self.regs)          # registers that hold a value in the concrete states
            outs = [(loc, v) for loc, v in m if loc._is_reg and loc.ref in known and loc.ref not in special]
            written = set(loc.ref for loc, _ in outs)
            for loc, v in outs:
                locs = locations_of(v)
                if any(x._is_mem or x._is_ptr for x in locs):
                    continue
                srcs = set(_regname(x) for x in locs if x._is_reg)
                if not all(x is not None and x in known for x in srcs):
                    continue
                srcs = set(x for x in srcs if x not in special)
                others = srcs - {loc.ref}
                if len(others) == 1 and not (others & written):
                    if sp is not None and sp not in copyspecs:
                        copyspecs.append(sp)
                    pure = not _has_operator(v)         # a plain move (possibly of a sub-register): the value stays small
                    lst = copies.setdefault(loc.ref, [])
                    if len(lst) < 8 or (pure and sum(1 for x in lst if x[2]) < 4):
                        lst.append((list(others)[0], gx[0], pure))
                if loc.ref not in srcs:
                    if sp is not None and sp not in wrspecs:
                        wrspecs.append(sp)
                    small = bool(v._is_cst and v.v < 0x8000)
                    lst = writers.setdefault(loc.ref, [])
                    if len(lst) < 8 or (small and sum(1 for x in lst if x[1]) < 3):
                        lst.append((gx[0], small, frozenset(srcs)))
        except Exception:
            pass

    def operand_registers(self, my):
        """the registers an instruction's map reads, without pc and flags, sorted"""
        special = set(x.ref for x in self.regs if x.etype & (regtype.PC | regtype.FLAGS))
        return sorted(x for x in self.map_inputs(my) if x is not None and x not in special)

    def gen_dep(self, mode, s, r, k, ntab=1000, maxops=4):
        """a dependency-dense sequence ending with a sample Y of spec s: for every operand register a that Y
        reads (up to maxops, starting with the k-th),  X1: a := (value of) b  — so that Y's operand mentions the
        *input* b —  and then  X2: b := something else — so that b means two things in the block —, then Y.
        Semantics that push an operand through the map twice, or evaluate it in the wrong map, substitute the
        new b into Y's operand.  An operand register without a copy instruction gets a self-writer
        (a := a + 4 …) instead.  returns (sequence, operand registers covered, how) or None"""
        copies, writers = self.writer_tables(mode, r, ntab)
        for _ in range(6):
            # memory operands should point into the scratch windows: registers hold small values in every
            # state, so a sample whose displacements are small is preferred (a few more tries)
            got = None
            for _t in range(10):
                g2 = self.sample_spec(mode, s, r)
                if g2 is None:
                    continue
                got = g2
                if self.window_friendly(g2[2]):
                    break
            if got is None:
                continue
            ybs, _, my = got
            ops = self.operand_registers(my)
            if not ops:
                return None
            ops = (ops[k % len(ops):] + ops[:k % len(ops)])[:maxops]
            first, second, covered, used, how = [], [], [], set(ops), set()
            sw = None
            for a in ops:
                # X1: a := b, plain moves first (the operand keeps a small value: memory operands stay in the windows)
                # every (X1, X2) combination, best first: plain move into a, then plain move into b from a
                # register not involved (else a small constant, else any overwrite that leaves the operands alone)
                combos = []
                for (b, x1, pure) in copies.get(a, ()):
                    if b in used:
                        continue
                    x2s = [(bs, 0) for (c_, bs, p_) in copies.get(b, ()) if p_ and c_ not in used and c_ != a]
                    x2s += [(bs, 1 if small else 2) for (bs, small, rd) in writers.get(b, ()) if not (rd & used)]
                    for bs, rank in x2s:
                        combos.append((0 if pure else 1, rank, r.random(), b, x1, bs))
                combos.sort(key=lambda x: x[:3])
                done = False
                for _p, _rank, _rnd, b, x1, x2 in combos[:12]:
                    if self._writes_only(mode, x2, b, used):
                        first.append(x1)
                        second.append(x2)
                        used.add(b)
                        covered.append(a)
                        how.add("copy-then-clobber")
                        done = True
                        break
                if not done:
                    if sw is None:
                        sw = self.self_writers(mode, r, 300)
                    if a in sw:
                        second.append(r.choice(sw[a]))
                        covered.append(a)
                        how.add("self-writer")
            if covered:
                return first + second + [ybs], covered, "+".join(sorted(how))
        return None

    @staticmethod
    def window_friendly(m):
        """every memory access of the (single-instruction) map is register + small displacement, or a small
        constant address"""
        try:
            ptrs = [loc for loc, _ in m if loc._is_ptr]
            todo = [v for _, v in m] + [p.base for p in ptrs]
            while todo:
                e = todo.pop()
                for l in locations_of(e):
                    if l._is_mem:
                        ptrs.append(l.a)
                        todo.append(l.a.base)
            for k, z in m.mmap._zones.items():
                for o in z._map:
                    if k is None and not (0 <= o.vaddr < LOW_N - 16):
                        return False
                    if k is not None and not (-0x7000 <= o.vaddr <= 0x7000):
                        return False
            for p in ptrs:
                d = p.disp if isinstance(p.disp, int) else 0
                if p.base._is_cst:
                    if not (0 <= (p.base.v + d) < LOW_N - 16):
                        return False
                elif not (-0x7000 <= d <= 0x7000):
                    return False
            return True
        except Exception:
            return True

    def _writes_only(self, mode, bs, b, keep):
        """the instruction bs writes b and none of the registers in `keep` (pc / flags aside)"""
        key = (mode, bs)
        if key not in self.wouts:
            try:
                self.restore(mode)
                i = self.I.dis(bs)
                i.address = cst(BASE_ADDR, self.pcsize)
                m = mapper()
                i(m)
                self.wouts[key] = self.map_outputs(m)
            except Exception:
                self.wouts[key] = None
            finally:
                self.restore(mode)
        outs = self.wouts[key]
        return outs is not None and not (outs & (keep - {b}))

    # -- immediates at boundary values (phase 1d) ---------------------------------------------
    def _opsig(self, i):
        """(kinds and sizes of the operands, registers they mention), text of the operands"""
        kinds, regs, txt = [], set(), []
        for o in i.operands:
            txt.append(str(o))
            if not isinstance(o, exp):
                kinds.append(type(o).__name__)
                continue
            kinds.append((bool(o._is_cst), bool(o._is_mem), bool(o._is_ptr), o.size))
            todo = [o]
            while todo:
                e = todo.pop()
                for l in locations_of(e):
                    if l._is_mem:
                        todo.append(l.a.base)
                    elif l._is_ptr:
                        todo.append(l.base)
                    else:
                        regs.add(_regname(l))
        return (i.mnemonic, len(i.bytes), tuple(kinds), frozenset(regs)), tuple(txt)

    def _decode1(self, mode, bs):
        try:
            self.restore(mode)
            i = self.I.dis(bs)
            if i is None or ("i_%s" % i.mnemonic) not in self.uarch:
                return None
            return i
        except Exception:
            return None

    def _runs_alone(self, mode, bs):
        """the map of the instruction alone on an empty mapper, None when it raises"""
        try:
            self.restore(mode)
            i = self.I.dis(bs)
            i.address = cst(BASE_ADDR, self.pcsize)
            m = mapper()
            i(m)
            return m
        except Exception:
            return None
        finally:
            self.restore(mode)

    def immediate_mutants(self, mode, s, r, maxn=None, pfx=None, ntries=12):
        """a sample of spec s (registers only when there is one: the boundary states hold large values, a memory
        operand would leave the windows) and copies of it whose immediates take boundary values.
        An *immediate position* is found by decoding, not by name: a named bit field of the spec, or a byte
        after the spec's fixed part, such that changing it keeps the mnemonic, the length, the kinds/sizes of
        the operands and the registers they mention, and changes the text of the operands.
        returns (sample bytes, [(bytes, position, value, feeds a shift count?)], operand widths, touches memory?) or None"""
        got, touches = None, True
        for _t in range(ntries):
            g2 = self.sample_spec(mode, s, r, pfx)
            if g2 is None:
                continue
            if not map_touches_memory(g2[2]):
                got, touches = g2, False
                break
            elif got is None or (not self.window_friendly(got[2]) and self.window_friendly(g2[2])):
                got = g2
        if got is None:
            return None
        bs, i0, _m = got
        try:
            sig0, txt0 = self._opsig(i0)
        except Exception:
            return bs, [], set(), touches
        widths = set(o.size for o in i0.operands if isinstance(o, exp) and not o._is_cst and o.size in (8, 16, 32, 64))
        if not widths:
            widths = {min(64, max(8, self.psize))}
        n = s.fix.size
        nfix = n // 8
        # the spec may sit after prefix bytes: find where its fixed part starts
        off = None
        positions = []
        if len(bs) >= nfix and nfix:
            # (prefixes, when any, come first: the spec's word is the nfix bytes that match fix/mask)
            for start in range(0, len(bs) - nfix + 1):
                w = int.from_bytes(bs[start:start + nfix][::self.e], "little")
                if (w & s.mask.ival) == (s.fix.ival & s.mask.ival):
                    off = start
                    break
        if off is not None:
            try:
                rs = isa.reflect_spec(s)
                fields = sorted(set((f[3], f[4]) for f in rs["extsA"] + rs["extsF"]
                                    if isinstance(f[3], int) and isinstance(f[4], int) and 0 <= f[3] < f[4] <= n and f[4] - f[3] <= 16))
            except Exception:
                fields = []
            free = ~s.mask.ival & ((1 << n) - 1)
            for lo, hi in fields:
                fm = ((1 << (hi - lo)) - 1) << lo
                if fm & free == fm:
                    positions.append(("field", lo, hi))
            for k in range(off + nfix, len(bs)):
                positions.append(("byte", k, k + 1))
        else:
            for k in range(1, len(bs)):
                positions.append(("byte", k, k + 1))

        def put(pos, v):
            kind, lo, hi = pos
            if kind == "byte":
                return bs[:lo] + bytes([v & 0xFF]) + bs[hi:]
            w = int.from_bytes(bs[off:off + nfix][::self.e], "little")
            fm = ((1 << (hi - lo)) - 1) << lo
            w = (w & ~fm) | ((v << lo) & fm)
            return bs[:off] + w.to_bytes(nfix, "little")[::self.e] + bs[off + nfix:]

        def cur(pos):
            kind, lo, hi = pos
            if kind == "byte":
                return bs[lo]
            w = int.from_bytes(bs[off:off + nfix][::self.e], "little")
            return (w >> lo) & ((1 << (hi - lo)) - 1)

        imms = []
        for pos in positions[:24]:
            nb = 8 if pos[0] == "byte" else pos[2] - pos[1]
            c = cur(pos)
            ok, bad = 0, 0
            for pv in dict.fromkeys([c ^ 1, c ^ ((1 << nb) - 1), (c + 2) & ((1 << nb) - 1)]):
                if pv == c:
                    continue
                i2 = self._decode1(mode, put(pos, pv))
                if i2 is None or i2.mnemonic != i0.mnemonic:
                    continue
                try:
                    sig2, txt2 = self._opsig(i2)
                except Exception:
                    bad += 1
                    continue
                if sig2 != sig0:
                    bad += 1
                elif txt2 != txt0:
                    ok += 1
            if ok and not bad:
                # does the immediate feed a shift count?  (the shift operators of the map and their counts
                # change with it: `sar al,1` / `sar al,2`, `add r0, r1, r2 lsl #1` / `… lsl #2`)
                feeds = False
                try:
                    ma, mb_ = self._runs_alone(mode, put(pos, 1)), self._runs_alone(mode, put(pos, 2 & ((1 << nb) - 1)))
                    feeds = ma is not None and mb_ is not None and map_shift_counts(ma) != map_shift_counts(mb_)
                except Exception:
                    pass
                imms.append((pos, nb, feeds))
        out, seen = [], {bytes(bs)}
        # narrow immediates first (shift counts), then the low byte of wider ones; per position the classes
        # around the narrowest operand width first
        imms.sort(key=lambda x: not x[2])
        for pos, nb, feeds in imms:
            for v in immediate_classes(widths, nb):
                mb = put(pos, v)
                if mb in seen:
                    continue
                seen.add(mb)
                out.append((mb, pos, v, feeds))
        if maxn is not None and len(out) > maxn:
            wmin = min(widths)
            pri = {wmin: 0, wmin + 1: 1, 31: 2, wmin - 1: 3, 1: 4, 0: 5}
            out.sort(key=lambda x: (not x[3], pri.get(x[2], 9), r.random()))
            out = out[:maxn]
        return bs, out, widths, touches

    def gen_pair(self, mode, s, r, nwriters=300):
        """[X, Y]: Y a fresh sample of spec s, X an instruction that writes a register Y reads, if possible
        one of self_writers() — the interleaving on which semantics that evaluate an operand twice go wrong"""
        sw = self.self_writers(mode, r, nwriters)
        plain = None
        for _ in range(8):
            got = self.sample_spec(mode, s, r)
            if got is None:
                continue
            ybs, _, my = got
            need = self.map_inputs(my)
            hit = sorted(need & set(sw))
            if hit:
                return [r.choice(sw[r.choice(hit)]), ybs]
            if plain is None and need:
                plain = (ybs, need)
        if plain is None:
            return None
        ybs, need = plain
        cats, _ = self.pools[mode]
        pool = cats["dp"] * 3 + cats["mem"] + cats["other"]
        for _ in range(20 if pool else 0):
            gx = self.sample_spec(mode, r.choice(pool), r)
            if gx is not None and (self.map_outputs(gx[2]) & need):
                return [gx[0], ybs]
        return None

    def gen_sequence(self, mode, n, r):
        cats, pfx = self.pools[mode]
        avail = [(c, w) for c, w in (("dp", 55), ("mem", 25), ("cf", 8), ("other", 12)) if cats[c]]
        if not avail:
            return None
        out = []
        tries = 0
        while len(out) < n and tries < 12 * n:
            tries += 1
            c = r.choices([a[0] for a in avail], [a[1] for a in avail])[0]
            s = r.choice(cats[c])
            p = r.choice(pfx) if (pfx and r.random() < 0.08) else None
            got = self.sample_spec(mode, s, r, p)
            if got is None:
                continue
            out.append(got[0])
        return out or None

    # -- concrete states ------------------------------------------------------------------------
    def regval(self, j, r_, sid):
        if r_.etype & regtype.PC:
            v = BASE_ADDR
        elif r_.ref.lower() in ("npc", "pc'"):
            v = BASE_ADDR + 4
        elif sid >= NSTATES:
            v = boundary_value(r_.size, sid, j)      # boundary classes per width (phase 1d)
        elif sid == 0:
            v = (j * 37 + 11) & 0xFF                 # small: shift amounts, low window
        elif sid == 1:
            v = 0xFFFF - 3 * j                       # top of 16 bits: negative 16-bit displacements stay inside
        else:
            v = (0x2468 + 0x0135 * j) & 0x7FFF       # middle of the low window
        return v & ((1 << r_.size) - 1)

    def state(self, sid):
        m = mapper()
        for j, r_ in enumerate(self.regs):
            try:
                m[r_] = cst(self.regval(j, r_, sid), r_.size)
            except Exception:
                pass
        mm = m.mmap
        for a, data in self.windows:
            mm.write(a, data)
        return m

    def init_byte(self, addr):
        for a, data in self.windows:
            if a <= addr < a + len(data):
                return data[addr - a]
        return UNMAPPED


# ---------------------------------------------------------------------------------------------
# reading final states
# ---------------------------------------------------------------------------------------------

def reg_values(ctx, st):
    """list of constants (int) or None (not a constant) for ctx.regs"""
    out = []
    for r_ in ctx.regs:
        v = st[r_]
        if not v._is_cst:
            # a register written by parts holds a composite of constants: { [0:8]->0x2 | [8:16]->0xd | … }
            v = v.simplify()
        out.append((v.v & ((1 << r_.size) - 1)) if v._is_cst else None)
    return out


def mem_image(mm):
    """concrete chunks [(addr, bytes)], symbolic chunks [(addr, n)] of the concrete-address zone and
    whether other (symbolic-base) zones hold anything"""
    z = mm._zones[None]
    conc, sym = [], []
    # one read per memory object of the zone (a single read over the whole range would have to return the
    # gap between the two windows as one "bottom" of 2^64 bytes, whose len() overflows)
    for o in list(z._map):
        a = o.vaddr
        for p in mm.read(a, len(o.data)):
            if isinstance(p, (bytes, bytearray)):
                conc.append((a, bytes(p)))
                a += len(p)
            else:
                n = p.size // 8
                if p._is_def or p._is_top:
                    # an expression, or `top` (unknown: what SHLD/SHRD with a count in cl become on the symbolic
                    # route) — "stays symbolic"; only a bottom (never written) counts as unmapped
                    sym.append((a, n))
                a += n
    other = any(k is not None and zz._map for k, zz in mm._zones.items())
    return conc, sym, other


def _diffpos(x, y):
    out = []
    n = len(x)
    for b0 in range(0, n, 2048):
        if x[b0:b0 + 2048] != y[b0:b0 + 2048]:
            for k in range(b0, min(b0 + 2048, n)):
                if x[k] != y[k]:
                    out.append(k)
    return out


def mem_delta(ctx, img):
    """addr -> byte value | None (symbolic) for every byte that differs from the start state (inside the
    windows) or lies outside of them"""
    d = {}
    conc, sym, _ = img
    for a, data in conc:
        end = a + len(data)
        covered = []
        for w0, init in ctx.windows:
            s, t = max(a, w0), min(end, w0 + len(init))
            if s < t:
                covered.append((s, t))
                x, y = data[s - a:t - a], init[s - w0:t - w0]
                if x != y:
                    for k in _diffpos(x, y):
                        d[s + k] = x[k]
        pos = a
        for s, t in sorted(covered) + [(end, end)]:
            for k in range(pos, min(s, pos + 256)):
                d[k] = data[k - a]
            pos = max(pos, t)
    for a, n in sym:
        for k in range(min(n, 4096)):
            d[a + k] = None
    return d


class Res(object):
    __slots__ = ("exc", "diffs", "nsym_reg", "nsym_mem", "ncmp", "nontrivial", "bsym", "memskip", "unmapped", "out_of_scope", "same", "bmem",
                 "bregs")

    def __init__(self):
        self.exc = None          # (route, exception class name, message)
        self.diffs = []          # (class, location name, route A value, route B value, register name | address)
        self.nsym_reg = self.nsym_mem = self.ncmp = self.bsym = self.unmapped = 0
        self.nontrivial = False
        self.memskip = None
        self.same = set()         # registers on which both routes give the same constant
        self.bmem = {}            # route B: address -> byte for every byte that differs from the start state
        self.bregs = {}           # route B: register -> constant
        self.out_of_scope = 0     # differences dropped: the state violates the no-aliasing assumption


def _exc(route, ex):
    return (route, type(ex).__name__, str(ex)[:120])


def _accesses(m):
    """every store and load of a map as (kind, base expression | None, offset, nbytes); addresses are
    expressed over the block's inputs (base None = absolute address)"""
    acc, vals = [], []
    for k, z in m.mmap._zones.items():
        for o in z._map:
            acc.append(("st", k, o.vaddr, len(o.data)))
            if not o.data._is_raw:
                vals.append(o.data.val)
    for loc, v in m:
        vals.append(v)
        if loc._is_ptr:
            vals.append(loc.base)
    seen, todo = set(), list(vals)
    while todo:
        e = todo.pop()
        for l in locations_of(e):
            if l._is_mem:
                key = (str(l.a), l.size)
                if key in seen:
                    continue
                seen.add(key)
                b = l.a.base
                if b._is_cst:
                    acc.append(("ld", None, (b.v + l.a.disp) & b.mask, l.length))
                else:
                    acc.append(("ld", b, l.a.disp, l.length))
                    todo.append(b)
            elif l._is_ptr:
                todo.append(l.base)
    return acc


def aliasing_assumption_violated(m, C):
    """does the concrete state C make two accesses of the map m (at least one a store) that go through
    *distinct* symbolic pointers overlap?  Then, with conf.Cas.noaliasing=True, the case is outside the
    claim of C02 ("limited to states in which distinct symbolic pointers do not overlap")."""
    try:
        acc = _accesses(m)
    except Exception:
        return False
    conc = []
    for kind, base, off, n in acc:
        if base is None:
            conc.append((kind, None, off, n))
            continue
        try:
            bv = C(base)
            if not bv._is_cst:
                bv = bv.simplify()
        except Exception:
            continue
        if bv._is_cst:
            conc.append((kind, str(base), (bv.v + off) & bv.mask, n))
    for x in range(len(conc)):
        for y in range(x + 1, len(conc)):
            a, b = conc[x], conc[y]
            if a[0] == "ld" and b[0] == "ld":
                continue
            if a[1] == b[1]:
                continue
            if a[2] < b[2] + b[3] and b[2] < a[2] + a[3]:
                return True
    return False


class _CutAtAddressSpace(object):
    """the concrete states' memory image ends where the (small) address space of the ISA ends"""

    def __init__(self, ctx):
        self.ctx = ctx

    def __enter__(self):
        c = self.ctx
        c.full_windows = c.windows
        top = 1 << c.psize
        c.windows = [(a, data[:max(0, top - a)]) for a, data in c.windows if a < top]
        return self

    def __exit__(self, *a):
        self.ctx.windows, self.ctx.full_windows = self.ctx.full_windows, None


def wraps_address_space(ctx, mode, bss, sid, setting, cls):
    """mechanism check of the WRAP_SUFFIX family: the class-`cls` difference of this sequence from this state
    is there with memory beyond the end of the address space and gone without it"""
    if ctx.psize >= 24 or all(a + len(d) <= (1 << ctx.psize) for a, d in ctx.windows):
        return False
    with _CutAtAddressSpace(ctx):
        r = evaluate(ctx, mode, bss, [sid], setting)[0]
    return r.exc is None and _first(r, cls) is None


def evaluate(ctx, mode, bss, sids, setting):
    """run both routes for one sequence under one setting from the states `sids`; returns [Res].
    Each route starts from the import-time world (ctx.restore inside ctx.decode) and then runs exactly as a
    fresh process would: decode, execute, (compose) — nothing is reset in between."""
    conf.Cas.noaliasing, conf.Cas.memtrace = setting
    out = [Res() for _ in sids]
    maps = []
    for res, sid in zip(out, sids):
        maps.append(None)
        # route A: the map of the whole sequence, built once on an empty mapper, then applied to the state
        try:
            ins = ctx.decode(mode, bss)
            if ins is None:
                raise acore.DecodeError("sequence does not decode again")
            m = mapper()
            for i in ins:
                i(m)
            m.update_delayed()
            maps[-1] = m
            C = ctx.state(sid)
            init_regs = reg_values(ctx, C)
            A = C >> m
            ra = reg_values(ctx, A)
            ia = mem_image(A.mmap)
        except Exception as ex:
            res.exc = _exc("A", ex)
            continue
        # route B: the instructions one by one on the state, built again
        try:
            ins = ctx.decode(mode, bss)
            B = ctx.state(sid)
            for i in ins:
                i(B)
            B.update_delayed()
            rb = reg_values(ctx, B)
            ib = mem_image(B.mmap)
        except Exception as ex:
            res.exc = _exc("B", ex)
            continue
        for r_, a, b, v0 in zip(ctx.regs, ra, rb, init_regs):
            if b != v0 and not (r_.etype & regtype.PC):
                res.nontrivial = True
            if b is None:
                res.bsym += 1
            elif a is None:
                res.nsym_reg += 1
            else:
                res.ncmp += 1
                res.bregs[r_.ref] = b
                if a != b:
                    res.diffs.append((reg_class(r_), r_.ref, a, b, r_.ref))
                else:
                    res.same.add(r_.ref)
        db = mem_delta(ctx, ib)
        if db:
            res.nontrivial = True
            res.bmem = db
        if ia[2] or ib[2]:
            res.memskip = "symbolic-zone-on-" + ("A" if ia[2] else "B")
            continue
        da = mem_delta(ctx, ia)
        for addr in sorted(set(da) | set(db)):
            a = da[addr] if addr in da else ctx.init_byte(addr)
            b = db[addr] if addr in db else ctx.init_byte(addr)
            if b is None:
                res.bsym += 1
            elif a is None:
                res.nsym_mem += 1
            elif a == UNMAPPED or b == UNMAPPED:
                if a != b:
                    res.unmapped += 1
            else:
                res.ncmp += 1
                if a != b:
                    res.diffs.append(("mem", "M8[0x%x]" % addr, a, b, addr))
    if setting[0]:
        for res, sid, m in zip(out, sids, maps):
            if res.diffs and res.exc is None and m is not None:
                try:
                    ctx.restore(mode)
                    if aliasing_assumption_violated(m, ctx.state(sid)):
                        res.out_of_scope = len(res.diffs)
                        res.diffs = []
                except Exception:
                    pass
    return out


# ---------------------------------------------------------------------------------------------
# shrinking and reporting
# ---------------------------------------------------------------------------------------------

def _first(res, cls):
    if res.exc is not None:
        return None
    for d in res.diffs:
        if d[0] == cls:
            return d
    return None


def fails(ctx, mode, bss, sid, setting, cls):
    if not bss:
        return None
    return _first(evaluate(ctx, mode, bss, [sid], setting)[0], cls)


def mnemonics(ctx, mode, bss):
    ins = ctx.decode(mode, bss)
    return [i.mnemonic for i in ins] if ins else ["?"] * len(bss)


def shrink(ctx, mode, bss, sid, setting, cls):
    cur = list(bss)
    if len(cur) > 1:
        for k in range(len(cur)):
            if fails(ctx, mode, [cur[k]], sid, setting, cls):
                cur = [cur[k]]
                break
    changed = True
    while changed and len(cur) > 1:
        changed = False
        for k in range(len(cur)):
            cand = cur[:k] + cur[k + 1:]
            if fails(ctx, mode, cand, sid, setting, cls):
                cur, changed = cand, True
                break
    failing = [s for s in SETTINGS if s == setting or fails(ctx, mode, cur, sid, s, cls)]
    return cur, failing


def explained(ctx, mode, bss, mn, sid, setting, cls):
    """is this failure one of the shrunk failures already seen on this ISA?  (verified by deleting the
    instructions of the known signature: the difference must disappear); returns the signature or None
    and the remaining sequence to shrink"""
    cur, curmn = list(bss), list(mn)
    for kmn, kcls, kfail, sig in ctx.sigs:
        if kcls != cls or setting not in kfail:
            continue
        it = iter(curmn)
        if not all(x in it for x in kmn):            # subsequence test
            continue
        keep = [k for k in range(len(cur)) if curmn[k] not in kmn]
        cand = [cur[k] for k in keep]
        if not cand or not fails(ctx, mode, cand, sid, setting, cls):
            return sig, None
        cur, curmn = cand, [curmn[k] for k in keep]
    return None, cur


class _World(object):
    """for the duration of a `with`: every constant is read as unsigned ("u") or as two's complement ("s"),
    whatever its signedness flag (amoco reads the flag in `cst.value` only).  Used by the mechanism check
    of the signedness-flag family, never while the property itself is being checked."""

    def __init__(self, w):
        self.w = w

    def __enter__(self):
        self.orig = _E.cst.__dict__["value"]
        if self.w == "u":
            _E.cst.value = property(lambda c: c.v)
        else:
            _E.cst.value = property(lambda c: (c.v - (1 << c.size)) if (c.v >> (c.size - 1)) & 1 else c.v)
        return self

    def __exit__(self, *a):
        _E.cst.value = self.orig
        return False


def _agree(rs, cls, key, expected=None):
    """both routes gave the same constant at `key` in evaluation rs (and, when `expected` is given, that constant
    is the one step-by-step execution gives in the real world: a world in which step-by-step execution itself
    computes something else — an arithmetic shift of a constant read as unsigned — explains nothing)"""
    if rs.exc is not None or rs.out_of_scope or any(d[0] == cls for d in rs.diffs):
        return False
    if expected is not None:
        got = rs.bmem.get(key) if cls == "mem" else rs.bregs.get(key)
        if got != expected:
            return False
    # memory: no byte differs any more, and step-by-step execution still writes this very byte (in the
    # other world the stores may have moved elsewhere, even out of the compared windows, on both routes)
    return (rs.memskip is None and isinstance(rs.bmem.get(key), int)) if cls == "mem" else (key in rs.same)


def signedness_world(ctx, mode, bss, sid, setting, cls, key, expected=None):
    """'u' / 's' when the difference at `key` disappears once every constant is read as unsigned / signed"""
    for w in ("u", "s"):
        try:
            with _World(w):
                rs = evaluate(ctx, mode, bss, [sid], setting)[0]
            if _agree(rs, cls, key, expected):
                return w
        except _Timeout:
            raise
        except Exception:
            pass
    return None


def split_agrees(ctx, mode, bss, sid, setting, cls, keys):
    """route A in two blocks — the map of the sequence without its last instruction, then the map of the
    last instruction built on an empty mapper — gives what step-by-step execution gives at `keys`?
    Then it is building the last instruction's semantics *on top of a non-empty symbolic map* that goes
    wrong (an operand evaluated twice: fmap(fmap(x)), or mapper.__setitem__ evaluating again an address
    that the semantics had already evaluated, after a register it mentions was written in the block)."""
    try:
        conf.Cas.noaliasing, conf.Cas.memtrace = setting
        ins = ctx.decode(mode, bss)
        m1 = mapper()
        for i in ins[:-1]:
            i(m1)
        m1.update_delayed()
        m2 = mapper()
        ins[-1](m2)
        m2.update_delayed()
        A2 = (ctx.state(sid) >> m1) >> m2
        ins = ctx.decode(mode, bss)
        B = ctx.state(sid)
        for i in ins:
            i(B)
        B.update_delayed()
        for key in keys:
            a, b = _value_at(ctx, A2, key), _value_at(ctx, B, key)
            if not (isinstance(a, int) and isinstance(b, int) and a == b):
                return False
        return bool(keys)
    except _Timeout:
        raise
    except Exception:
        return False


def _value_at(ctx, st, key):
    if isinstance(key, int):
        p = st.mmap.read(key, 1)[0]
        return p[0] if isinstance(p, (bytes, bytearray)) else str(p)
    r_ = [x for x in ctx.regs if x.ref == key][0]
    v = st[r_]
    if not v._is_cst:
        v = v.simplify()
    return (v.v & ((1 << r_.size) - 1)) if v._is_cst else str(v)


def culprit_index(ctx, mode, bss, sid, setting, key):
    """index of the last instruction of the sequence that changes location `key` on route B"""
    last = len(bss) - 1
    try:
        conf.Cas.noaliasing, conf.Cas.memtrace = setting
        ins = ctx.decode(mode, bss)
        B = ctx.state(sid)
        prev = _value_at(ctx, B, key)
        for k, i in enumerate(ins):
            i(B)
            v = _value_at(ctx, B, key)
            if v != prev:
                last, prev = k, v
    except _Timeout:
        raise
    except Exception:
        pass
    return last


def handle_failure(ck, ctx, stats, mode, bss, sid, setting, res, allow_shrink):
    mn = mnemonics(ctx, mode, bss)
    for cls in sorted(set(d[0] for d in res.diffs)):
        _handle_class(ck, ctx, stats, mode, bss, mn, sid, setting, cls, res, allow_shrink)


def _handle_class(ck, ctx, stats, mode, bss, mn, sid, setting, cls, res, allow_shrink, depth=0):
    """shrink, classify and report the difference of class `cls` of one failing evaluation; returns the
    signature it was counted under (None when it was not shrunk)"""
    sig, rest = explained(ctx, mode, bss, mn, sid, setting, cls)
    if sig is not None:
        stats["signatures"][sig]["count"] += 1
        ck.count("violation-instance." + cls)
        return sig
    if not allow_shrink():
        ck.count("failure-not-shrunk(budget)")
        stats["unshrunk"].append({"isa": ctx.name, "bytes": [b.hex() for b in bss], "mnemonics": mn, "class": cls,
                                  "noaliasing": setting[0], "memtrace": setting[1], "state": sid})
        return None
    if not fails(ctx, mode, rest, sid, setting, cls):
        # the difference is not reproducible on re-evaluation (should not happen: everything is rebuilt)
        ck.count("failure-not-reproducible")
        stats["unshrunk"].append({"isa": ctx.name, "bytes": [b.hex() for b in bss], "mnemonics": mn, "class": cls,
                                  "noaliasing": setting[0], "memtrace": setting[1], "state": sid, "unstable": True})
        return None
    cur, failing = shrink(ctx, mode, rest, sid, setting, cls)
    cmn = mnemonics(ctx, mode, cur)
    rs = evaluate(ctx, mode, cur, [sid], setting)[0]
    d = _first(rs, cls) or _first(res, cls)
    sig = "C02:%s:%s:%s%s" % (ctx.name, "+".join(cmn), cls, setting_suffix(failing))
    note, extra = "", {}
    if cls == "mem" and set(failing) == {(True, False)} and rs.exc is None and \
            all(x[2] == ctx.init_byte(x[4]) for x in rs.diffs if x[0] == "mem"):
        # one defect of the mapper, whatever the instruction and the ISA: with memtrace=False and
        # noaliasing=True a store is kept in the map's own memory only, `state >> map` never sees it
        # (the bytes keep their start value on route A)
        sig = STORE_LOST_SIG
        note = " (store not recorded in the map: lost by `state >> map`)"
    elif rs.exc is None and wraps_address_space(ctx, mode, cur, sid, setting, cls):
        sig = "C02:%s:%s" % (ctx.name, WRAP_SUFFIX)
        note = (" (an access straddles the top of the %d-bit address space: the difference disappears when the state's memory "
                "ends where the address space ends; the memory model has no address width)" % ctx.psize)
        extra = {"culprit": cmn[-1], "wrap_check": "no difference once the memory image is cut at 2^%d" % ctx.psize}
    else:
        # (3) seen through another location: the sequence without its last instruction already differs
        prefix_clean = False
        if len(cur) > 1 and depth < 3:
            prefix = cur[:-1]
            rp = evaluate(ctx, mode, prefix, [sid], setting)[0]
            prefix_clean = rp.exc is None and not rp.diffs and not rp.out_of_scope
            if rp.exc is None and rp.diffs:
                pmn = cmn[:-1]
                for c2 in sorted(set(x[0] for x in rp.diffs)):
                    sig2 = _handle_class(ck, ctx, stats, mode, prefix, pmn, sid, setting, c2, rp, allow_shrink, depth + 1)
                    if sig2 is not None:
                        ctx.sigs.append((tuple(cmn), cls, set(failing), sig2))
                        ck.count("violation-instance-seen-through-another-location." + cls)
                        return sig2
        # (3b) the last instruction alone already differs in this class from another start state: the
        # instructions before it only set up the values it needs
        if len(cur) > 1 and depth < 3:
            for sid2 in range(NSTATES):
                if sid2 == sid:
                    continue
                r1 = evaluate(ctx, mode, cur[-1:], [sid2], setting)[0]
                if r1.exc is None and _first(r1, cls):
                    sig2 = _handle_class(ck, ctx, stats, mode, cur[-1:], cmn[-1:], sid2, setting, cls, r1, allow_shrink, depth + 1)
                    if sig2 is not None:
                        ctx.sigs.append((tuple(cmn), cls, set(failing), sig2))
                        ck.count("violation-instance-of-a-single-instruction-finding." + cls)
                        return sig2
        # (3c) the last instruction has a single-instruction finding of its own in this run (any class):
        # this is that defect in another context (gb `ld (de),a; ldi (hl),a`: LDI's destination bug, seen in af)
        if len(cur) > 1:
            for kmn, kcls, kfail, ksig in ctx.sigs:
                if kmn == (cmn[-1],) and ksig != STORE_LOST_SIG and ksig.startswith("C02:%s:%s:" % (ctx.name, cmn[-1])):
                    ctx.sigs.append((tuple(cmn), cls, set(failing), ksig))
                    stats["signatures"][ksig]["count"] += 1
                    ck.count("violation-instance-of-a-single-instruction-finding." + cls)
                    return ksig
        pcd = [x for x in rs.diffs if x[0] == "pc"]
        armv7_iw = False
        if ctx.name == "armv7" and rs.exc is None:
            # armv7 __check_state: `if address.bit(0) == 1: … fmap[pc_] = fmap(pc_ ^ 1)` is decided in Python,
            # so interworking (clear bit 0 of pc, switch ARM/Thumb in `internals`) only happens when pc is
            # already a constant; every instruction that writes pc shows it, and so do the instructions that
            # follow (their pc offset depends on the instruction-set state)
            if cls == "pc" and pcd and all(x[2] == x[3] | 1 and not x[3] & 1 for x in pcd):
                armv7_iw = True
            else:
                try:
                    conf.Cas.noaliasing, conf.Cas.memtrace = setting
                    m_ = mapper()
                    for i_ in ctx.decode(mode, cur):
                        i_(m_)
                    ia_ = dict(ctx.I.cpu.internals)
                    ins_ = ctx.decode(mode, cur)
                    B_ = ctx.state(sid)
                    for i_ in ins_:
                        i_(B_)
                    armv7_iw = ia_.get("isetstate") != ctx.I.cpu.internals.get("isetstate")
                except _Timeout:
                    raise
                except Exception:
                    pass
        if armv7_iw:
            sig = ARMV7_PC_SIG
            note = " (armv7 interworking decided in Python on a possibly symbolic pc)"
            extra = {"culprit": cmn[-1]}
            w = None
        else:
            # (2) the signedness flag
            w = signedness_world(ctx, mode, cur, sid, setting, cls, d[4], expected=d[3])
        if w is None and sig.startswith("C02:%s:%s:" % (ctx.name, "+".join(cmn))) and len(cur) > 1 and rs.exc is None and \
                split_agrees(ctx, mode, cur, sid, setting, cls, [x[4] for x in rs.diffs if x[0] == cls][:16]):
            sig = family_signature(ctx.name, cmn[-1], cls, REEVAL_SUFFIX)
            note = " (prefix map then last instruction's own map agrees with step by step: the last instruction's semantics go wrong only on top of the symbolic map of the prefix)"
            extra = {"culprit": cmn[-1], "split_check": "(state >> map(prefix)) >> map(last) agrees with step-by-step"}
        if w is None and sig.startswith("C02:%s:%s:" % (ctx.name, "+".join(cmn))) and len(cur) == 2 and cls == "mem" and rs.exc is None:
            # load delay slot (mips): the store computes addr = fmap(base+off), then update_delayed() lands the
            # pending load, then fmap[mem(addr)] evaluates addr again — now with the loaded register
            try:
                ins = ctx.decode(mode, cur)
                m1 = mapper()
                ins[0](m1)
                pend = m1.generation().delayed
                m2 = mapper()
                ins[1](m2)
                if pend is not None and pend[0]._is_reg and pend[0].ref in Ctx.map_inputs(m2):
                    sig = family_signature(ctx.name, cmn[-1], cls, REEVAL_SUFFIX)
                    note = " (the store's address is evaluated again after the pending delayed load of %s has landed)" % pend[0].ref
                    extra = {"culprit": cmn[-1], "delayed_register": pend[0].ref}
            except _Timeout:
                raise
            except Exception:
                pass
        if w is None and sig.startswith("C02:%s:%s:" % (ctx.name, "+".join(cmn))) and len(cur) > 1 and prefix_clean:
            # the routes agree after the prefix, and the last instruction's own map applied to that state does
            # not give what executing it on that state gives: a single-instruction finding, shown from the
            # concrete state that the preceding instructions produce
            sig = "C02:%s:%s:%s%s" % (ctx.name, cmn[-1], cls, setting_suffix(failing))
            note = " (the routes agree up to the last instruction: it is the last instruction alone, from the state the others produce)"
            extra = {"culprit": cmn[-1]}
        if w is not None:
            k = culprit_index(ctx, mode, cur, sid, setting, d[4])
            sig = family_signature(ctx.name, cmn[k], cls, SF_SUFFIX)
            extra = {"signedness_check": "difference disappears when every constant is read as %s" % ("unsigned" if w == "u" else "two's complement"),
                     "culprit": cmn[k]}
            note = " (signedness flag: the two routes agree once every constant is read as %s)" % ("unsigned" if w == "u" else "signed")
    try:
        text = "; ".join(str(i) for i in ctx.decode(mode, cur))
    except Exception:
        text = " ; ".join(cmn)
    what = ("%s%s: `%s` from concrete state #%d (noaliasing=%s, memtrace=%s): %s is 0x%x when the block map is "
            "applied to the state but 0x%x when the instructions run one by one on it [differs under: %s]%s"
            % (ctx.name, "/thumb" if mode else "", text, sid, setting[0], setting[1], d[1], d[2], d[3],
               "all four settings" if len(failing) == 4 else ", ".join(_setting_name(s) for s in failing), note))
    case = {"isa": ctx.name, "mode": mode, "bytes": [b.hex() for b in cur], "mnemonics": cmn,
            "noaliasing": setting[0], "memtrace": setting[1], "state": sid, "location": d[1],
            "failing_settings": [list(s) for s in failing],
            "original_bytes": [b.hex() for b in bss], "original_mnemonics": mn}
    case.update(extra)
    ctx.sigs.append((tuple(cmn), cls, set(failing), sig))
    ent = stats["signatures"].setdefault(sig, {"count": 0, "what": what, "case": case,
                                               "real": "%s = 0x%x" % (d[1], d[2]), "expected": "%s = 0x%x" % (d[1], d[3])})
    ent["count"] += 1
    ck.count("violation-instance." + cls)
    ck.report(sig, what, "oracle", BROKEN, case=case, real="%s = 0x%x" % (d[1], d[2]),
              expected="%s = 0x%x" % (d[1], d[3]), failing_input_found=True)
    return sig


# ---------------------------------------------------------------------------------------------
# driver
# ---------------------------------------------------------------------------------------------

def _limit_address_space():
    """lower RLIMIT_AS to current size + 1.5 GiB; returns the old limits (or None)"""
    try:
        import resource
        old = resource.getrlimit(resource.RLIMIT_AS)
        vm = 0
        with open("/proc/self/statm") as f:
            vm = int(f.read().split()[0]) * os.sysconf("SC_PAGE_SIZE")
        new = vm + (3 << 29)
        if old[0] != resource.RLIM_INFINITY and old[0] <= new:
            return None
        resource.setrlimit(resource.RLIMIT_AS, (new, old[1]))
        return old
    except Exception:
        return None


def _unlimit_address_space(old):
    if old is not None:
        try:
            import resource
            resource.setrlimit(resource.RLIMIT_AS, old)
        except Exception:
            pass


class _Alarm(object):
    """wall-clock guard around a piece of work: SIGALRM raises _Timeout in the main thread; the timer
    repeats, so that a _Timeout swallowed somewhere (a __del__, a bare except) is raised again"""

    def __init__(self):
        self.ok = False
        self.old = None
        self.armed = False
        try:
            self.old = signal.signal(signal.SIGALRM, self._fire)
            self.ok = True
        except Exception:          # not the main thread: no guard
            pass

    def _fire(self, signum, frame):
        if self.armed:
            raise _Timeout()

    def arm(self, seconds):
        if self.ok:
            self.armed = True
            signal.setitimer(signal.ITIMER_REAL, seconds, 0.25)

    def disarm(self):
        # the timer repeats: a signal may arrive while we are here; once `armed` is false the handler is silent
        while self.ok:
            try:
                self.armed = False
                signal.setitimer(signal.ITIMER_REAL, 0)
                return
            except _Timeout:
                continue

    def guarded(self, seconds, fn, *args):
        """fn(*args) under the guard: (True, result), or (False, None) when it timed out.  The repeating
        signal may arrive anywhere — also after fn has returned and before the timer is stopped — so the
        whole arm/run/disarm sequence sits in one loop that swallows late signals."""
        done, res = False, None
        self.arm(seconds)
        while True:
            try:
                if not done:
                    res = fn(*args)
                    done = True
                self.armed = False
                if self.ok:
                    signal.setitimer(signal.ITIMER_REAL, 0)
                return (True, res)
            except _Timeout:
                self.armed = False          # first thing: the repeating timer may fire again at any bytecode
                if done:
                    continue
                while True:
                    try:
                        self.disarm()
                        break
                    except _Timeout:
                        continue
                return (False, None)
            except BaseException:
                self.armed = False
                self.disarm()
                raise

    def close(self):
        self.disarm()
        if self.ok:
            signal.signal(signal.SIGALRM, self.old)


# cheap ISA modules first, slow ones (conditional execution nests tests, large register files, many
# failing cases to shrink) last: the time the cheap ones leave unused rolls over to the others
ORDER = ["v850", "bpf", "dwarf", "eBPF", "wasm", "gb", "z80", "rv32i", "rv64i", "sh2", "sh4", "w65c02", "mips", "mipsLE",
         "tricore", "avr", "ppc32", "e200", "msp430", "armv8", "pic18", "sparc", "x86", "x64", "armv7"]


# share of the remaining budget an ISA gets (default 1): v850's semantics are no-ops (its `_pc` decorator
# never calls the wrapped function), the last ones are slow per evaluation
WEIGHT = {"v850": 0.25, "bpf": 0.5, "msp430": 2.0, "pic18": 2.0, "sparc": 2.5, "x86": 2.0, "x64": 2.0, "armv7": 2.5}


def _new_isa_stats():
    return {"sequences": 0, "evaluations": 0, "nontrivial": 0, "exceptions": {}, "exception_evals": 0,
            "stays_symbolic_evals": 0, "stays_symbolic_locs": 0, "compared_locs": 0, "failing_evals": 0,
            "mem_skipped": 0, "timeouts": 0, "by_length": {}, "mnemonics": 0, "dropped_instructions": {}}


def run(ck, tier, r, budget_s, boundary_budget_s=0.0):
    """boundary_budget_s: part of budget_s reserved for phase 1d (operands / immediates at width boundaries);
    what an ISA does not use of its share rolls over to the ISAs after it"""
    t0 = time.time()
    quick = tier == "quick"
    deadline = t0 + 0.93 * budget_s - 1.0
    b_left = [max(0.0, float(boundary_budget_s))]
    case_timeout = 1.5 if quick else 10.0
    stats = {"per_isa": {}, "signatures": {}, "unshrunk": [], "skipped_isas": {}}
    saved = (conf.Cas.noaliasing, conf.Cas.memtrace)
    oldlim = _limit_address_space()
    alarm = _Alarm()
    sampled = [0]
    try:
        isas, bad = isa.load_all()
        for n, why in bad.items():
            stats["skipped_isas"][n] = "import fails: " + why
        names = []
        for n, _ in isa.CPU_MODULES:
            if n in isas:
                if getattr(isas[n].dis.iclass, "_uarch", None):
                    names.append(n)
                else:
                    stats["skipped_isas"][n] = "no semantics (no uarch)"
        names.sort(key=lambda n: ORDER.index(n) if n in ORDER else -1)
        membank = {e: (_mem_words(r, LOW_N, e), _mem_words(r, HIGH_N, e)) for e in (1, -1)}
        for idx, name in enumerate(names):
            now = time.time()
            if now >= deadline:
                stats["skipped_isas"][name] = "budget used"
                ck.count("isa-skipped(budget)")
                continue
            share = WEIGHT.get(name, 1.0) / sum(WEIGHT.get(n, 1.0) for n in names[idx:])
            b_share = min(b_left[0] * share, max(0.0, deadline - now))
            slice_s = max(0.0, deadline - now - b_left[0]) * share + b_share
            conf.Cas.noaliasing, conf.Cas.memtrace = True, True
            def _setup():
                c = Ctx(name, isas[name], membank)
                c.build_pools(r)
                return c
            try:
                ok, ctx = alarm.guarded(max(20.0, 4 * slice_s), _setup)
            except Exception as ex:
                stats["skipped_isas"][name] = "setup fails: %s: %s" % (type(ex).__name__, ex)
                continue
            if not ok:
                stats["skipped_isas"][name] = "building the spec pools timed out"
                continue
            if not any(any(c.values()) for c, _ in ctx.pools.values()):
                stats["skipped_isas"][name] = "nothing executes (no decodable instruction whose i_MNEMONIC runs)"
                continue
            st = stats["per_isa"][name] = _new_isa_stats()
            st["setup_s"] = round(time.time() - now, 2)
            _run_isa(ck, ctx, st, stats, r, quick, now, slice_s, min(deadline, now + slice_s), alarm, case_timeout, sampled,
                     boundary_s=b_share)
            b_left[0] = max(0.0, b_left[0] - st.get("phase1d_s", 0.0))
            st["mnemonics"] = len(ctx.mnems)
            st["dropped_instructions"] = dict(ctx.dropped)
            st["wall_s"] = round(time.time() - now, 2)
            ck.count("mnemonics-reached.%s" % name, len(ctx.mnems))
            for k, v in ctx.dropped.items():
                ck.count("instruction-not-used(%s)" % k, v)
            ctx.restore(0)
    finally:
        conf.Cas.noaliasing, conf.Cas.memtrace = saved
        alarm.close()
        _unlimit_address_space(oldlim)
    tot = {"sequences": 0, "evaluations": 0, "exception_evals": 0, "stays_symbolic_evals": 0, "failing_evals": 0, "nontrivial": 0}
    for v in stats["per_isa"].values():
        for k in tot:
            tot[k] += v[k]
    stats["total"] = tot
    stats["isas"] = [n for n in names if n in stats["per_isa"]]
    stats["wall_s"] = round(time.time() - t0, 2)
    ck.cov["C02_isa_oracle"] = {"isas": stats["isas"], "skipped": stats["skipped_isas"], "total": tot,
                                "signatures": sorted(stats["signatures"]), "unshrunk": len(stats["unshrunk"])}
    return stats


def _run_isa(ck, ctx, st, stats, r, quick, start, slice_s, slice_end, alarm, case_timeout, sampled, boundary_s=0.0):
    name = ctx.name
    shrink_t = [0.0]
    maxlen = [8]

    def allow_shrink():
        return (not quick) or shrink_t[0] < 0.6 * slice_s

    def one_sequence(mode, bss, nseq, sids=None):
        try:
            mn = mnemonics(ctx, mode, bss)
        except Exception:
            mn = ["?"]
        if "?" in mn:
            ck.count("sequence-dropped(decodes differently the second time)")
            return False
        st["sequences"] += 1
        st["by_length"][len(bss)] = st["by_length"].get(len(bss), 0) + 1
        ck.count("isa.%s" % name)
        ck.count("length.%d" % len(bss))
        ctx.mnems.update(mn)
        if sids is None:
            sids = r.choice([[0, 1], [0, 2], [1, 2]])
            if quick and len(ctx.regs) > 200:
                sids = [sids[nseq % 2]]             # very large register files (sparc): one state per sequence in the quick tier
        settings = [SETTINGS[nseq % 4]] if quick else SETTINGS
        for setting in settings:
            ok, results = alarm.guarded(case_timeout, evaluate, ctx, mode, bss, sids, setting)
            if not ok:
                st["timeouts"] += 1
                ck.count("timeout")
                if len(bss) > 2 and maxlen[0] >= len(bss):
                    maxlen[0] = len(bss) - 1            # this ISA's maps explode: shorter sequences from now on
                    ck.count("length-capped-after-timeout.%s" % name)
                continue
            for res, sid in zip(results, sids):
                st["evaluations"] += 1
                ck.count("setting.%s" % _setting_name(setting))
                fp = (name, mode, tuple(bss), sid, setting)
                if res.exc is not None:
                    k = "%s:%s" % (res.exc[0], res.exc[1])
                    st["exceptions"][k] = st["exceptions"].get(k, 0) + 1
                    st["exception_evals"] += 1
                    ck.count("exception.%s" % res.exc[1])
                    ck.case(fp, nontrivial=False)
                    continue
                ck.case(fp, nontrivial=res.nontrivial)
                st["nontrivial"] += bool(res.nontrivial)
                st["compared_locs"] += res.ncmp
                nsym = res.nsym_reg + res.nsym_mem
                if nsym:
                    st["stays_symbolic_evals"] += 1
                    st["stays_symbolic_locs"] += nsym
                    ck.count("stays-symbolic-on-route-A")
                if res.bsym:
                    ck.count("symbolic-on-route-B")
                if res.memskip:
                    st["mem_skipped"] += 1
                    ck.count("memory-not-compared(%s)" % res.memskip)
                if res.unmapped:
                    ck.count("memory-unmapped-on-one-route")
                if res.out_of_scope:
                    st["out_of_scope"] = st.get("out_of_scope", 0) + 1
                    ck.count("difference-out-of-scope(noaliasing=True and distinct pointers overlap in the state)")
                if sampled[0] < 3 and res.nontrivial and not res.diffs and len(bss) > 1 and st["sequences"] > 40 + 25 * sampled[0]:
                    sampled[0] += 1
                    ck.sample({"C02-isa-oracle": name, "bytes": [b.hex() for b in bss], "mnemonics": mn, "state": sid,
                               "setting": _setting_name(setting), "compared": res.ncmp, "stays_symbolic": nsym})
                if res.diffs:
                    st["failing_evals"] += 1
                    ts = time.time()
                    ok, _ = alarm.guarded(12 * case_timeout, handle_failure, ck, ctx, stats, mode, bss, sid, setting, res, allow_shrink)
                    if not ok:
                        st["timeouts"] += 1
                        ck.count("timeout(shrinking)")
                    shrink_t[0] += time.time() - ts
        return True

    nseq = 0
    # phase 1d (runs first, on its own budget `boundary_s`): operands and immediates at the boundaries of the
    # operand widths.  Every spec of a mnemonic whose semantics (or decoded operands) hold a shift / rotate operator:
    # a sample (registers only when possible), its immediate positions found by decoding (Ctx.immediate_mutants),
    # every immediate set to 0, 1, width-1, width, width+1, 31, all-ones for the widths of its operands, each such
    # instruction alone from the boundary states (sign bit of every sub-width set / all-ones / mixed with shift
    # counts …, see BOUNDARY_SIDS).  Specs without an immediate (register counts) run as sampled from the boundary
    # states, and short chains of the instructions used so far (a shifted value feeds the next shift) close the phase.
    if boundary_s > 0:
        tb0 = time.time()
        tb_end = tb0 + boundary_s
        rb = rng("C02-isa-boundary-" + name)
        btodo = []
        for mode in ctx.modes:
            sh = ctx.shifty.get(mode, set())
            for mnem, _, sp in ctx.usable.get(mode, []):
                if mnem in sh:
                    btodo.append((mode, mnem, sp))
        rb.shuffle(btodo)
        ck.count("phase1d-shift-specs.%s" % name, len(btodo))
        later, later2, pool, kk, nq = [], [], [], [0], [nseq]
        pfx_seen = {}

        def bsids(mem=False, imm=False):
            # one of the two uniform states (all sign bits / all-ones) and one mixed state; thorough: all.
            # An instruction with a memory operand runs from the ordinary states too (their registers point into
            # the windows, whose bytes are arbitrary)
            if not quick:
                return list(BOUNDARY_SIDS) + (list(range(NSTATES)) if mem else [])
            if mem:
                return [kk[0] % NSTATES, 3 + kk[0] % 2]
            if imm:
                # quick, an immediate at a boundary value: one uniform state, every fourth time a mixed one as well
                return [3 + kk[0] % 2] + ([5 + (kk[0] // 4) % 4] if kk[0] % 4 == 3 else [])
            return [3 + kk[0] % 2, 5 + kk[0] % 4]

        def run_mutants(mode, muts, widths, reserve, mem=False):
            wmin = min(widths)
            for mb, pos, v, feeds in muts:
                if time.time() >= tb_end - reserve * boundary_s:
                    break
                if ctx._runs_alone(mode, mb) is None:
                    ck.count("phase1d-mutant-dropped(raises or does not decode)")
                    continue
                ck.count("phase1d-immediate.%s" % ("0" if v == 0 else "1" if v == 1 else "width-1" if v == wmin - 1 else "width" if v == wmin
                                                   else "width+1" if v == wmin + 1 else "31" if v == 31 else "other-width-or-all-ones"))
                ck.count("phase1d-operand-width.%d" % wmin)
                nq[0] += 1
                kk[0] += 1
                one_sequence(mode, [mb], nq[0], sids=bsids(mem, True))
                if feeds and not mem and len(pool) < 64:
                    pool.append((mode, mb))
        for mode, mnem, sp in btodo:
            if time.time() >= tb_end - 0.25 * boundary_s:
                ck.count("phase1d-cut(budget).%s" % name)
                break
            try:
                ok, g = alarm.guarded(case_timeout, ctx.immediate_mutants, mode, sp, rb, 5 if quick else None)
            except Exception:
                ok, g = True, None
            if not ok or g is None:
                ck.count("phase1d-no-sample")
                continue
            bs, muts, widths, mem = g
            if not muts:
                later.append((mode, bs, mem))
                continue
            if not any(x[3] for x in muts):
                # immediates that are not shift counts (add eax, imm: the shifts are in the flags): after the others
                later2.append((mode, muts[:3 if quick else None], widths, mem))
                continue
            ck.count("phase1d-specs-with-immediate-shift-count.%s" % name)
            if mem:
                ck.count("phase1d-sample-with-memory-operand")
            run_mutants(mode, muts, widths, 0.25, mem)
            # the same spec behind each prefix that changes the widths of the operands (x86: 16-bit forms)
            # (a prefix tried on three specs without ever changing the widths is not tried again)
            pf = [x for x in ctx.pools[mode][1] if pfx_seen.get(id(x), [0, 0])[1] or pfx_seen.get(id(x), [0, 0])[0] < 3]
            rb.shuffle(pf)
            for p_ in pf:
                if time.time() >= tb_end - 0.25 * boundary_s:
                    break
                pfx_seen.setdefault(id(p_), [0, 0])[0] += 1
                try:
                    ok, g2 = alarm.guarded(case_timeout, ctx.immediate_mutants, mode, sp, rb, 5 if quick else None, p_, 5)
                except Exception:
                    ok, g2 = True, None
                if ok and g2 is not None and g2[1] and g2[2] != widths and any(x[3] for x in g2[1]):
                    ck.count("phase1d-prefixed-variant-with-other-widths.%s" % name)
                    pfx_seen[id(p_)][1] += 1
                    run_mutants(mode, g2[1], g2[2], 0.25, g2[3])
        for mode, bs, mem in later:
            if time.time() >= tb_end - 0.15 * boundary_s:
                ck.count("phase1d-cut(budget).%s" % name)
                break
            ck.count("phase1d-register-count-or-no-immediate.%s" % name)
            nq[0] += 1
            kk[0] += 1
            one_sequence(mode, [bs], nq[0], sids=bsids(mem))
            if not mem and len(pool) < 96:
                pool.append((mode, bs))
        nchain = 0
        while pool and time.time() < tb_end - 0.08 * boundary_s and nchain < (12 if quick else 400):
            mode = rb.choice(pool)[0]
            cand = [b for m_, b in pool if m_ == mode]
            seq = [rb.choice(cand) for _ in range(rb.choice([2, 2, 3, 4]))]
            ck.count("phase1d-chain.len%d" % len(seq))
            nq[0] += 1
            kk[0] += 1
            nchain += 1
            one_sequence(mode, seq, nq[0], sids=bsids())
        for mode, muts, widths, mem in later2:
            if time.time() >= tb_end:
                ck.count("phase1d-cut(budget).%s" % name)
                break
            ck.count("phase1d-specs-with-other-immediate.%s" % name)
            run_mutants(mode, muts, widths, 0.0, mem)
        nseq = nq[0]
        st["phase1d_sequences"] = st["sequences"]
        st["phase1d_s"] = round(time.time() - tb0, 2)
        # the other phases split what is left of the slice
        start = time.time()
        slice_s = max(0.1, slice_end - start)
    _p1d = st.get("phase1d_sequences", 0)
    # phase 1c: dependency-dense sequences.  Every mnemonic with semantics is the LAST instruction of a sequence
    # whose first instructions copy a register b into one of its operand registers a and then overwrite b
    # (Ctx.gen_dep), so that b means two things in the block: semantics that push an operand through the map
    # twice (`src = fmap(op); … fmap(f(src))`), or evaluate it in the wrong map, only go wrong on such blocks.
    # One sequence treats all operand registers of its last instruction (up to 4) at once.  thorough: every
    # spec, three rounds; quick: one spec per mnemonic in a seeded order, one state and one setting per
    # sequence, a second round if the slice allows.  This phase runs first: it has the first claim on the budget.
    dep_todo = []
    for mode in ctx.modes:
        bym = {}
        for mnem, _, sp in ctx.usable.get(mode, []):
            bym.setdefault(mnem, []).append(sp)
        for mnem in sorted(bym):
            if quick:
                dep_todo.append((mode, mnem, bym[mnem]))
            else:
                dep_todo += [(mode, mnem, [sp]) for sp in bym[mnem]]
    r.shuffle(dep_todo)
    dep_last = set()
    k0 = r.randrange(4)
    for rnd in range(5 if quick else 3):
        cut = False
        # quick: rounds over all mnemonics (another spec, other registers and values each time) until 70% of the
        # slice is used: this phase has the first claim on the budget
        limit = 0.7 if quick else 0.45
        for mode, mnem, sps in dep_todo:
            if time.time() >= start + limit * slice_s:
                ck.count("phase1c-cut(budget).%s.round%d" % (name, rnd))
                cut = True
                break
            g = ctx.gen_dep(mode, sps[rnd % len(sps)] if quick else sps[0], r, k0 + rnd,
                            maxops=max(1, min(4, (maxlen[0] - 1) // 2)))
            if g is None:
                ck.count("phase1c-no-dependent-sequence")
                continue
            seq, a, how = g
            nseq += 1
            ck.count("phase1c.%s" % how)
            if one_sequence(mode, seq, nseq, sids=[nseq % NSTATES] if quick else None):
                dep_last.add((mode, mnem))
        if cut:
            break
        ck.count("phase1c-rounds-completed.%s" % name)
    st["phase1c_sequences"] = st["sequences"] - _p1d
    st["phase1c_mnemonics_last"] = len(dep_last)
    st["phase1c_mnemonics_total"] = len(set((m, x) for m, x, _ in dep_todo))
    ck.count("phase1c-mnemonics-as-last-instruction.%s" % name, len(dep_last))
    # phase 1: single instructions from all three states — every load/store spec, and one spec of every other
    # mnemonic (thorough: every spec) — so that the set of single-instruction findings does not depend on
    # the seed; capped in the quick tier
    todo = []
    for mode in ctx.modes:
        specs = list(ctx.pools[mode][0]["mem"])
        if quick and len(specs) > 80:
            specs = r.sample(specs, 80)
        have = set(id(x) for x in specs)
        others, seen = [], set()
        for mnem, _, sp in sorted(ctx.usable.get(mode, []), key=lambda x: (x[0], x[1])):
            if id(sp) in have or (quick and mnem in seen):
                continue
            seen.add(mnem)
            others.append(sp)
        if quick and len(others) > 120:
            others = r.sample(others, 120)
        todo += [(mode, sp) for sp in specs + others]
    for mode, sp in todo:
        if time.time() >= start + 0.85 * slice_s:
            ck.count("phase1-cut(budget).%s" % name)
            break
        got = None
        for _ in range(3):
            got = ctx.sample_spec(mode, sp, r)
            if got is not None:
                break
        if got is None:
            continue
        nseq += 1
        one_sequence(mode, [got[0]], nseq, sids=list(range(NSTATES)))
    st["phase1_sequences"] = st["sequences"] - st["phase1c_sequences"] - _p1d
    # phase 1b: for every mnemonic (quick: one spec per mnemonic, capped; thorough: every spec) a directed pair
    # [X, Y] where X writes a register that Y reads: finds, whatever the seed, the semantics that evaluate an
    # operand twice or otherwise depend on the symbolic map they are built on
    todo = []
    for mode in ctx.modes:
        us = sorted(ctx.usable.get(mode, []), key=lambda x: (x[0], x[1]))
        if quick:
            seen, one = set(), []
            for mnem, _, sp in us:
                if mnem not in seen:
                    seen.add(mnem)
                    one.append((mnem, sp))
            if len(one) > 110:
                one = r.sample(one, 110)
            todo += [(mode, sp) for _, sp in one] * max(1, min(3, 110 // max(1, len(one))))
        else:
            todo += [(mode, sp) for _, _, sp in us]
    for mode, sp in todo:
        if time.time() >= start + 0.93 * slice_s:
            ck.count("phase1b-cut(budget).%s" % name)
            break
        bss = ctx.gen_pair(mode, sp, r)
        if bss is None:
            ck.count("phase1b-no-pair")
            continue
        nseq += 1
        one_sequence(mode, bss, nseq)
    st["phase1b_sequences"] = st["sequences"] - st["phase1_sequences"] - st["phase1c_sequences"] - _p1d
    # phase 2: random sequences
    cap = nseq + (80 if quick else 10 ** 9)
    while nseq < cap and time.time() < slice_end:
        L = min(r.choice([1, 2, 2, 3, 3, 4, 4, 5, 6, 7, 8]), maxlen[0])
        mode = r.choice(ctx.modes) if (len(ctx.modes) > 1 and r.random() < 0.35) else 0
        bss = ctx.gen_sequence(mode, L, r)
        if bss is None:
            break
        nseq += 1
        one_sequence(mode, bss, nseq)
    st["shrink_s"] = round(shrink_t[0], 2)


if __name__ == "__main__":
    import json as _json
    tier = sys.argv[1] if len(sys.argv) > 1 else "quick"
    budget = float(sys.argv[2]) if len(sys.argv) > 2 else (70.0 if tier == "quick" else 900.0)
    bbudget = float(sys.argv[3]) if len(sys.argv) > 3 else 0.17 * budget
    ck = Check("C02", tier)
    _rd = os.environ.get("MAP_ISA_REPLAYS", "/tmp/map/isa/replays")     # standalone: keep /verif/replays clean
    os.makedirs(_rd, exist_ok=True)
    _n = [0]

    def _replay_path():
        _n[0] += 1
        return os.path.join(_rd, "C02-%d-%d.json" % (seed(), _n[0]))
    ck.replay_path = _replay_path
    stats = run(ck, tier, rng("C02-isa"), budget, bbudget)
    print("%-8s %5s %6s %6s %6s %6s %6s %5s  %s" % ("isa", "seqs", "evals", "nontr", "exc", "symb", "fail", "mnem", "exceptions"))
    for n in stats["isas"]:
        v = stats["per_isa"][n]
        print("%-8s %5d %6d %6d %6d %6d %6d %5d  %s  [setup %.1fs shrink %.1fs wall %.1fs]" % (
            n, v["sequences"], v["evaluations"], v["nontrivial"], v["exception_evals"], v["stays_symbolic_evals"],
            v["failing_evals"], v["mnemonics"], v["exceptions"], v.get("setup_s", 0), v.get("shrink_s", 0), v.get("wall_s", 0)))
    print("skipped:", stats["skipped_isas"])
    print("total:", stats["total"], "wall %.1fs" % stats["wall_s"], "cases", ck.evaluations, "distinct non-trivial", len(ck.distinct))
    for sig, what in sorted(ck.known_hit.items()):
        print("KNOWN-FINDING: %s [%s]" % (what, sig))
    for v in ck.violations:
        print("VIOLATION %s\n    %s\n    replay=%s" % (v["signature"], v["what"], v["replay"]))
    print("signature instance counts:", {k: v["count"] for k, v in sorted(stats["signatures"].items())})
    if stats["unshrunk"]:
        print("failures not shrunk:", len(stats["unshrunk"]), stats["unshrunk"][:3])
    out = os.environ.get("MAP_ISA_OUT")
    if out:
        with open(out, "w") as f:
            _json.dump({"seed": seed(), "tier": tier, "stats": stats, "counts": ck.counts}, f, indent=1, default=repr)
