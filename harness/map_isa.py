"""
map_isa.py — ISA-level, model-independent oracle of property C02
("Symbolic block map agrees with step-by-step concrete execution").

For every ISA module of isa.CPU_MODULES that imports and has semantics, for the four settings of
(conf.Cas.noaliasing, conf.Cas.memtrace), for spec-directed instruction sequences of length 1..8 and
a couple of fully concrete start states (all registers constant, two windows of raw bytes in memory):

  route A ("symbolic once"):  m = mapper(); for i in instrs: i(m);   A = concrete >> m
  route B ("step by step"):   B = the same concrete state, built again;  for i in instrs: i(B)

and the final value of every register and of every memory byte is compared.  Only "both routes give a
constant and the constants differ" is a violation; a value that stays symbolic on route A is accepted
(counted), an exception on either route is counted per class and the case is dropped (C01/C17 business).
Failing sequences are shrunk and reported with a narrow signature
      C02:<isa>:<mnemonics of the shrunk sequence joined by +>:<reg|flags|pc|mem>[:<setting suffix>]

Nothing here depends on the Lean model: the only things trusted are amoco's own public API
(mapper.__setitem__/__getitem__, `>>`, MemoryMap.write/read) used to build/read concrete states.

Precautions against false alarms
  * states are rebuilt from scratch for each route (no deepcopy), instructions are decoded again for each
    route, routes run in a fixed order (A map, then per state: A composition, B);
  * before every decode/route the process-global expression objects of the ISA (registers, slices …:
    their `sf`/`size`, mutated by some semantics — a C10 defect) and the `internals` dictionaries
    (arm isetstate/itstate/endianstate, x86 mode …) are put back to their import-time values;
  * every instruction gets `i.address` (consecutive from 0x1000, the value of the pc register in the state);
  * pending delayed register writes (mips load delay: mapper.delayed) are flushed with update_delayed()
    at the end of both routes;
  * values are compared by `.v` masked to the size, never by str;
  * when either final memory holds stores at symbolic addresses (zones other than the concrete one) the
    memory comparison is skipped for that case (aliasing is then outside what the raw zone can tell);
  * memory never mapped on route A ("bottom") versus a constant on route B is counted, not flagged;
  * the address-space limit of the process is lowered during the run (amoco computes `cst << n` on
    Python integers: a shift by a loaded 2^33 would allocate gigabytes) and restored afterwards; such
    cases end as MemoryError = an exception on a route = dropped.
"""
import sys, os, time, signal
from common import *
import isa, c10
from amoco.config import conf
from amoco.cas.expressions import exp, cst, reg, regtype, locations_of
from amoco.cas.mapper import mapper
from amoco.arch import core as acore

BROKEN = "C02 uniformity of ISA semantics / block map vs step-by-step"
SETTINGS = [(True, True), (True, False), (False, True), (False, False)]     # (noaliasing, memtrace)
LOW_N = 0x20000          # window 1: addresses [0, LOW_N)
HIGH_N = 0x10000         # window 2: the top HIGH_N bytes of the address space (negative displacements)
BASE_ADDR = 0x1000       # address of the first instruction = value of the pc register
NSTATES = 3
UNMAPPED = -1
CASE_TIMEOUT = 8.0       # seconds; a (sequence,setting) evaluation taking longer is dropped


class _Timeout(BaseException):
    pass


def _setting_name(s):
    return "noaliasing=%s,memtrace=%s" % (s[0], s[1])


def setting_suffix(failing):
    """'' when the difference shows under all four settings, otherwise the narrowest description"""
    f = set(failing)
    if f == set(SETTINGS):
        return ""
    for k, nm in ((1, "memtrace"), (0, "noaliasing")):
        for val in (False, True):
            if f == set(s for s in SETTINGS if s[k] == val):
                return ":%s=%s" % (nm, val)
    if len(f) == 1:
        return ":" + _setting_name(list(f)[0])
    return ":settings=" + "+".join("%s%s" % ("T" if s[0] else "F", "T" if s[1] else "F") for s in SETTINGS if s in f)


def reg_class(r_):
    if r_.etype & regtype.PC:
        return "pc"
    if r_.etype & regtype.FLAGS:
        return "flags"
    return "reg"


def _mem_words(r, nbytes, e):
    """window content: half of the aligned 32-bit words are arbitrary, half are small (<= 0xFFFF in the
    ISA's byte order: pointers back into the window, usable shift amounts)"""
    out = bytearray(r.getrandbits(8 * nbytes).to_bytes(nbytes, "little"))
    sel = r.getrandbits(nbytes // 4)
    z = (2, 4) if e == 1 else (0, 2)
    for k in range(nbytes // 4):
        if (sel >> k) & 1:
            out[4 * k + z[0]: 4 * k + z[1]] = b"\0\0"
    return bytes(out)


class Ctx(object):
    """one ISA: registers, global objects to restore, windows, spec pools"""

    def __init__(self, name, I, membank):
        self.name, self.I = name, I
        objs, ints = c10.global_objects(I)
        self.gobjs = [(o, o.sf, o.size) for _, o in objs]
        self.ints = [(v, dict(v)) for _, v in ints]
        seen, regs = set(), []
        for _, o in objs:
            # every register object reachable from the cpu module (c10.registers only keeps those first
            # reached by a plain module-level name: it misses eax/eflags/…, first reached as `ah.x`)
            if type(o) is reg and o.size > 0 and o.ref not in seen:
                seen.add(o.ref)
                regs.append(o)
        self.regs = regs
        self.uarch = I.dis.iclass._uarch
        self.e = -1 if I.be else 1
        try:
            self.pcsize = I.cpu.PC().size
        except Exception:
            self.pcsize = 32
        st = [o.size for o in regs if o.etype & regtype.STACK] or [o.size for o in regs if o.etype & regtype.PC]
        if st:
            self.psize = max(st)
        else:
            sizes = [o.size for o in regs]
            self.psize = max(set(sizes), key=sizes.count) if sizes else 32
        self.low = membank[self.e][0]
        self.windows = [(0, self.low)]
        if self.psize >= 24:
            self.windows.append(((1 << self.psize) - HIGH_N, membank[self.e][1]))
        self.modes = list(range(I.nsets)) if name == "armv7" else [0]
        self.pools = {}
        self.sigs = []          # shrunk failures already seen: (mnemonics tuple, class, failing settings)
        self.mnems = set()

    # -- process-global state ---------------------------------------------------------------
    def restore(self, mode=0):
        for o, sf, size in self.gobjs:
            if o.sf != sf:
                o.sf = sf
            if o.size != size:
                o.size = size
        for d, base in self.ints:
            if d != base:
                d.clear()
                d.update(base)
        self.I.set_mode(mode)
        isa.reset(self.I.dis)

    # -- decoding -------------------------------------------------------------------------------
    def decode(self, mode, bss):
        self.restore(mode)
        out, addr = [], BASE_ADDR
        for bs in bss:
            isa.reset(self.I.dis)
            i = self.I.dis(bs)
            if i is None:
                return None
            i.address = cst(addr, self.pcsize)
            addr += len(i.bytes)
            out.append(i)
        self.restore(mode)
        return out

    def build_pools(self, r):
        """per mode: specs by category, learnt from one to three spec-directed samples each"""
        for mode in self.modes:
            cats = {"dp": [], "mem": [], "cf": [], "other": []}
            pfx = []
            try:
                specs = isa.module_specs(self.I, mode)
            except Exception:
                specs = isa.flatten(self.I.dis.specs[mode])
            for s in specs:
                if s.pfx is True:
                    pfx.append(s)
                    continue
                for _ in range(3):
                    got = self.sample_spec(mode, s, r)
                    if got is None:
                        continue
                    bs, i = got
                    cat = {acore.type_data_processing: "dp", acore.type_control_flow: "cf"}.get(i.type, "other")
                    if cat != "cf":
                        try:
                            self.restore(mode)
                            m = mapper()
                            i(m)
                            for loc, v in m:
                                if loc._is_ptr or any(x._is_mem for x in locations_of(v)):
                                    cat = "mem"
                        except BaseException as ex:
                            if isinstance(ex, (KeyboardInterrupt, _Timeout)):
                                raise
                    cats[cat].append(s)
                    break
            self.pools[mode] = (cats, pfx)
        self.restore(0)

    def sample_spec(self, mode, s, r, pfx=None):
        """fresh spec-directed bytes of spec s that decode to an instruction with semantics"""
        try:
            bs = isa.directed_bytes(s, self.e, r)
            if pfx is not None:
                bs = isa.directed_bytes(pfx, self.e, r, tail=0) + bs
            self.restore(mode)
            i = self.I.dis(bs)
        except BaseException as ex:
            if isinstance(ex, (KeyboardInterrupt, _Timeout)):
                raise
            return None
        if i is None or ("i_%s" % i.mnemonic) not in self.uarch:
            return None
        return bytes(bs[:len(i.bytes)]), i

    def gen_sequence(self, mode, n, r):
        cats, pfx = self.pools[mode]
        avail = [(c, w) for c, w in (("dp", 55), ("mem", 25), ("cf", 8), ("other", 12)) if cats[c]]
        if not avail:
            return None
        out = []
        tries = 0
        while len(out) < n and tries < 12 * n:
            tries += 1
            c = r.choices([a[0] for a in avail], [a[1] for a in avail])[0]
            s = r.choice(cats[c])
            p = r.choice(pfx) if (pfx and r.random() < 0.08) else None
            got = self.sample_spec(mode, s, r, p)
            if got is None:
                continue
            out.append(got[0])
        return out or None

    # -- concrete states ------------------------------------------------------------------------
    def regval(self, j, r_, sid):
        if r_.etype & regtype.PC:
            v = BASE_ADDR
        elif r_.ref.lower() in ("npc", "pc'"):
            v = BASE_ADDR + 4
        elif sid == 0:
            v = (j * 37 + 11) & 0xFF                 # small: shift amounts, low window
        elif sid == 1:
            v = 0xFFFF - 3 * j                       # top of 16 bits: negative 16-bit displacements stay inside
        else:
            v = (0x2468 + 0x0135 * j) & 0x7FFF       # middle of the low window
        return v & ((1 << r_.size) - 1)

    def state(self, sid):
        m = mapper()
        for j, r_ in enumerate(self.regs):
            try:
                m[r_] = cst(self.regval(j, r_, sid), r_.size)
            except Exception:
                pass
        mm = m.mmap
        for a, data in self.windows:
            mm.write(a, data)
        return m

    def init_byte(self, addr):
        for a, data in self.windows:
            if a <= addr < a + len(data):
                return data[addr - a]
        return UNMAPPED


# ---------------------------------------------------------------------------------------------
# reading final states
# ---------------------------------------------------------------------------------------------

def reg_values(ctx, st):
    """list of constants (int) or None (not a constant) for ctx.regs"""
    out = []
    for r_ in ctx.regs:
        v = st[r_]
        out.append((v.v & ((1 << r_.size) - 1)) if v._is_cst else None)
    return out


def mem_image(mm):
    """concrete chunks [(addr, bytes)], symbolic chunks [(addr, n)] of the concrete-address zone and
    whether other (symbolic-base) zones hold anything"""
    z = mm._zones[None]
    conc, sym = [], []
    # one read per memory object of the zone (a single read over the whole range would have to return the
    # gap between the two windows as one "bottom" of 2^64 bytes, whose len() overflows)
    for o in list(z._map):
        a = o.vaddr
        for p in mm.read(a, len(o.data)):
            if isinstance(p, (bytes, bytearray)):
                conc.append((a, bytes(p)))
                a += len(p)
            else:
                n = p.size // 8
                if p._is_def:
                    sym.append((a, n))
                a += n
    other = any(k is not None and zz._map for k, zz in mm._zones.items())
    return conc, sym, other


def _diffpos(x, y):
    out = []
    n = len(x)
    for b0 in range(0, n, 2048):
        if x[b0:b0 + 2048] != y[b0:b0 + 2048]:
            for k in range(b0, min(b0 + 2048, n)):
                if x[k] != y[k]:
                    out.append(k)
    return out


def mem_delta(ctx, img):
    """addr -> byte value | None (symbolic) for every byte that differs from the start state (inside the
    windows) or lies outside of them"""
    d = {}
    conc, sym, _ = img
    for a, data in conc:
        end = a + len(data)
        covered = []
        for w0, init in ctx.windows:
            s, t = max(a, w0), min(end, w0 + len(init))
            if s < t:
                covered.append((s, t))
                x, y = data[s - a:t - a], init[s - w0:t - w0]
                if x != y:
                    for k in _diffpos(x, y):
                        d[s + k] = x[k]
        pos = a
        for s, t in sorted(covered) + [(end, end)]:
            for k in range(pos, min(s, pos + 256)):
                d[k] = data[k - a]
            pos = max(pos, t)
    for a, n in sym:
        for k in range(min(n, 4096)):
            d[a + k] = None
    return d


class Res(object):
    __slots__ = ("exc", "diffs", "nsym_reg", "nsym_mem", "ncmp", "nontrivial", "bsym", "memskip", "unmapped")

    def __init__(self):
        self.exc = None          # (route, exception class name, message)
        self.diffs = []          # (class, location name, route A value, route B value)
        self.nsym_reg = self.nsym_mem = self.ncmp = self.bsym = self.unmapped = 0
        self.nontrivial = False
        self.memskip = None


def _exc(route, ex):
    return (route, type(ex).__name__, str(ex)[:120])


def evaluate(ctx, mode, bss, sids, setting):
    """run both routes for one sequence under one setting from the states `sids`; returns [Res]"""
    conf.Cas.noaliasing, conf.Cas.memtrace = setting
    out = [Res() for _ in sids]
    # route A, symbolic part (does not depend on the state)
    try:
        ins = ctx.decode(mode, bss)
        if ins is None:
            raise acore.DecodeError("sequence does not decode again")
        m = mapper()
        for i in ins:
            i(m)
        m.update_delayed()
    except Exception as ex:
        for res in out:
            res.exc = _exc("A", ex)
        return out
    for res, sid in zip(out, sids):
        try:
            ctx.restore(mode)
            C = ctx.state(sid)
            init_regs = reg_values(ctx, C)
            A = C >> m
            ra = reg_values(ctx, A)
            ia = mem_image(A.mmap)
        except Exception as ex:
            res.exc = _exc("A", ex)
            continue
        try:
            ins = ctx.decode(mode, bss)
            B = ctx.state(sid)
            for i in ins:
                i(B)
            B.update_delayed()
            rb = reg_values(ctx, B)
            ib = mem_image(B.mmap)
        except Exception as ex:
            res.exc = _exc("B", ex)
            continue
        for r_, a, b, v0 in zip(ctx.regs, ra, rb, init_regs):
            if b != v0 and not (r_.etype & regtype.PC):
                res.nontrivial = True
            if b is None:
                res.bsym += 1
            elif a is None:
                res.nsym_reg += 1
            else:
                res.ncmp += 1
                if a != b:
                    res.diffs.append((reg_class(r_), r_.ref, a, b))
        db = mem_delta(ctx, ib)
        if db:
            res.nontrivial = True
        if ia[2] or ib[2]:
            res.memskip = "symbolic-zone-on-" + ("A" if ia[2] else "B")
            continue
        da = mem_delta(ctx, ia)
        for addr in sorted(set(da) | set(db)):
            a = da[addr] if addr in da else ctx.init_byte(addr)
            b = db[addr] if addr in db else ctx.init_byte(addr)
            if b is None:
                res.bsym += 1
            elif a is None:
                res.nsym_mem += 1
            elif a == UNMAPPED or b == UNMAPPED:
                if a != b:
                    res.unmapped += 1
            else:
                res.ncmp += 1
                if a != b:
                    res.diffs.append(("mem", "M8[0x%x]" % addr, a, b))
    return out


# ---------------------------------------------------------------------------------------------
# shrinking and reporting
# ---------------------------------------------------------------------------------------------

def _first(res, cls):
    if res.exc is not None:
        return None
    for d in res.diffs:
        if d[0] == cls:
            return d
    return None


def fails(ctx, mode, bss, sid, setting, cls):
    if not bss:
        return None
    return _first(evaluate(ctx, mode, bss, [sid], setting)[0], cls)


def mnemonics(ctx, mode, bss):
    ins = ctx.decode(mode, bss)
    return [i.mnemonic for i in ins] if ins else ["?"] * len(bss)


def shrink(ctx, mode, bss, sid, setting, cls):
    cur = list(bss)
    if len(cur) > 1:
        for k in range(len(cur)):
            if fails(ctx, mode, [cur[k]], sid, setting, cls):
                cur = [cur[k]]
                break
    changed = True
    while changed and len(cur) > 1:
        changed = False
        for k in range(len(cur)):
            cand = cur[:k] + cur[k + 1:]
            if fails(ctx, mode, cand, sid, setting, cls):
                cur, changed = cand, True
                break
    failing = [s for s in SETTINGS if s == setting or fails(ctx, mode, cur, sid, s, cls)]
    return cur, failing


def explained(ctx, mode, bss, mn, sid, setting, cls):
    """is this failure one of the shrunk failures already seen on this ISA?  (verified by deleting the
    instructions of the known signature: the difference must disappear); returns the signature or None
    and the remaining sequence to shrink"""
    cur, curmn = list(bss), list(mn)
    for kmn, kcls, kfail, sig in ctx.sigs:
        if kcls != cls or setting not in kfail:
            continue
        it = iter(curmn)
        if not all(x in it for x in kmn):            # subsequence test
            continue
        keep = [k for k in range(len(cur)) if curmn[k] not in kmn]
        cand = [cur[k] for k in keep]
        if not cand or not fails(ctx, mode, cand, sid, setting, cls):
            return sig, None
        cur, curmn = cand, [curmn[k] for k in keep]
    return None, cur


def handle_failure(ck, ctx, stats, mode, bss, sid, setting, res, allow_shrink):
    mn = mnemonics(ctx, mode, bss)
    for cls in sorted(set(d[0] for d in res.diffs)):
        sig, rest = explained(ctx, mode, bss, mn, sid, setting, cls)
        if sig is not None:
            stats["signatures"][sig]["count"] += 1
            ck.count("violation-instance." + cls)
            continue
        if not allow_shrink():
            ck.count("failure-not-shrunk(budget)")
            stats["unshrunk"].append({"isa": ctx.name, "bytes": [b.hex() for b in bss], "mnemonics": mn, "class": cls,
                                      "noaliasing": setting[0], "memtrace": setting[1], "state": sid})
            continue
        if not fails(ctx, mode, rest, sid, setting, cls):
            # the difference is not reproducible on re-evaluation (should not happen: everything is rebuilt)
            ck.count("failure-not-reproducible")
            stats["unshrunk"].append({"isa": ctx.name, "bytes": [b.hex() for b in bss], "mnemonics": mn, "class": cls,
                                      "noaliasing": setting[0], "memtrace": setting[1], "state": sid, "unstable": True})
            continue
        cur, failing = shrink(ctx, mode, rest, sid, setting, cls)
        cmn = mnemonics(ctx, mode, cur)
        d = fails(ctx, mode, cur, sid, setting, cls) or _first(res, cls)
        sig = "C02:%s:%s:%s%s" % (ctx.name, "+".join(cmn), cls, setting_suffix(failing))
        try:
            text = "; ".join(str(i) for i in ctx.decode(mode, cur))
        except Exception:
            text = " ; ".join(cmn)
        what = ("%s%s: `%s` from concrete state #%d (noaliasing=%s, memtrace=%s): %s is 0x%x when the block map is "
                "applied to the state but 0x%x when the instructions run one by one on it [differs under: %s]"
                % (ctx.name, "/thumb" if mode else "", text, sid, setting[0], setting[1], d[1], d[2], d[3],
                   "all four settings" if len(failing) == 4 else ", ".join(_setting_name(s) for s in failing)))
        case = {"isa": ctx.name, "mode": mode, "bytes": [b.hex() for b in cur], "mnemonics": cmn,
                "noaliasing": setting[0], "memtrace": setting[1], "state": sid, "location": d[1],
                "failing_settings": [list(s) for s in failing],
                "original_bytes": [b.hex() for b in bss], "original_mnemonics": mn}
        ctx.sigs.append((tuple(cmn), cls, set(failing), sig))
        ent = stats["signatures"].setdefault(sig, {"count": 0, "what": what, "case": case})
        ent["count"] += 1
        ck.count("violation-instance." + cls)
        ck.report(sig, what, "oracle", BROKEN, case=case, real="%s = 0x%x" % (d[1], d[2]),
                  expected="%s = 0x%x" % (d[1], d[3]), failing_input_found=True)


# ---------------------------------------------------------------------------------------------
# driver
# ---------------------------------------------------------------------------------------------

def _limit_address_space():
    """lower RLIMIT_AS to current size + 1.5 GiB; returns the old limits (or None)"""
    try:
        import resource
        old = resource.getrlimit(resource.RLIMIT_AS)
        vm = 0
        with open("/proc/self/statm") as f:
            vm = int(f.read().split()[0]) * os.sysconf("SC_PAGE_SIZE")
        new = vm + (3 << 29)
        if old[0] != resource.RLIM_INFINITY and old[0] <= new:
            return None
        resource.setrlimit(resource.RLIMIT_AS, (new, old[1]))
        return old
    except Exception:
        return None


def _unlimit_address_space(old):
    if old is not None:
        try:
            import resource
            resource.setrlimit(resource.RLIMIT_AS, old)
        except Exception:
            pass


def run(ck, tier, r, budget_s):
    t0 = time.time()
    quick = tier == "quick"
    deadline = t0 + 0.96 * budget_s
    stats = {"per_isa": {}, "signatures": {}, "unshrunk": [], "skipped_isas": {}}
    saved = (conf.Cas.noaliasing, conf.Cas.memtrace)
    oldlim = _limit_address_space()
    use_alarm = False
    try:
        def _on_alarm(signum, frame):
            raise _Timeout()
        oldh = signal.signal(signal.SIGALRM, _on_alarm)
        use_alarm = True
    except Exception:
        oldh = None
    try:
        isas, bad = isa.load_all()
        for n, why in bad.items():
            stats["skipped_isas"][n] = "import fails: " + why
        names = []
        for n, _ in isa.CPU_MODULES:
            if n in isas:
                if getattr(isas[n].dis.iclass, "_uarch", None):
                    names.append(n)
                else:
                    stats["skipped_isas"][n] = "no semantics (no uarch)"
        membank = {e: (_mem_words(r, LOW_N, e), _mem_words(r, HIGH_N, e)) for e in (1, -1)}
        cap = 200 if quick else 1000000
        sampled = 0
        for idx, name in enumerate(names):
            now = time.time()
            if now >= deadline:
                stats["skipped_isas"][name] = "budget used"
                ck.count("isa-skipped(budget)")
                continue
            slice_s = (deadline - now) / (len(names) - idx)
            slice_end = now + slice_s
            st = stats["per_isa"][name] = {"sequences": 0, "evaluations": 0, "nontrivial": 0, "exceptions": {}, "exception_evals": 0,
                                           "stays_symbolic_evals": 0, "stays_symbolic_locs": 0, "compared_locs": 0,
                                           "failing_evals": 0, "mem_skipped": 0, "timeouts": 0, "by_length": {}, "mnemonics": 0}
            conf.Cas.noaliasing, conf.Cas.memtrace = True, True
            try:
                ctx = Ctx(name, isas[name], membank)
                if use_alarm:
                    signal.setitimer(signal.ITIMER_REAL, max(20.0, 4 * slice_s))
                ctx.build_pools(r)
            except _Timeout:
                stats["skipped_isas"][name] = "building the spec pools timed out"
                continue
            except Exception as ex:
                stats["skipped_isas"][name] = "setup fails: %s: %s" % (type(ex).__name__, ex)
                continue
            finally:
                if use_alarm:
                    signal.setitimer(signal.ITIMER_REAL, 0)
            if not any(any(c.values()) for c, _ in ctx.pools.values()):
                stats["skipped_isas"][name] = "nothing executes (no decodable instruction with an i_MNEMONIC)"
                del stats["per_isa"][name]
                continue
            st["setup_s"] = round(time.time() - now, 2)
            shrink_t = [0.0]

            def allow_shrink():
                return shrink_t[0] < 0.45 * slice_s or not quick
            nseq = 0
            while nseq < cap and time.time() < slice_end:
                L = r.choice([1, 1, 2, 2, 3, 3, 4, 4, 5, 6, 7, 8])
                mode = r.choice(ctx.modes) if (len(ctx.modes) > 1 and r.random() < 0.35) else 0
                bss = ctx.gen_sequence(mode, L, r)
                sids = r.choice([[0, 1], [0, 2], [1, 2]])
                if bss is None:
                    break
                try:
                    mn = mnemonics(ctx, mode, bss)
                except Exception:
                    ck.count("sequence-dropped(decode)")
                    continue
                if "?" in mn:
                    ck.count("sequence-dropped(decode)")
                    continue
                nseq += 1
                st["sequences"] += 1
                st["by_length"][len(bss)] = st["by_length"].get(len(bss), 0) + 1
                ck.count("isa.%s" % name)
                ck.count("length.%d" % len(bss))
                ctx.mnems.update(mn)
                settings = [SETTINGS[nseq % 4]] if quick else SETTINGS
                for setting in settings:
                    try:
                        if use_alarm:
                            signal.setitimer(signal.ITIMER_REAL, CASE_TIMEOUT)
                        results = evaluate(ctx, mode, bss, sids, setting)
                    except _Timeout:
                        st["timeouts"] += 1
                        ck.count("timeout")
                        continue
                    finally:
                        if use_alarm:
                            signal.setitimer(signal.ITIMER_REAL, 0)
                    for res, sid in zip(results, sids):
                        st["evaluations"] += 1
                        ck.count("setting.%s" % _setting_name(setting))
                        fp = (name, mode, tuple(bss), sid, setting)
                        if res.exc is not None:
                            k = "%s:%s" % (res.exc[0], res.exc[1])
                            st["exceptions"][k] = st["exceptions"].get(k, 0) + 1
                            st["exception_evals"] += 1
                            ck.count("exception.%s" % res.exc[1])
                            ck.case(fp, nontrivial=False)
                            continue
                        ck.case(fp, nontrivial=res.nontrivial)
                        st["nontrivial"] += bool(res.nontrivial)
                        st["compared_locs"] += res.ncmp
                        nsym = res.nsym_reg + res.nsym_mem
                        if nsym:
                            st["stays_symbolic_evals"] += 1
                            st["stays_symbolic_locs"] += nsym
                            ck.count("stays-symbolic-on-route-A")
                        if res.bsym:
                            ck.count("symbolic-on-route-B")
                        if res.memskip:
                            st["mem_skipped"] += 1
                            ck.count("memory-not-compared(%s)" % res.memskip)
                        if res.unmapped:
                            ck.count("memory-unmapped-on-one-route")
                        if sampled < 3 and res.nontrivial and not res.diffs and idx in (0, len(names) // 3, (2 * len(names)) // 3):
                            sampled += 1
                            ck.sample({"C02-isa-oracle": name, "bytes": [b.hex() for b in bss], "mnemonics": mn, "state": sid,
                                       "setting": _setting_name(setting), "compared": res.ncmp, "stays_symbolic": nsym})
                        if res.diffs:
                            st["failing_evals"] += 1
                            ts = time.time()
                            try:
                                if use_alarm:
                                    signal.setitimer(signal.ITIMER_REAL, 12 * CASE_TIMEOUT)
                                handle_failure(ck, ctx, stats, mode, bss, sid, setting, res, allow_shrink)
                            except _Timeout:
                                st["timeouts"] += 1
                                ck.count("timeout(shrinking)")
                            finally:
                                if use_alarm:
                                    signal.setitimer(signal.ITIMER_REAL, 0)
                            shrink_t[0] += time.time() - ts
            st["mnemonics"] = len(ctx.mnems)
            st["shrink_s"] = round(shrink_t[0], 2)
            st["wall_s"] = round(time.time() - now, 2)
            ck.count("mnemonics-reached.%s" % name, len(ctx.mnems))
            ctx.restore(0)
    finally:
        conf.Cas.noaliasing, conf.Cas.memtrace = saved
        if use_alarm:
            signal.setitimer(signal.ITIMER_REAL, 0)
            signal.signal(signal.SIGALRM, oldh)
        _unlimit_address_space(oldlim)
    tot = {"sequences": 0, "evaluations": 0, "exception_evals": 0, "stays_symbolic_evals": 0, "failing_evals": 0, "nontrivial": 0}
    for v in stats["per_isa"].values():
        for k in tot:
            tot[k] += v[k]
    stats["total"] = tot
    stats["isas"] = sorted(stats["per_isa"])
    stats["wall_s"] = round(time.time() - t0, 2)
    ck.cov["C02_isa_oracle"] = {"isas": stats["isas"], "skipped": stats["skipped_isas"], "total": tot,
                                "signatures": sorted(stats["signatures"]), "unshrunk": len(stats["unshrunk"])}
    return stats


if __name__ == "__main__":
    import json as _json
    tier = sys.argv[1] if len(sys.argv) > 1 else "quick"
    budget = float(sys.argv[2]) if len(sys.argv) > 2 else (70.0 if tier == "quick" else 900.0)
    ck = Check("C02", tier)
    _rd = os.environ.get("MAP_ISA_REPLAYS", "/tmp/map/isa/replays")     # standalone: keep /verif/replays clean
    os.makedirs(_rd, exist_ok=True)
    _n = [0]

    def _replay_path():
        _n[0] += 1
        return os.path.join(_rd, "C02-%d-%d.json" % (seed(), _n[0]))
    ck.replay_path = _replay_path
    stats = run(ck, tier, rng("C02-isa"), budget)
    print("%-8s %5s %6s %6s %6s %6s %6s %5s  %s" % ("isa", "seqs", "evals", "nontr", "exc", "symb", "fail", "mnem", "exceptions"))
    for n in stats["isas"]:
        v = stats["per_isa"][n]
        print("%-8s %5d %6d %6d %6d %6d %6d %5d  %s  [setup %.1fs shrink %.1fs wall %.1fs]" % (
            n, v["sequences"], v["evaluations"], v["nontrivial"], v["exception_evals"], v["stays_symbolic_evals"],
            v["failing_evals"], v["mnemonics"], v["exceptions"], v.get("setup_s", 0), v.get("shrink_s", 0), v.get("wall_s", 0)))
    print("skipped:", stats["skipped_isas"])
    print("total:", stats["total"], "wall %.1fs" % stats["wall_s"], "cases", ck.evaluations, "distinct non-trivial", len(ck.distinct))
    for sig, what in sorted(ck.known_hit.items()):
        print("KNOWN-FINDING: %s [%s]" % (what, sig))
    for v in ck.violations:
        print("VIOLATION %s\n    %s\n    replay=%s" % (v["signature"], v["what"], v["replay"]))
    print("signature instance counts:", {k: v["count"] for k, v in sorted(stats["signatures"].items())})
    if stats["unshrunk"]:
        print("failures not shrunk:", len(stats["unshrunk"]), stats["unshrunk"][:3])
    out = os.environ.get("MAP_ISA_OUT")
    if out:
        with open(out, "w") as f:
            _json.dump({"seed": seed(), "tier": tier, "stats": stats, "counts": ck.counts}, f, indent=1, default=repr)
