"""
translate_x86.py — translator (tie T of C06, x86 half): the bodies of the integer ALU semantics functions
`i_XXX(i, fmap)` of amoco/arch/x64/asm.py and amoco/arch/x86/asm.py → lean/Generated/X86Sem.lean, one term of
the DSL of lean/Amoco/Model/X86Sem.lean per mnemonic (ADD SUB CMP AND OR XOR TEST INC DEC NEG NOT ADC SBB).

Python subset understood (anything else makes the mnemonic `Stmt.unsupported "<why>"`: reported as not
translated, never guessed; `x86_generated_eq_expected` then no longer checks):

    fmap[rip|eip] = fmap[rip|eip] + i.length                  -> .advance   (x64: must be the first statement)
    n = i.operands[0|1]                                        location of an operand (not read yet)
    n = <expr>                                                 value, translated now (expressions are pure)
    x, carry, overflow = AddWithCarry|SubWithBorrow(a, b[, c]) the three components of the helper
    if n2.size < n1.size: n2 = n2.signextend(n1.size)          -> E.sx   (identity at equal operand widths)
    n1, x = _r32_zx64(n1, x)                                   marks destination and value
    fmap[cf|pf|af|zf|sf|of] = <bit expr>                       -> .setf flag e
    fmap[n1] = <word expr>                                     -> .setdst zx e
  <expr> ::= name | bit0 | bit1 | fmap(n) | fmap(i.operands[k]) | fmap(cf) | cst(int, n.size)
           | e & e | e | e | e ^ e | ~e | e == 0 | e != 0 | e < 0 | e.bit(-1) | n[n.size - 1 : n.size]
           | parity8(e[0:8]) | halfcarry(e, e[, e]) | halfborrow(e, e[, e])
  Every read of the map (`fmap(..)`) must come before the first store to a flag or to the destination, so
  that all expressions are over the incoming operand values a, b and the incoming carry.

The helpers are DSL primitives whose meaning is their model in Amoco/Model/Flags.lean; the translator checks
that their *source* (final module-level binding in asm.py, resp. amoco/cas/utils.py) still has exactly the
modelled shape (`ast.dump` equality with the canonical text below); a mnemonic using a helper whose shape is
not recognised is reported as not translated.
"""
import ast, os, sys, hashlib

MNEMONICS = ["ADD", "SUB", "CMP", "AND", "OR", "XOR", "TEST", "INC", "DEC", "NEG", "NOT", "ADC", "SBB"]
FLAGS = ("cf", "pf", "af", "zf", "sf", "of")

CANON_ASM = {
    "parity8": """
def parity8(x):
    y = x ^ (x >> 4)
    y = cst(0x9669, 16) >> (y[0:4])
    p = y.bit(0)
    return p
""",
    "halfcarry": """
def halfcarry(x, y, c=None):
    s, carry, o = AddWithCarry(x[0:4], y[0:4], c)
    return carry
""",
    "halfborrow": """
def halfborrow(x, y, c=None):
    s, carry, o = SubWithBorrow(x[0:4], y[0:4], c)
    return carry
""",
    "_r32_zx64": """
def _r32_zx64(op1, x):
    if op1.size == 32 and op1._is_reg:
        return (op1.x, x.zeroextend(64))
    else:
        return (op1, x)
""",
}
CANON_UTILS = {
    "Sign": """
def Sign(x):
    return x[x.size - 1 : x.size]
""",
    "AddWithCarry": """
def AddWithCarry(x, y, c=None):
    if c is None:
        c = bit0
    c = c.zeroextend(y.size)
    result = x + y + c
    sx, sy, sz = Sign(x), Sign(y), Sign(result)
    carry = (sx & sy) | (~sz & (sx | sy))
    overflow = (sz ^ sx) & (sz ^ sy)
    result = result.signed()
    return (result, carry, overflow)
""",
    "SubWithBorrow": """
def SubWithBorrow(x, y, c=None):
    if c is None:
        c = bit0
    c = c.zeroextend(y.size)
    result = x - y - c
    sx, sy, sz = Sign(x), Sign(y), Sign(result)
    carry = (~sx & sy) | (sz & (~sx | sy))
    overflow = (sx ^ sy) & (sz ^ sx)
    result = result.signed()
    return (result, carry, overflow)
""",
}
# helpers each helper depends on
HELPER_DEPS = {"halfcarry": ["AddWithCarry"], "halfborrow": ["SubWithBorrow"], "AddWithCarry": ["Sign"],
               "SubWithBorrow": ["Sign"]}


class Unsupported(Exception):
    pass


def _dump(fdef):
    return ast.dump(fdef, annotate_fields=True, include_attributes=False)


def final_bindings(tree):
    """name -> FunctionDef | None (None: bound by something that is not a plain `def`)"""
    out = {}
    for node in tree.body:
        if isinstance(node, ast.FunctionDef):
            out[node.name] = node if not node.decorator_list else None
        elif isinstance(node, (ast.Assign, ast.AugAssign, ast.AnnAssign, ast.Delete, ast.Import, ast.ImportFrom,
                               ast.For, ast.While, ast.If, ast.With, ast.Try, ast.ClassDef)):
            for t in ast.walk(node):
                if isinstance(t, ast.Name) and isinstance(t.ctx, (ast.Store, ast.Del)):
                    out[t.id] = None
                elif isinstance(t, ast.alias) and t.name != "*":
                    out[(t.asname or t.name).split(".")[0]] = None
                elif isinstance(t, (ast.FunctionDef, ast.ClassDef)) and t is not node:
                    out[t.name] = None
            if isinstance(node, ast.ClassDef):
                out[node.name] = None
    return out


def helper_status(asm_tree, utils_tree, arch="x64"):
    """which helpers still have the modelled shape: name -> None (ok) | reason"""
    st = {}
    ab, ub = final_bindings(asm_tree), final_bindings(utils_tree)
    star = any(isinstance(n, ast.ImportFrom) and n.module == "amoco.cas.utils" and any(a.name == "*" for a in n.names)
               for n in asm_tree.body)
    for name, canon in CANON_ASM.items():
        if name == "_r32_zx64" and arch != "x64":
            continue
        f = ab.get(name, "missing")
        if f == "missing" or f is None:
            st[name] = "%s is not a plain function of asm.py" % name
        elif _dump(f) != _dump(ast.parse(canon).body[0]):
            st[name] = "the body of %s is not the modelled one" % name
        else:
            st[name] = None
    for name, canon in CANON_UTILS.items():
        f = ub.get(name, "missing")
        if name in ab:
            st[name] = "%s is rebound in asm.py" % name
        elif not star:
            st[name] = "asm.py does not import amoco.cas.utils.*"
        elif f == "missing" or f is None:
            st[name] = "%s is not a plain function of cas/utils.py" % name
        elif _dump(f) != _dump(ast.parse(canon).body[0]):
            st[name] = "the body of %s is not the modelled one" % name
        else:
            st[name] = None
    # names the bodies use as constants must not be rebound by asm.py itself
    for name in FLAGS + ("bit0", "bit1", "rip", "eip", "cst"):
        if name in ab:
            st[name] = "%s is rebound in asm.py" % name
    changed = True
    while changed:
        changed = False
        for h, deps in HELPER_DEPS.items():
            if st.get(h) is None:
                for d in deps:
                    if st.get(d) is not None:
                        st[h] = "%s: %s" % (h, st[d]); changed = True
                        break
    return st


# ---------------------------------------------------------------------------------------------
# DSL terms as nested tuples
# ---------------------------------------------------------------------------------------------

def e_lean(e):
    if len(e) == 1:
        return "." + e[0]
    if e[0] == "cst":
        return "(.cst %d)" % e[1]
    return "(.%s %s)" % (e[0], " ".join(e_lean(x) for x in e[1:]))


def lean_str(t):
    t = "".join(ch if 32 <= ord(ch) < 127 else "?" for ch in t)
    return '"' + t.replace("\\", "\\\\").replace('"', '\\"') + '"'


def s_lean(s):
    if s[0] == "advance":
        return ".advance"
    if s[0] == "setf":
        return "(.setf .%s %s)" % (s[1], e_lean(s[2]))
    if s[0] == "setdst":
        return "(.setdst %s %s)" % ("true" if s[1] else "false", e_lean(s[2]))
    if s[0] == "unsupported":
        return "(.unsupported %s)" % lean_str(s[1])
    raise ValueError(s)


class Fn(object):
    def __init__(self, fdef, arch, helpers):
        self.fdef, self.arch, self.helpers = fdef, arch, helpers
        a = fdef.args
        if len(a.args) != 2 or a.vararg or a.kwarg or a.kwonlyargs or a.defaults or fdef.decorator_list:
            raise Unsupported("signature")
        self.ins, self.fmap = a.args[0].arg, a.args[1].arg
        self.pc = "rip" if arch == "x64" else "eip"
        self.env = {}
        self.out = []
        self.stored = False      # a flag or the destination has been stored
        self.advanced = False

    # -- small recognisers -------------------------------------------------------------------------
    def need(self, helper):
        why = self.helpers.get(helper, "unknown helper %s" % helper)
        if why is not None:
            raise Unsupported("helper not recognised (%s)" % why)

    def free_name(self, n, name):
        """`n` is the global `name` (not shadowed by a local binding)"""
        return isinstance(n, ast.Name) and n.id == name and name not in self.env

    def is_int(self, n, v=None):
        if isinstance(n, ast.Constant) and type(n.value) is int:
            return v is None or n.value == v
        if isinstance(n, ast.UnaryOp) and isinstance(n.op, ast.USub) and isinstance(n.operand, ast.Constant) \
                and type(n.operand.value) is int:
            return v is None or -n.operand.value == v
        return False

    def operand_index(self, n):
        """i.operands[k] -> k"""
        if isinstance(n, ast.Subscript) and isinstance(n.value, ast.Attribute) and n.value.attr == "operands" \
                and isinstance(n.value.value, ast.Name) and n.value.value.id == self.ins \
                and isinstance(n.slice, ast.Constant) and n.slice.value in (0, 1) and type(n.slice.value) is int:
            return n.slice.value
        return None

    def size_of(self, n):
        """`<name>.size` where name is an operand location or a word value -> True"""
        if isinstance(n, ast.Attribute) and n.attr == "size" and isinstance(n.value, ast.Name):
            b = self.env.get(n.value.id)
            return b is not None and (b[0] in ("loc0", "loc1") or (b[0] == "val" and b[2] == "word"))
        return False

    def word(self, n):
        e, k = self.expr(n)
        if k != "word":
            raise Unsupported("a word is expected: %s" % ast.dump(n)[:60])
        return e

    def bit(self, n):
        e, k = self.expr(n)
        if k != "bit":
            raise Unsupported("a bit is expected: %s" % ast.dump(n)[:60])
        return e

    def read(self, what):
        if self.stored:
            raise Unsupported("the map is read (%s) after a flag or the destination was stored" % what)

    # -- expressions -> (term, kind) -----------------------------------------------------------------
    def expr(self, n):
        if isinstance(n, ast.Name):
            b = self.env.get(n.id)
            if b is not None:
                if b[0] == "val":
                    return b[1], b[2]
                raise Unsupported("%s is not a value here" % n.id)
            if n.id in ("bit0", "bit1"):
                return (n.id,), "bit"
            raise Unsupported("name %s" % n.id)
        if isinstance(n, ast.Call) and not n.keywords:
            f = n.func
            if isinstance(f, ast.Name) and f.id == self.fmap and len(n.args) == 1:
                arg = n.args[0]
                k = self.operand_index(arg)
                if k is None and isinstance(arg, ast.Name) and arg.id in self.env:
                    b = self.env[arg.id]
                    k = 0 if b[0] == "loc0" else 1 if b[0] == "loc1" else None
                    if k is None:
                        raise Unsupported("fmap(%s)" % arg.id)
                if k is not None:
                    self.read("operand %d" % k)
                    return ("a",) if k == 0 else ("b",), "word"
                if self.free_name(arg, "cf"):
                    self.read("cf")
                    return ("cin",), "bit"
                raise Unsupported("fmap(%s)" % ast.dump(arg)[:60])
            if self.free_name(f, "cst") and len(n.args) == 2 and self.is_int(n.args[0]) and self.size_of(n.args[1]):
                v = ast.literal_eval(n.args[0])
                if v < 0:
                    raise Unsupported("negative constant")
                return ("cst", v), "word"
            if self.free_name(f, "parity8") and len(n.args) == 1:
                s = n.args[0]
                if isinstance(s, ast.Subscript) and isinstance(s.slice, ast.Slice) and s.slice.step is None \
                        and s.slice.lower is not None and s.slice.upper is not None \
                        and self.is_int(s.slice.lower, 0) and self.is_int(s.slice.upper, 8):
                    self.need("parity8")
                    return ("par8", self.word(s.value)), "bit"
                raise Unsupported("parity8 argument")
            if isinstance(f, ast.Name) and f.id in ("halfcarry", "halfborrow") and f.id not in self.env and len(n.args) in (2, 3):
                self.need(f.id)
                c = self.bit(n.args[2]) if len(n.args) == 3 else ("bit0",)
                return ("hc" if f.id == "halfcarry" else "hb", self.word(n.args[0]), self.word(n.args[1]), c), "bit"
            if isinstance(f, ast.Attribute) and f.attr == "bit" and len(n.args) == 1 and self.is_int(n.args[0], -1):
                return ("msb", self.word(f.value)), "bit"
            raise Unsupported("call %s" % ast.dump(n)[:70])
        if isinstance(n, ast.BinOp) and type(n.op) in (ast.BitAnd, ast.BitOr, ast.BitXor):
            op = {ast.BitAnd: "and", ast.BitOr: "or", ast.BitXor: "xor"}[type(n.op)]
            return (op, self.word(n.left), self.word(n.right)), "word"
        if isinstance(n, ast.UnaryOp) and isinstance(n.op, ast.Invert):
            return ("not", self.word(n.operand)), "word"
        if isinstance(n, ast.Compare) and len(n.ops) == 1 and self.is_int(n.comparators[0], 0) \
                and type(n.ops[0]) in (ast.Eq, ast.NotEq, ast.Lt):
            op = {ast.Eq: "eqz", ast.NotEq: "nez", ast.Lt: "ltz"}[type(n.ops[0])]
            return (op, self.word(n.left)), "bit"
        if isinstance(n, ast.Subscript) and isinstance(n.slice, ast.Slice) and isinstance(n.value, ast.Name):
            # x[x.size - 1 : x.size]
            sl, x = n.slice, n.value.id
            def is_size(m):
                return isinstance(m, ast.Attribute) and m.attr == "size" and isinstance(m.value, ast.Name) and m.value.id == x
            if sl.step is None and sl.upper is not None and is_size(sl.upper) and isinstance(sl.lower, ast.BinOp) \
                    and isinstance(sl.lower.op, ast.Sub) and is_size(sl.lower.left) and self.is_int(sl.lower.right, 1):
                return ("msb", self.word(n.value)), "bit"
        raise Unsupported("expression %s" % ast.dump(n)[:80])

    # -- statements ------------------------------------------------------------------------------------
    def is_fmap_sub(self, t):
        return isinstance(t, ast.Subscript) and isinstance(t.value, ast.Name) and t.value.id == self.fmap

    def stmt(self, s, first):
        if isinstance(s, ast.Pass):
            return
        if isinstance(s, ast.Expr) and isinstance(s.value, ast.Constant) and isinstance(s.value.value, str):
            return
        if isinstance(s, ast.If):
            # if op2.size < op1.size: op2 = op2.signextend(op1.size)
            c = s.test
            ok = (not s.orelse and len(s.body) == 1 and isinstance(c, ast.Compare) and len(c.ops) == 1
                  and isinstance(c.ops[0], ast.Lt) and isinstance(s.body[0], ast.Assign) and len(s.body[0].targets) == 1)
            if ok:
                l, r, a = c.left, c.comparators[0], s.body[0]
                t, v = a.targets[0], a.value
                if (isinstance(l, ast.Attribute) and l.attr == "size" and isinstance(l.value, ast.Name)
                        and isinstance(r, ast.Attribute) and r.attr == "size" and isinstance(r.value, ast.Name)
                        and isinstance(t, ast.Name) and t.id == l.value.id
                        and isinstance(v, ast.Call) and not v.keywords and len(v.args) == 1
                        and isinstance(v.func, ast.Attribute) and v.func.attr == "signextend"
                        and isinstance(v.func.value, ast.Name) and v.func.value.id == t.id
                        and ast.dump(v.args[0]) == ast.dump(r)):
                    small, big = self.env.get(t.id), self.env.get(r.value.id)
                    if small and small[0] == "val" and small[2] == "word" and small[1] != ("a",) and big and big[0] == "loc0":
                        self.env[t.id] = ("val", ("sx", small[1]), "word")
                        return
            raise Unsupported("condition %s" % ast.dump(c)[:80])
        if not isinstance(s, ast.Assign) or len(s.targets) != 1:
            raise Unsupported("statement %s" % type(s).__name__)
        t, v = s.targets[0], s.value
        # stores
        if self.is_fmap_sub(t):
            k = t.slice
            if self.free_name(k, self.pc):
                want = ast.parse("%s[%s] + %s.length" % (self.fmap, self.pc, self.ins), mode="eval").body
                if ast.dump(v) != ast.dump(want):
                    raise Unsupported("store to %s" % self.pc)
                if self.stored or self.advanced or (self.arch == "x64" and not first):
                    raise Unsupported("position of the %s update" % self.pc)
                self.advanced = True
                self.out.append(("advance",))
                return
            if isinstance(k, ast.Name) and k.id in FLAGS and k.id not in self.env:
                e = self.bit(v)
                self.stored = True
                self.out.append(("setf", k.id, e))
                return
            if isinstance(k, ast.Name) and k.id in self.env and self.env[k.id][0] in ("loc0", "loc0zx"):
                zx = self.env[k.id][0] == "loc0zx"
                if zx:
                    if not (isinstance(v, ast.Name) and self.env.get(v.id, ("",))[0] == "valzx"):
                        raise Unsupported("destination went through _r32_zx64 but the value did not")
                    e = self.env[v.id][1]
                else:
                    e = self.word(v)
                self.stored = True
                self.out.append(("setdst", zx, e))
                return
            raise Unsupported("store to %s" % ast.dump(k)[:60])
        # op1, x = _r32_zx64(op1, x)   /   x, carry, overflow = AddWithCarry(a, b[, c])
        if isinstance(t, ast.Tuple) and all(isinstance(x, ast.Name) for x in t.elts) and isinstance(v, ast.Call) \
                and isinstance(v.func, ast.Name) and not v.keywords and v.func.id not in self.env:
            names = [x.id for x in t.elts]
            if any(x in (self.ins, self.fmap) for x in names) or len(set(names)) != len(names):
                raise Unsupported("rebinding")
            if v.func.id == "_r32_zx64" and len(names) == 2 and len(v.args) == 2 and self.arch == "x64" \
                    and all(isinstance(x, ast.Name) for x in v.args):
                self.need("_r32_zx64")
                d, x = self.env.get(v.args[0].id), self.env.get(v.args[1].id)
                if d and d[0] == "loc0" and x and x[0] == "val" and x[2] == "word":
                    self.env[names[0]] = ("loc0zx",)
                    self.env[names[1]] = ("valzx", x[1])
                    return
                raise Unsupported("_r32_zx64 arguments")
            if v.func.id in ("AddWithCarry", "SubWithBorrow") and len(names) == 3 and len(v.args) in (2, 3):
                self.need(v.func.id)
                x, y = self.word(v.args[0]), self.word(v.args[1])
                c = self.bit(v.args[2]) if len(v.args) == 3 else ("bit0",)
                p = "awc" if v.func.id == "AddWithCarry" else "swb"
                self.env[names[0]] = ("val", (p, x, y, c), "word")
                self.env[names[1]] = ("val", (p + "C", x, y, c), "bit")
                self.env[names[2]] = ("val", (p + "O", x, y, c), "bit")
                return
            raise Unsupported("tuple assignment from %s" % v.func.id)
        if isinstance(t, ast.Name):
            if t.id in (self.ins, self.fmap):
                raise Unsupported("rebinding %s" % t.id)
            k = self.operand_index(v)
            if k is not None:
                self.env[t.id] = ("loc%d" % k,)
                return
            e, kind = self.expr(v)
            self.env[t.id] = ("val", e, kind)
            return
        raise Unsupported("assignment target")

    def run(self):
        for j, s in enumerate(self.fdef.body):
            self.stmt(s, j == 0)
        if not self.advanced:
            raise Unsupported("no %s update" % self.pc)
        return self.out


def translate_module(repo, arch):
    p = os.path.join(repo, "amoco", "arch", arch, "asm.py")
    pu = os.path.join(repo, "amoco", "cas", "utils.py")
    src, usrc = open(p).read(), open(pu).read()
    tree, utree = ast.parse(src), ast.parse(usrc)
    helpers = helper_status(tree, utree, arch)
    bind = final_bindings(tree)
    table = {}
    for mn in MNEMONICS:
        name = "i_" + mn
        if name not in bind:
            table[mn] = [("unsupported", "%s is not defined" % name)]
            continue
        f = bind[name]
        try:
            if f is None:
                raise Unsupported("not a plain function definition")
            table[mn] = Fn(f, arch, helpers).run()
        except Unsupported as u:
            table[mn] = [("unsupported", "%s: %s" % (name, u))]
        except Exception as u:
            table[mn] = [("unsupported", "%s: internal %s" % (name, type(u).__name__))]
    notes = sorted("%s: %s" % (k, v) for k, v in helpers.items() if v is not None)
    return table, notes, hashlib.sha256((src + usrc).encode()).hexdigest()


def emit(repo, out_path):
    parts, info = [], {}
    for arch in ("x64", "x86"):
        table, notes, h = translate_module(repo, arch)
        info[arch] = {"table": table, "notes": notes, "sha256": h,
                      "untranslated": {m: s[0][1] for m, s in table.items() if any(x[0] == "unsupported" for x in s)}}
        lines = ["/-- from amoco/arch/%s/asm.py + amoco/cas/utils.py (sha256 %s) -/" % (arch, h[:16]),
                 "def %s_tab : List (Mn × Sem) := [" % arch]
        lines.append(",\n".join("  (.%s, [%s])" % (m, ", ".join(s_lean(s) for s in table[m])) for m in MNEMONICS))
        lines.append("]")
        lines.append("def %s_notes : List String := [%s]" % (arch, ", ".join(lean_str(x) for x in notes)))
        parts.append("\n".join(lines))
    text = """/-
  Generated.X86Sem — REGENERATED on every run by harness/translate_x86.py from
  amoco/arch/x64/asm.py, amoco/arch/x86/asm.py and amoco/cas/utils.py.  Do not edit.
-/
import Amoco.Model.X86Sem
namespace Generated.X86
open Amoco.X86Sem

%s

def generated (ar : Arch) (m : Mn) : Option Sem :=
  (match ar with | .x64 => x64_tab | .x86 => x86_tab).lookup m

end Generated.X86
""" % "\n\n".join(parts)
    old = None
    try:
        old = open(out_path).read()
    except OSError:
        pass
    if old != text:
        with open(out_path, "w") as f:
            f.write(text)
    return info


def default_out():
    here = os.path.dirname(os.path.abspath(__file__))
    return os.path.join(os.path.dirname(here), "lean", "Generated", "X86Sem.lean")


if __name__ == "__main__":
    repo = os.environ.get("AMOCO_REPO", "/repo")
    info = emit(repo, default_out())
    for arch, d in info.items():
        print(arch, len(d["table"]), "mnemonics; untranslated:", d["untranslated"], "notes:", d["notes"])
