"""
C04 — Decoder index is equivalent to a most-constrained-first scan.

Theorem `lookup_eq_scan` (lean/Amoco/Props/C04.lean): on every tree that passes `checkTree` for the
weight-sorted list S, `__call__` through the tree = scan of S, for every outcome function whose
non-rejections imply the fixed bits are in the key (`accept_in_key_le/be`, from C03's decode model).
Ties, re-established on every run:
  K  the real decision tree of every importable ISA module and mode is dumped and `checkTree`
     (proved sound) is evaluated on it by the compiled model; the side conditions of
     `accept_in_key_*` (size multiple of 8, ≤ maxlen, mask < 2^size) are checked on every spec;
  C  attempt traces: the specs the real `__call__` tries, in order (ispec.decode wrapped), vs the
     model's `route` on the dumped tree for generated inputs; model `setup` vs the real tree (informative);
  oracle  an independent most-constrained-first scan in Python over the sorted spec list, using the
     real `ispec.decode` and the same pending-prefix protocol, compared with `cpu.disassemble`.
"""
import sys
from common import *
import isa
import c04_extra
from amoco.arch import core as acore


def sorted_stable(specs):
    return sorted(specs, key=lambda x: -x.mask.hw())


def main(tier):
    ck = Check("C04", tier)
    quick = tier == "quick"
    r = rng("C04")
    r_long, r_end = rng("C04.long"), rng("C04.endian")   # own streams: the base sweep of a seed stays what it was
    broken = ck.build_and_audit(["Amoco.Props.C04", "amoco_driver"])
    drv = Driver()
    isas, bad = isa.load_all()
    ck.cov["isa_modules"] = sorted(isas)
    ck.cov["isa_modules_not_importable"] = bad
    ties_broken = []
    ndir, nrand = (120, 40) if quick else (3000, 1000)
    npfx = 150 if quick else 3000            # prefixed boundary-form inputs, each followed by a plain probe
    nlong = 80 if quick else 2000            # inputs longer than maxlen for variable-length specs
    tg_dir, tg_rand, tg_long = (400, 60, 40) if quick else (6000, 1000, 400)   # per endianness toggle and mode

    for name in sorted(isas):
        I = isas[name]
        d = I.dis
        e = -1 if I.be else 1
        permode = []
        for idx in range(I.nsets):
            I.set_mode(idx)
            specs = isa.module_specs(I, idx)
            index = {id(s): k for k, s in enumerate(specs)}
            label = "%s/%d" % (name, idx)
            # reference order: most constrained first (stable) — the ISPECS list itself must be it
            ref_order = sorted_stable(specs)
            if [id(s) for s in ref_order] != [id(s) for s in specs]:
                ck.count("K.ispecs-not-sorted")
            tree = isa.dump_tree(d.specs[idx], index)
            req = {"op": "dis.check", "be": I.be, "maxlen": I.maxlen, "specs": [isa.speck(k, s) for k, s in enumerate(ref_order)],
                   "tree": isa.dump_tree(d.specs[idx], {id(s): k for k, s in enumerate(ref_order)})}
            ans = drv.ask(req)
            ck.count("K.trees")
            ck.count("K.specs", len(specs))
            ck.case(("K", label, len(specs)), nontrivial=tree[0] == "node")
            tree_ok = isinstance(ans, dict) and ans.get("check") is True
            if not (isinstance(ans, dict) and ans.get("modelCheck") is True):
                ties_broken.append(("model setup fails its own checker on %s" % label, {"isa": label}, None, ans))
            if isinstance(ans, dict) and not ans.get("sameTree"):
                ck.count("C.real-tree-differs-from-model-setup")   # informative only: any checked tree is fine
            side = [s.format for s in specs if s.mask.size % 8 or s.mask.size // 8 > I.maxlen or s.mask.ival >> s.mask.size
                    or s.fix.size != s.mask.size]
            if side:
                ties_broken.append(("side condition of accept_in_key fails on %s: %s" % (label, side[:3]), {"isa": label}, side[:10], None))
            # ---- generated inputs: oracle + attempt traces -------------------------------------
            ref_index = {id(s): k for k, s in enumerate(ref_order)}
            inputs = isa.gen_inputs(I, specs, r, ndir, nrand) + c04_extra.long_inputs(I, specs, r_long, nlong) + c04_extra.prefix_histories(I, specs, r_long, npfx)
            routes = drv.ask({"op": "dis.route", "be": I.be, "maxlen": I.maxlen, "specs": req["specs"], "tree": req["tree"],
                              "inputs": [list(bs) for _, bs in inputs]})
            nfail = 0
            isa.reset(d)
            for (kind, bs), cand in zip(inputs, routes):
                # NOT reset between inputs: the whole input list is one history of calls on the
                # disassembler object, as a sweep does; every call must still equal the scan
                with isa.AttemptTrace() as tr:
                    real = isa.real_decode(d, bs, fresh=False)
                real_fp = (real[0], isa.fingerprint(real[1]) if real[0] == "ok" else real[1])
                ref = isa.ref_scan(d, ref_order, bs, e)
                ref_fp = (ref[0], isa.fingerprint(ref[1]) if ref[0] == "ok" else ref[1])
                ck.case((label, bs), nontrivial=real[0] == "ok")
                ck.count("%s.%s" % (kind, real[0]))
                if real[0] == "ok" and real[1].spec.pfx is not True and len(real[1].bytes) > real[1].spec.mask.size // 8 and any(s.pfx is True for s in specs):
                    ck.count("with-prefix-or-tail")
                if len(bs) > I.maxlen:
                    ck.count("longer-than-maxlen.%s" % real[0])
                    if real[0] == "ok" and len(real[1].bytes) > I.maxlen:
                        ck.count("consumed-more-than-maxlen")
                if real_fp != ref_fp:
                    nfail += 1
                    ck.report("C04:%s:%s" % (label, (real[1].spec.format if real[0] == "ok" else real_fp[0])),
                              "%s: disassemble(%s) = %r but most-constrained-first scan gives %r" % (label, bs.hex(), real_fp, ref_fp),
                              "oracle", "Amoco.Dis.Props.lookup_eq_scan (checkTree on the real tree: %s)" % tree_ok,
                              case={"isa": name, "mode": idx, "bytes": bs.hex()}, real=real_fp, expected=ref_fp)
                    continue
                # attempt trace of the first level vs model route
                first = [ref_index.get(id(s), -1) for (pl, n, s, o) in tr.log if pl == 0 and n == len(bs)]
                if first != cand[:len(first)] or (real[0] == "none" and tr.log and first != cand):
                    ties_broken.append(("attempt trace differs from model route on %s" % label,
                                        {"isa": name, "mode": idx, "bytes": bs.hex()}, first, cand))
            if not tree_ok:
                # proved-sound checker rejects the real tree: the theorem no longer covers it
                ck.report("C04:%s:checkTree" % label, "routing invariant fails on the real decision tree of %s" % label,
                          "checker", "Amoco.Dis.checkTree (hypothesis of lookup_eq_scan)", case={"isa": name, "mode": idx},
                          real=ans, failing_input_found=False)
            if len(ck.cov["samples"]) < 4 and inputs:
                ck.sample({"isa": label, "bytes": inputs[0][1].hex(), "route": routes[0][:8]})
            permode.append((idx, ref_order, [bs for _, bs in inputs[:(150 if quick else 1500)]]))
        if I.nsets > 1:
            # the same bytes decoded in every mode in turn on the one disassembler object: the index of
            # each mode must still answer as that mode's own scan
            isa.reset(d)
            for k in range(max(len(p[2]) for p in permode)):
                for (idx0, _, ins) in permode:
                    if k >= len(ins):
                        continue
                    bs = ins[k]
                    for (idx, ref_order, _) in permode:
                        I.set_mode(idx)
                        real = isa.real_decode(d, bs, fresh=False)
                        real_fp = (real[0], isa.fingerprint(real[1]) if real[0] == "ok" else real[1])
                        ref = isa.ref_scan(d, ref_order, bs, e)
                        ref_fp = (ref[0], isa.fingerprint(ref[1]) if ref[0] == "ok" else ref[1])
                        ck.case(("%s/%d" % (name, idx), "x", bs), nontrivial=real[0] == "ok")
                        ck.count("cross-mode.%s" % real[0])
                        if real_fp != ref_fp:
                            ck.report("C04:%s/%d:cross-mode" % (name, idx),
                                      "%s mode %d: disassemble(%s) right after the same bytes in another mode = %r but this mode's most-constrained-first scan gives %r" % (name, idx, bs.hex(), real_fp, ref_fp),
                                      "oracle", "Amoco.Dis.Props.lookup_eq_scan", case={"isa": name, "mode": idx, "bytes": bs.hex(), "modes": [p[0] for p in permode]},
                                      real=real_fp, expected=ref_fp)
            I.set_mode(0)
        # fetch endianness read from run-time state: every value of it is a decode mode of the same object
        c04_extra.explore_toggles(ck, I, name, r_end, sorted_stable, tg_dir, tg_rand, tg_long)
    drv.close()
    for b in broken:
        ck.report("C04:proof-obligation", "proof obligation broken: %s" % b[:300], "proof-obligation", b[:2000], failing_input_found=False)
    if ties_broken:
        what, case, real, mod = ties_broken[0]
        ck.report("C04:correspondence", "%d tie failures without a failing input (first: %s)" % (len(ties_broken), what),
                  "correspondence", what, case=case, real=real, model=mod, failing_input_found=False)
    ck.oblige("checker+correspondence on real trees", not ties_broken, "%d" % len(ties_broken))
    ck.assumptions += ["decode outcome of a spec is abstracted (any function whose non-rejection implies the mask test passed)",
                       "modules that fail to import are not covered (listed in coverage.isa_modules_not_importable)"]
    ck.trusted += ["harness/isa.py dumps of the real trees and spec lists", "compiled Lean checker `checkTree` (evaluation); its soundness theorem is kernel-checked",
                   "Python reference scan (oracle) using the real ispec.decode"]
    return ck.finish("per ISA module and mode: the real tree (K) + spec-directed / mutated / truncated / prefixed and random byte strings of length 0..maxlen+4; "
                     "variable-length specs followed by LEB128-style operands padded with redundant continuation bytes so that the instruction is longer than maxlen "
                     "(buckets longer-than-maxlen.*, consumed-more-than-maxlen); in modes with prefix specs, prefixed variable-length specs with boundary mod/rm-style first tail bytes each followed by an unprefixed probe, inside the one history (buckets pfx-history.*); every run-time fetch-endianness toggle found by reflection on disassembler.endian "
                     "(coverage.endian_toggles) flipped on the live disassembler object — held, alternating between two calls, restored — and each call compared with "
                     "the scan under the endianness then in force (buckets endian-toggle[e].*); non-trivial = decodes to an instruction")




def replay(path):
    import json
    rec = json.load(open(path))
    case = rec.get("case") or {}
    if case.get("toggle") and case.get("isa"):
        ok, _ = isa.load_all([case["isa"].split("/")[0]])
        for I in ok.values():          # same module / disassembler object as the one replay_decode_case loads
            print("fetch-endianness state %r applied: %s" % (case["toggle"], c04_extra.apply_recorded_toggle(I.dis, case["toggle"])))
    return isa.replay_decode_case(rec)

if __name__ == "__main__":
    sys.exit(main(sys.argv[1] if len(sys.argv) > 1 else "quick"))
