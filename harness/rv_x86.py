"""
rv_x86.py — the x86-64 part of C06.

(1) helper correspondence: the real AddWithCarry / SubWithBorrow / parity8 / halfcarry / halfborrow /
    _r32_zx64 / ROL/ROR(WithCarry) / CONDITION_CODES of amoco applied to constants vs the Lean model
    (Amoco/Model/Flags.lean, driver ops flags.*), whose all-width theorems are in Props/C06.lean;
(2) oracle for the instruction bodies, which are NOT modelled: native execution on the host CPU
    (harness/native/x86exec.c) of generated encodings of the user-mode general-purpose integer subset
    compared with `instruction(mapper)` of amoco on the same registers / flags / memory window,
    restricted to the flags the SDM defines for that instruction and operand values.
"""
import os, sys, struct, subprocess
from common import *

WIN_ADDR, WIN, CODE_ADDR = 0x20000000, 4096, 0x1FFF0000
NATIVE_DIR = os.path.join(HERE, "native")
FLAG_BITS = {"cf": 0, "pf": 2, "af": 4, "zf": 6, "sf": 7, "df": 10, "of": 11}
STATUS = ("cf", "pf", "af", "zf", "sf", "of")
M64 = (1 << 64) - 1


# -----------------------------------------------------------------------------------------------
# native side
# -----------------------------------------------------------------------------------------------

class Native(object):
    def __init__(self):
        src = os.path.join(NATIVE_DIR, "x86exec.c")
        exe = os.path.join(NATIVE_DIR, "x86exec")
        if not os.path.exists(exe) or os.path.getmtime(exe) < os.path.getmtime(src):
            p = subprocess.run(["gcc", "-O1", "-o", exe, src], stdout=subprocess.PIPE, stderr=subprocess.STDOUT, text=True)
            if p.returncode != 0:
                raise InternalError("cannot build native helper: " + p.stdout[-500:])
        self.exe = exe
        self.p = None
        self.restarts = 0

    def start(self):
        self.p = subprocess.Popen([self.exe], stdin=subprocess.PIPE, stdout=subprocess.PIPE)

    def run(self, code, regs, flags, mem):
        """→ (status, regs[16], rflags, mem) ; status != 0 is a signal number (fault)"""
        if self.p is None or self.p.poll() is not None:
            self.start()
        rq = struct.pack("<16QQI16s", *regs, flags, len(code), code.ljust(16, b"\0")) + mem
        try:
            self.p.stdin.write(rq)
            self.p.stdin.flush()
            d = self.p.stdout.read(4 + 136 + WIN)
        except (BrokenPipeError, OSError):
            d = b""
        if len(d) != 4 + 136 + WIN:
            self.restarts += 1
            self.p = None
            return (-1, None, None, None)
        st, = struct.unpack_from("<I", d, 0)
        return st, list(struct.unpack_from("<16Q", d, 4)), struct.unpack_from("<Q", d, 132)[0], d[140:]

    def close(self):
        if self.p is not None:
            try:
                self.p.stdin.close()
                self.p.wait(timeout=5)
            except Exception:
                self.p.kill()


def host_has(*feats):
    try:
        fl = open("/proc/cpuinfo").read().split("flags", 1)[1].split("\n", 1)[0].split()
    except Exception:
        return False
    return all(f in fl for f in feats)


# -----------------------------------------------------------------------------------------------
# amoco side
# -----------------------------------------------------------------------------------------------

_AM = {}


def am(mode="x64"):
    if mode not in _AM:
        fresh_amoco()
        from amoco.cas.mapper import mapper
        from amoco.cas import expressions as ex
        if mode == "x64":
            from amoco.arch.x64 import cpu_x64 as cpu
            from amoco.arch.x64 import env
            R = [env.rax, env.rcx, env.rdx, env.rbx, env.rsp, env.rbp, env.rsi, env.rdi, env.r8, env.r9, env.r10,
                 env.r11, env.r12, env.r13, env.r14, env.r15]
            _AM[mode] = dict(cpu=cpu, env=env, mapper=mapper, ex=ex, R=R, flags=env.rflags, ip=env.rip, w=64)
        else:
            from amoco.arch.x86 import cpu_x86 as cpu
            from amoco.arch.x86 import env
            R = [env.eax, env.ecx, env.edx, env.ebx, env.esp, env.ebp, env.esi, env.edi]
            _AM[mode] = dict(cpu=cpu, env=env, mapper=mapper, ex=ex, R=R, flags=env.eflags, ip=env.eip, w=32)
    return _AM[mode]


def const_of(e):
    """integer value of an expression made of constants (possibly a comp of constants), else None"""
    try:
        e = e.simplify()
    except Exception:
        pass
    if e._is_cst:
        return e.v
    if e._is_ptr:                       # a concrete address: constant base + displacement
        b = const_of(e.base)
        if b is None or e.seg not in (None, ""):
            return None
        return (b + e.disp) & ((1 << e.size) - 1)
    if e._is_slc:
        b = const_of(e.x)
        return None if b is None else (b >> e.pos) & ((1 << e.size) - 1)
    if e._is_cmp:
        v = 0
        for (lo, hi), p in e.parts.items():
            pv = const_of(p)
            if pv is None:
                return None
            v |= (pv & ((1 << (hi - lo)) - 1)) << lo
        return v
    return None


def amoco_decode(code, mode="x64"):
    a = am(mode)
    d = a["cpu"].disassemble
    try:
        i = d(code)
    except Exception as e:
        try:
            d._disassembler__i = None
        except Exception:
            pass
        return "raise:" + type(e).__name__
    return i


def amoco_run(i, regs, flags, mem, mode="x64"):
    """→ dict(regs=[int|str], flags={name:int|str}, mem=bytes|None, bad_mem=[offsets], rip=int|str) or {"raise":..}"""
    a = am(mode)
    ex, env, w = a["ex"], a["env"], a["w"]
    m = a["mapper"]()
    for r, v in zip(a["R"], regs):
        m[r] = ex.cst(v & ((1 << w) - 1), w)
    m[a["flags"]] = ex.cst(flags | 2, w)
    m[a["ip"]] = ex.cst(CODE_ADDR, w)
    m.mmap.write(WIN_ADDR, mem)
    try:
        i(m)
    except Exception as e:
        return {"raise": type(e).__name__}
    out = {"regs": [], "flags": {}}
    try:
        for r in a["R"]:
            v = const_of(m(r))
            out["regs"].append(v if v is not None else "sym:" + str(m(r))[:40])
        for k in FLAG_BITS:
            e = m(getattr(env, k))
            v = const_of(e)
            out["flags"][k] = v if v is not None else ("top" if e._is_top or not e._is_def else "sym:" + str(e)[:40])
        v = const_of(m(a["ip"]))
        out["rip"] = v if v is not None else "sym"
        parts = m.mmap.read(WIN_ADDR, WIN)
        buf, bad = bytearray(), []
        for p in parts:
            if isinstance(p, (bytes, bytearray)):
                buf += p
            else:
                v = const_of(p)
                n = p.size // 8
                if v is None:
                    bad.append(len(buf))
                    buf += b"\0" * n
                else:
                    buf += v.to_bytes(n, "little")
        out["mem"] = bytes(buf)
        out["bad_mem"] = bad
    except Exception as e:
        return {"raise": "readback:" + type(e).__name__}
    return out


# -----------------------------------------------------------------------------------------------
# encodings of the user-mode general-purpose integer subset
# -----------------------------------------------------------------------------------------------

ALU = ["ADD", "OR", "ADC", "SBB", "AND", "SUB", "XOR", "CMP"]
SHIFTS = {0: "ROL", 1: "ROR", 2: "RCL", 3: "RCR", 4: "SHL", 5: "SHR", 6: "SHL", 7: "SAR"}
CC = ["O", "NO", "B", "NB", "Z", "NZ", "BE", "NBE", "S", "NS", "P", "NP", "L", "NL", "LE", "NLE"]
ALL6 = set(STATUS)


class NotInMode(Exception):
    pass


class Enc(object):
    """one generated instruction: bytes + what the SDM leaves undefined + how to steer registers"""

    def __init__(self, name):
        self.name = name
        self.size = 32
        self.code = b""
        self.undef = set()          # flags architecturally undefined
        self.undef_regs = set()     # register numbers whose result is undefined
        self.steer = []             # (reg, value) forced by memory steering
        self.notes = []
        self.count = None           # ("imm", n) | ("cl",) | ("one",) for shifts


def imm_bytes(r, n):
    pool = {1: [0, 1, 0x7F, 0x80, 0xFF, 0x10, 0xF0], 2: [0, 1, 0x7FFF, 0x8000, 0xFFFF],
            4: [0, 1, 0x7FFFFFFF, 0x80000000, 0xFFFFFFFF, 0xFFFFFF80], 8: [0, 1, (1 << 63) - 1, 1 << 63, M64]}[n]
    v = r.choice(pool) if r.random() < 0.5 else r.getrandbits(8 * n)
    return v.to_bytes(n, "little")


class Gen(object):
    def __init__(self, r, have, ia32=False):
        self.r = r
        self.have = have
        self.ia32 = ia32            # only encodings whose bytes and meaning are the same in 32- and 64-bit mode
        self.nreg = 8 if ia32 else 16

    # -- operand encoding --------------------------------------------------------------------
    def opsize(self, byteop=False, allow16=True, force64=False):
        """→ (size, prefix66, rexw)"""
        if byteop:
            return 8, False, False
        k = self.r.random()
        if self.ia32:
            if force64:
                raise NotInMode()
            return (16, True, False) if (allow16 and k < 0.4) else (32, False, False)
        if force64 or k < 0.35:
            return 64, False, True
        if allow16 and k < 0.55:
            return 16, True, False
        return 32, False, False

    def modrm(self, e, regfield, mem=None, size=32, regnum=None, avoid=()):
        """build ModRM(+SIB+disp).  regfield: /digit or None (then a register is chosen → returned).
        mem: True force memory, False force register, None either.  returns (rexR, rexX, rexB, bytes, info)"""
        r = self.r
        reg = regfield if regfield is not None else (regnum if regnum is not None else r.randrange(self.nreg))
        rexR = (reg >> 3) & 1 if regfield is None else 0
        use_mem = mem if mem is not None else (r.random() < 0.45)
        if not use_mem:
            rm = r.randrange(self.nreg)
            return rexR, 0, (rm >> 3) & 1, bytes([0xC0 | ((reg & 7) << 3) | (rm & 7)]), {"rm": ("reg", rm), "reg": reg}
        # memory form; effective address steered into the window
        nbytes = max(size // 8, 1)
        target = WIN_ADDR + 0x200 + r.randrange(0, 0x600)
        if r.random() < 0.6:
            target &= ~7
        form = r.choice(["base", "base", "disp8", "disp32", "sib", "sib", "abs", "rip", "sibdisp32", "sibnoindex"])
        if self.ia32 and form == "rip":
            form = "abs"
        addr32 = r.random() < 0.12 and form not in ("rip",) and not self.ia32
        e.addr32 = addr32
        amask = 0xFFFFFFFF if addr32 else M64
        info = {"rm": ("mem", target, nbytes), "reg": reg}
        forbidden = set(avoid) | {4}
        # REX.B is ignored by the CPU when the SIB byte says "no base, disp32" (mod=00, base=101)
        anyB = 0 if self.ia32 else r.randrange(2)
        if form == "abs":
            body = bytes([((reg & 7) << 3) | 4, 0x25]) + struct.pack("<i", target)
            return rexR, 0, anyB, body, info
        if form == "sibdisp32":
            # [index*scale + disp32], no base register
            index = r.choice([x for x in range(self.nreg) if x not in forbidden])
            scale = r.randrange(4)
            iv = r.choice([0, 1, 2, 3, 8, 0x10, 0x20, 0x40])
            disp = target - (iv << scale)
            body = bytes([((reg & 7) << 3) | 4, (scale << 6) | ((index & 7) << 3) | 5]) + struct.pack("<i", disp)
            e.steer.append((index, iv | ((r.getrandbits(32) << 32) if addr32 else 0)))
            return rexR, (index >> 3) & 1, anyB, body, info
        if form == "sibnoindex":
            # [base] / [base+disp8] through a SIB byte with index=100 and REX.X=0 (the only form for rsp/r12 bases)
            base = r.choice([b for b in range(self.nreg) if b not in forbidden])
            disp = r.choice([0, 8, -8, 0x7F, -0x80]) if (r.random() < 0.5 or (base & 7) == 5) else None
            body = bytes([((0 if disp is None else 1) << 6) | ((reg & 7) << 3) | 4, (r.randrange(4) << 6) | (4 << 3) | (base & 7)])
            if disp is not None:
                body += struct.pack("<b", disp)
            e.steer.append((base, ((target - (disp or 0)) & amask) | ((r.getrandbits(32) << 32) if addr32 else 0)))
            return rexR, 0, (base >> 3) & 1, body, info
        if form == "rip":
            info["rip"] = target
            return rexR, 0, 0, bytes([((reg & 7) << 3) | 5]) + b"RIP!", info     # patched once the length is known
        base = r.choice([b for b in range(self.nreg) if b not in forbidden])
        garbage = (r.getrandbits(32) << 32) if addr32 else 0
        if form == "sib" or (base & 7) == 4:
            index = r.choice([x for x in range(self.nreg) if x not in forbidden and x != base])
            scale = r.randrange(4)
            disp = r.choice([0, 8, -8, 0x7F, -0x80]) if r.random() < 0.5 else 0
            iv = r.choice([0, 1, 2, 3, 8, 0x10, 0x20])
            if index == 4:          # unreachable (4 is forbidden) – kept for clarity: no index
                iv = 0
            bv = (target - disp - (iv << scale)) & amask
            mod = 1 if disp or (base & 7) == 5 else 0
            body = bytes([(mod << 6) | ((reg & 7) << 3) | 4, (scale << 6) | ((index & 7) << 3) | (base & 7)])
            if mod == 1:
                body += struct.pack("<b", disp)
            e.steer += [(base, bv | garbage), (index, iv | garbage)]
            return rexR, (index >> 3) & 1, (base >> 3) & 1, body, info
        if form == "base" and (base & 7) != 5:
            e.steer.append((base, (target & amask) | garbage))
            return rexR, 0, (base >> 3) & 1, bytes([((reg & 7) << 3) | (base & 7)]), info
        if form == "disp32":
            disp = r.choice([0x100, -0x100, 0x7FFFFFFF - 0x30000000, -0x1000])
            e.steer.append((base, ((target - disp) & amask) | garbage))
            return rexR, 0, (base >> 3) & 1, bytes([0x80 | ((reg & 7) << 3) | (base & 7)]) + struct.pack("<i", disp), info
        disp = r.choice([0, 1, 8, -8, 0x7F, -0x80, 0x10])
        e.steer.append((base, ((target - disp) & amask) | garbage))
        return rexR, 0, (base >> 3) & 1, bytes([0x40 | ((reg & 7) << 3) | (base & 7)]) + struct.pack("<b", disp), info

    def assemble(self, e, opcode, modrm=None, imm=b"", p66=False, rexw=False, rex=(0, 0, 0), pre=b"", byteregs=(), force_rex=False):
        """prefixes + REX + opcode + modrm + imm ; byteregs: register numbers used as 8-bit operands"""
        rexR, rexX, rexB = rex
        need_rex = (rexw or rexR or rexX or rexB or force_rex) and not self.ia32
        if self.ia32 and (rexw or rexR or rexX or rexB):
            raise NotInMode()
        # 8-bit registers 4..7 mean ah/ch/dh/bh without REX and spl/bpl/sil/dil with one
        e.high8 = [b for b in byteregs if 4 <= b <= 7 and not need_rex]
        body = b""
        if getattr(e, "addr32", False):
            body += b"\x67"
        if p66:
            body += b"\x66"
        body += pre
        if need_rex:
            body += bytes([0x40 | (8 if rexw else 0) | (rexR << 2) | (rexX << 1) | rexB])
        body += opcode
        if modrm is not None:
            if b"RIP!" in modrm:
                total = len(body) + len(modrm) + len(imm)
                disp = e.rip_target - (CODE_ADDR + total)
                modrm = modrm.replace(b"RIP!", struct.pack("<i", disp))
            body += modrm
        body += imm
        e.code = body
        return e

    # -- templates -----------------------------------------------------------------------------
    def pick(self):
        r = self.r
        t = r.choice(self.templates())
        for _ in range(20):
            try:
                e = t()
            except NotInMode:
                return None
            if e is not None and 0 < len(e.code) <= 15:
                return e
        return None

    def templates(self):
        T = [self.t_alu_rm_r, self.t_alu_rm_r, self.t_alu_r_rm, self.t_alu_acc_imm, self.t_alu_rm_imm, self.t_alu_rm_imm,
             self.t_test, self.t_unary, self.t_unary, self.t_incdec, self.t_mov, self.t_mov, self.t_mov_imm, self.t_lea,
             self.t_movx, self.t_movx, self.t_xchg, self.t_pushpop, self.t_pushpop, self.t_shift, self.t_shift, self.t_shift, self.t_rot_wrap,
             self.t_imul, self.t_cmov, self.t_setcc, self.t_bswap, self.t_bt, self.t_bitscan, self.t_xadd_cmpxchg,
             self.t_shxd, self.t_convert, self.t_flagops, self.t_string, self.t_misc]
        return T

    def _rm(self, e, regfield, size, **kw):
        rR, rX, rB, body, info = self.modrm(e, regfield, size=size, **kw)
        if "rip" in info:
            e.rip_target = info["rip"]
        e.info = info
        return (rR, rX, rB), body, info

    def t_alu_rm_r(self):
        k = self.r.randrange(8)
        byteop = self.r.random() < 0.25
        size, p66, w = self.opsize(byteop)
        e = Enc(ALU[k]); e.size = size
        rex, body, info = self._rm(e, None, size)
        br = [info["reg"]] + ([info["rm"][1]] if info["rm"][0] == "reg" else []) if byteop else []
        return self.assemble(e, bytes([8 * k + (0 if byteop else 1)]), body, p66=p66, rexw=w, rex=rex, byteregs=br)

    def t_alu_r_rm(self):
        k = self.r.randrange(8)
        byteop = self.r.random() < 0.25
        size, p66, w = self.opsize(byteop)
        e = Enc(ALU[k]); e.size = size
        rex, body, info = self._rm(e, None, size)
        br = [info["reg"]] + ([info["rm"][1]] if info["rm"][0] == "reg" else []) if byteop else []
        return self.assemble(e, bytes([8 * k + (2 if byteop else 3)]), body, p66=p66, rexw=w, rex=rex, byteregs=br)

    def t_alu_acc_imm(self):
        k = self.r.randrange(8)
        byteop = self.r.random() < 0.3
        size, p66, w = self.opsize(byteop)
        e = Enc(ALU[k]); e.size = size
        return self.assemble(e, bytes([8 * k + (4 if byteop else 5)]), None, imm_bytes(self.r, 1 if byteop else (2 if size == 16 else 4)),
                             p66=p66, rexw=w)

    def t_alu_rm_imm(self):
        k = self.r.randrange(8)
        form = self.r.choice([0x80, 0x81, 0x83])
        size, p66, w = self.opsize(form == 0x80)
        e = Enc(ALU[k]); e.size = size
        rex, body, info = self._rm(e, k, size)
        n = 1 if form in (0x80, 0x83) else (2 if size == 16 else 4)
        br = [info["rm"][1]] if form == 0x80 and info["rm"][0] == "reg" else []
        return self.assemble(e, bytes([form]), body, imm_bytes(self.r, n), p66=p66, rexw=w, rex=rex, byteregs=br)

    def t_test(self):
        form = self.r.choice([0x84, 0x85, 0xA8, 0xA9, 0xF6, 0xF7])
        byteop = form in (0x84, 0xA8, 0xF6)
        size, p66, w = self.opsize(byteop)
        e = Enc("TEST"); e.size = size; e.undef = {"af"}
        n = 1 if byteop else (2 if size == 16 else 4)
        if form in (0xA8, 0xA9):
            return self.assemble(e, bytes([form]), None, imm_bytes(self.r, n), p66=p66, rexw=w)
        rex, body, info = self._rm(e, 0 if form in (0xF6, 0xF7) else None, size)
        br = ([info["reg"]] if form == 0x84 else []) + ([info["rm"][1]] if info["rm"][0] == "reg" else []) if byteop else []
        return self.assemble(e, bytes([form]), body, imm_bytes(self.r, n) if form in (0xF6, 0xF7) else b"", p66=p66, rexw=w, rex=rex, byteregs=br)

    def t_unary(self):
        d = self.r.choice([2, 3, 4, 5])
        byteop = self.r.random() < 0.3
        size, p66, w = self.opsize(byteop)
        e = Enc({2: "NOT", 3: "NEG", 4: "MUL", 5: "IMUL"}[d]); e.size = size
        if d in (4, 5):
            e.undef = {"sf", "zf", "af", "pf"}
        rex, body, info = self._rm(e, d, size, avoid=(0, 2) if d in (4, 5) else ())
        br = [info["rm"][1]] if byteop and info["rm"][0] == "reg" else []
        return self.assemble(e, bytes([0xF6 if byteop else 0xF7]), body, p66=p66, rexw=w, rex=rex, byteregs=br)

    def t_incdec(self):
        d = self.r.randrange(2)
        byteop = self.r.random() < 0.3
        size, p66, w = self.opsize(byteop)
        e = Enc(["INC", "DEC"][d]); e.size = size
        rex, body, info = self._rm(e, d, size)
        br = [info["rm"][1]] if byteop and info["rm"][0] == "reg" else []
        return self.assemble(e, bytes([0xFE if byteop else 0xFF]), body, p66=p66, rexw=w, rex=rex, byteregs=br)

    def t_mov(self):
        form = self.r.choice([0x88, 0x89, 0x8A, 0x8B])
        byteop = form in (0x88, 0x8A)
        size, p66, w = self.opsize(byteop)
        e = Enc("MOV"); e.size = size
        rex, body, info = self._rm(e, None, size)
        br = [info["reg"]] + ([info["rm"][1]] if info["rm"][0] == "reg" else []) if byteop else []
        return self.assemble(e, bytes([form]), body, p66=p66, rexw=w, rex=rex, byteregs=br)

    def t_mov_imm(self):
        form = self.r.choice(["C6", "C7", "B0", "B8"])
        e = Enc("MOV")
        if form in ("C6", "C7"):
            size, p66, w = self.opsize(form == "C6")
            e.size = size
            rex, body, info = self._rm(e, 0, size)
            n = 1 if form == "C6" else (2 if size == 16 else 4)
            br = [info["rm"][1]] if form == "C6" and info["rm"][0] == "reg" else []
            return self.assemble(e, bytes([int(form, 16)]), body, imm_bytes(self.r, n), p66=p66, rexw=w, rex=rex, byteregs=br)
        reg = self.r.randrange(self.nreg)
        if form == "B0":
            e.size = 8
            return self.assemble(e, bytes([0xB0 + (reg & 7)]), None, imm_bytes(self.r, 1), rex=(0, 0, reg >> 3), byteregs=[reg])
        size, p66, w = self.opsize()
        e.size = size
        return self.assemble(e, bytes([0xB8 + (reg & 7)]), None, imm_bytes(self.r, size // 8), p66=p66, rexw=w, rex=(0, 0, reg >> 3))

    def t_lea(self):
        size, p66, w = self.opsize()
        e = Enc("LEA"); e.size = size
        rex, body, info = self._rm(e, None, size, mem=True)
        return self.assemble(e, b"\x8D", body, p66=p66, rexw=w, rex=rex)

    def t_movx(self):
        form = self.r.choice(["0FB6", "0FB7", "0FBE", "0FBF", "63"])
        e = Enc({"0FB6": "MOVZX", "0FB7": "MOVZX", "0FBE": "MOVSX", "0FBF": "MOVSX", "63": "MOVSXD"}[form])
        if form == "63":
            if self.ia32:
                raise NotInMode()
            size, p66, w = 64, False, True
            src = 32
        else:
            size, p66, w = self.opsize(allow16=form in ("0FB6", "0FBE"))
            src = 8 if form in ("0FB6", "0FBE") else 16
        e.size = size
        rex, body, info = self._rm(e, None, src)
        br = [info["rm"][1]] if src == 8 and info["rm"][0] == "reg" else []
        return self.assemble(e, bytes.fromhex(form), body, p66=p66, rexw=w, rex=rex, byteregs=br)

    def t_xchg(self):
        if self.r.random() < 0.3:
            reg = self.r.randrange(1, self.nreg)
            size, p66, w = self.opsize()
            e = Enc("XCHG"); e.size = size
            return self.assemble(e, bytes([0x90 + (reg & 7)]), None, p66=p66, rexw=w, rex=(0, 0, reg >> 3))
        byteop = self.r.random() < 0.3
        size, p66, w = self.opsize(byteop)
        e = Enc("XCHG"); e.size = size
        rex, body, info = self._rm(e, None, size)
        br = [info["reg"]] + ([info["rm"][1]] if info["rm"][0] == "reg" else []) if byteop else []
        return self.assemble(e, bytes([0x86 if byteop else 0x87]), body, p66=p66, rexw=w, rex=rex, byteregs=br)

    def t_pushpop(self):
        if self.ia32:
            raise NotInMode()           # stack width differs between the modes
        form = self.r.choice(["50", "58", "6A", "68", "FF6", "8F0"])
        e = Enc("PUSH" if form in ("50", "6A", "68", "FF6") else "POP"); e.size = 64
        if form in ("50", "58"):
            reg = self.r.randrange(self.nreg)
            return self.assemble(e, bytes([int(form, 16) + (reg & 7)]), None, rex=(0, 0, reg >> 3))
        if form == "6A":
            return self.assemble(e, b"\x6A", None, imm_bytes(self.r, 1))
        if form == "68":
            return self.assemble(e, b"\x68", None, imm_bytes(self.r, 4))
        rex, body, info = self._rm(e, 6 if form == "FF6" else 0, 64)
        return self.assemble(e, b"\xFF" if form == "FF6" else b"\x8F", body, rex=rex)

    def t_shift(self):
        k = self.r.choice([0, 1, 2, 3, 4, 5, 7, 4, 5, 7])
        form = self.r.choice(["C0", "D0", "D2"])
        byteop = self.r.random() < 0.25
        size, p66, w = self.opsize(byteop)
        e = Enc(SHIFTS[k]); e.size = size
        rex, body, info = self._rm(e, k, size, avoid=(1,))
        br = [info["rm"][1]] if byteop and info["rm"][0] == "reg" else []
        op = int(form, 16) + (0 if byteop else 1)
        imm = b""
        if form == "C0":
            n = self.r.choice([0, 1, 2, size - 1, size, size + 1, 31, 32, 33, 63, 64, 7, 8, 9, 15, 16, 17, self.r.getrandbits(8)]) & 0xFF
            imm = bytes([n])
            e.count = ("imm", n)
        elif form == "D0":
            e.count = ("imm", 1)
        else:
            e.count = ("cl",)
        return self.assemble(e, bytes([op]), body, imm, p66=p66, rexw=w, rex=rex, byteregs=br)

    def t_rot_wrap(self):
        """rotates of 8/16-bit operands by a (masked) count that is a non-zero multiple of the operand
        size: the value is unchanged but CF is written; RCL/RCR by multiples of 9/17"""
        k = self.r.choice([0, 1, 0, 1, 2, 3])
        byteop = self.r.random() < 0.6
        size, p66, w = (8, False, False) if byteop else (16, True, False)
        e = Enc(SHIFTS[k]); e.size = size
        rex, body, info = self._rm(e, k, size, avoid=(1,))
        br = [info["rm"][1]] if byteop and info["rm"][0] == "reg" else []
        period = size if k < 2 else size + 1
        n = period * self.r.choice([1, 1, 2, 3])
        if n > 31:
            n = period
        e.count = ("imm", n)
        return self.assemble(e, bytes([0xC0 + (0 if byteop else 1)]), body, bytes([n]), p66=p66, rexw=w, rex=rex, byteregs=br)

    def t_imul(self):
        form = self.r.choice(["0FAF", "69", "6B"])
        size, p66, w = self.opsize()
        e = Enc("IMUL"); e.size = size; e.undef = {"sf", "zf", "af", "pf"}
        rex, body, info = self._rm(e, None, size)
        imm = b"" if form == "0FAF" else imm_bytes(self.r, 1 if form == "6B" else (2 if size == 16 else 4))
        return self.assemble(e, bytes.fromhex(form), body, imm, p66=p66, rexw=w, rex=rex)

    def t_cmov(self):
        cc = self.r.randrange(16)
        size, p66, w = self.opsize()
        e = Enc("CMOV" + CC[cc]); e.size = size
        rex, body, info = self._rm(e, None, size)
        return self.assemble(e, bytes([0x0F, 0x40 + cc]), body, p66=p66, rexw=w, rex=rex)

    def t_setcc(self):
        cc = self.r.randrange(16)
        e = Enc("SET" + CC[cc]); e.size = 8
        rex, body, info = self._rm(e, 0, 8)
        br = [info["rm"][1]] if info["rm"][0] == "reg" else []
        return self.assemble(e, bytes([0x0F, 0x90 + cc]), body, rex=rex, byteregs=br, force_rex=self.r.random() < 0.3)

    def t_bswap(self):
        reg = self.r.randrange(self.nreg)
        w = self.r.random() < 0.5 and not self.ia32
        e = Enc("BSWAP"); e.size = 64 if w else 32
        return self.assemble(e, bytes([0x0F, 0xC8 + (reg & 7)]), None, rexw=w, rex=(0, 0, reg >> 3))

    def t_bt(self):
        k = self.r.randrange(4)
        name = ["BT", "BTS", "BTR", "BTC"][k]
        size, p66, w = self.opsize()
        e = Enc(name); e.size = size; e.undef = {"of", "sf", "af", "pf"}
        if self.r.random() < 0.5:
            rex, body, info = self._rm(e, None, size, mem=False)
            return self.assemble(e, bytes([0x0F, [0xA3, 0xAB, 0xB3, 0xBB][k]]), body, p66=p66, rexw=w, rex=rex)
        rex, body, info = self._rm(e, 4 + k, size)
        return self.assemble(e, b"\x0F\xBA", body, bytes([self.r.choice([0, 1, 7, 15, 16, 31, 32, 63, 64, self.r.getrandbits(8)]) & 0xFF]),
                             p66=p66, rexw=w, rex=rex)

    def t_bitscan(self):
        opts = ["BSF", "BSR"]
        if self.have.get("popcnt"):
            opts.append("POPCNT")
        if self.have.get("bmi1"):
            opts.append("TZCNT")
        if self.have.get("abm"):
            opts.append("LZCNT")
        name = self.r.choice(opts)
        size, p66, w = self.opsize()
        e = Enc(name); e.size = size
        if name in ("BSF", "BSR"):
            e.undef = {"cf", "of", "sf", "af", "pf"}
            e.dest_undef_if_zero = True
        elif name == "POPCNT":
            e.undef = set()
        else:
            e.undef = {"of", "sf", "af", "pf"}
        rex, body, info = self._rm(e, None, size)
        pre = b"" if name in ("BSF", "BSR") else b"\xF3"
        op = {"BSF": 0xBC, "BSR": 0xBD, "POPCNT": 0xB8, "TZCNT": 0xBC, "LZCNT": 0xBD}[name]
        return self.assemble(e, bytes([0x0F, op]), body, p66=p66, rexw=w, rex=rex, pre=pre)

    def t_xadd_cmpxchg(self):
        name = self.r.choice(["XADD", "CMPXCHG"])
        byteop = self.r.random() < 0.3
        size, p66, w = self.opsize(byteop)
        e = Enc(name); e.size = size
        rex, body, info = self._rm(e, None, size, avoid=(0,) if name == "CMPXCHG" else ())
        br = [info["reg"]] + ([info["rm"][1]] if info["rm"][0] == "reg" else []) if byteop else []
        op = (0xC0 if name == "XADD" else 0xB0) + (0 if byteop else 1)
        return self.assemble(e, bytes([0x0F, op]), body, p66=p66, rexw=w, rex=rex, byteregs=br)

    def t_shxd(self):
        left = self.r.random() < 0.5
        bycl = self.r.random() < 0.4
        size, p66, w = self.opsize()
        e = Enc("SHLD" if left else "SHRD"); e.size = size
        rex, body, info = self._rm(e, None, size, avoid=(1,))
        op = (0xA4 if left else 0xAC) + (1 if bycl else 0)
        imm = b""
        if bycl:
            e.count = ("cl",)
        else:
            n = self.r.choice([0, 1, 2, size - 1, size, 31, 32, 33, 15, 16, 17, self.r.getrandbits(8)]) & 0xFF
            imm = bytes([n]); e.count = ("imm", n)
        return self.assemble(e, bytes([0x0F, op]), body, imm, p66=p66, rexw=w, rex=rex)

    def t_convert(self):
        op = self.r.choice([0x98, 0x99])
        size, p66, w = self.opsize()
        e = Enc({(0x98, 16): "CBW", (0x98, 32): "CWDE", (0x98, 64): "CDQE", (0x99, 16): "CWD", (0x99, 32): "CDQ", (0x99, 64): "CQO"}[(op, size)])
        e.size = size
        return self.assemble(e, bytes([op]), None, p66=p66, rexw=w)

    def t_flagops(self):
        name, op = self.r.choice([("CLC", 0xF8), ("STC", 0xF9), ("CMC", 0xF5), ("CLD", 0xFC), ("STD", 0xFD), ("LAHF", 0x9F), ("SAHF", 0x9E)])
        e = Enc(name); e.size = 8
        return self.assemble(e, bytes([op]), None)

    def t_string(self):
        name = self.r.choice(["MOVS", "STOS", "LODS", "SCAS", "CMPS"])
        byteop = self.r.random() < 0.3
        size, p66, w = self.opsize(byteop)
        e = Enc(name); e.size = size
        base = {"MOVS": 0xA4, "STOS": 0xAA, "LODS": 0xAC, "SCAS": 0xAE, "CMPS": 0xA6}[name]
        a = WIN_ADDR + 0x300 + self.r.randrange(0x100)
        b = WIN_ADDR + 0x600 + self.r.randrange(0x100)
        e.steer += [(6, a), (7, b)]
        e.string = True
        return self.assemble(e, bytes([base + (0 if byteop else 1)]), None, p66=p66, rexw=w)

    def t_misc(self):
        k = self.r.choice(["NOP", "NOPL", "LEAVE", "ADCX", "ADOX", "MOVBE"])
        if k == "NOP":
            return self.assemble(Enc("NOP"), b"\x90", None)
        if k == "NOPL":
            e = Enc("NOP")
            rex, body, info = self._rm(e, 0, 32)
            return self.assemble(e, b"\x0F\x1F", body, rex=rex)
        if k == "LEAVE":
            if self.ia32:
                raise NotInMode()
            e = Enc("LEAVE"); e.size = 64
            e.steer.append((5, (WIN_ADDR + 0x400 + 8 * self.r.randrange(0x40))))
            return self.assemble(e, b"\xC9", None)
        if k in ("ADCX", "ADOX"):
            if not self.have.get("adx"):
                return None
            w = self.r.random() < 0.5 and not self.ia32
            e = Enc(k); e.size = 64 if w else 32
            rex, body, info = self._rm(e, None, e.size)
            return self.assemble(e, b"\x0F\x38\xF6", body, rexw=w, rex=rex, pre=b"\x66" if k == "ADCX" else b"\xF3")
        if not self.have.get("movbe"):
            return None
        size, p66, w = self.opsize()
        e = Enc("MOVBE"); e.size = size
        rex, body, info = self._rm(e, None, size, mem=True)
        return self.assemble(e, bytes([0x0F, 0x38, self.r.choice([0xF0, 0xF1])]), body, p66=p66, rexw=w, rex=rex)


# -----------------------------------------------------------------------------------------------
# state generation and the per-case defined-flag rule
# -----------------------------------------------------------------------------------------------

def gen_regs(r, e):
    pool = [0, 1, 2, 0x7F, 0x80, 0xFF, 0x100, 0x7FFF, 0x8000, 0xFFFF, 0x7FFFFFFF, 0x80000000, 0xFFFFFFFF, 0x100000000,
            (1 << 63) - 1, 1 << 63, M64, M64 - 1, 0x5555555555555555, 0xAAAAAAAAAAAAAAAA, 0x0123456789ABCDEF, 0xFFFFFFFF00000000]
    regs = [(r.choice(pool) if r.random() < 0.5 else r.getrandbits(64)) for _ in range(16)]
    regs[4] = WIN_ADDR + 0x800 + 8 * r.randrange(-16, 16)
    if e.count == ("cl",):
        n = e.size
        regs[1] = (regs[1] & ~0xFF) | (r.choice([0, 1, 2, n - 1, n, n + 1, 31, 32, 33, 63, 64, 65, 0xFF, 0x80, r.getrandbits(8)]) & 0xFF)
    for reg, v in e.steer:
        regs[reg] = v & M64
    return regs


def gen_flags(r, e):
    f = 0
    for k in STATUS:
        if r.random() < 0.5:
            f |= 1 << FLAG_BITS[k]
    if getattr(e, "string", False) and r.random() < 0.4:
        f |= 1 << FLAG_BITS["df"]
    return f


def undefined_flags(e, regs):
    """flags the SDM leaves undefined for this instruction on these operand values"""
    u = set(e.undef)
    if e.name in ("AND", "OR", "XOR"):
        u |= {"af"}
    if e.name in SHIFTS.values() or e.name in ("SHLD", "SHRD"):
        cnt = e.count[1] if e.count[0] == "imm" else regs[1] & 0xFF
        cnt &= 0x3F if e.size == 64 else 0x1F
        if e.name in ("RCL", "RCR"):
            cnt %= {8: 9, 16: 17}.get(e.size, 1 << 30)
        if e.name in ("ROL", "ROR"):
            # count masked to 5/6 bits; a masked count that is a multiple of the size still updates CF
            pass
        if cnt == 0:
            return set()                      # nothing is affected
        if e.name in ("ROL", "ROR", "RCL", "RCR"):
            if cnt != 1:
                u |= {"of"}
        else:
            u |= {"af"}
            if cnt != 1:
                u |= {"of"}
            if e.name in ("SHL", "SHR") and cnt > e.size:
                u |= {"cf"}
            if e.name in ("SHLD", "SHRD") and cnt > e.size:
                u |= {"cf", "of", "sf", "zf", "af", "pf"}
                e.undef_regs_dyn = True
    return u


# -----------------------------------------------------------------------------------------------
# the comparison run
# -----------------------------------------------------------------------------------------------

def flags_of(v):
    return {k: (v >> b) & 1 for k, b in FLAG_BITS.items()}


def native_part(ck, tier, r):
    quick = tier == "quick"
    try:
        nat = Native()
    except InternalError as ex:
        ck.count("x86.native-helper-unavailable")
        ck.assumptions.append("native x86 oracle unavailable: %s" % ex)
        return
    have = {k: host_has(k) for k in ("popcnt", "bmi1", "abm", "adx", "movbe")}
    ck.cov["x86_host_features"] = have
    native_stream(ck, nat, Gen(r, have), "x64", 1500 if quick else 60000, r)
    # the IA-32 forms whose bytes and meaning are the same in both modes, through amoco's x86 (32-bit) decoder/semantics
    native_stream(ck, nat, Gen(r, have, ia32=True), "x86", 700 if quick else 30000, r)
    ck.cov["x86_native_restarts"] = nat.restarts
    nat.close()


def native_stream(ck, nat, g, mode, n, r):
    nregs_cmp = 16 if mode == "x64" else 8
    for _ in range(n):
        e = g.pick()
        if e is None:
            continue
        regs = gen_regs(r, e)
        if mode == "x86":
            regs = [v & 0xFFFFFFFF for v in regs]
        flags = gen_flags(r, e)
        mem = bytes(r.getrandbits(8) for _ in range(256)) * (WIN // 256)
        st, nregs, nflags, nmem = nat.run(e.code, regs, flags, mem)
        if st != 0:
            ck.count("%s.native-fault(skipped)" % mode)
            continue
        if mode == "x86" and any(v >> 32 for v in nregs[:8]):
            ck.count("x86.mode-dependent-result(skipped)")
            continue
        i = amoco_decode(e.code, mode)
        case = {"mode": mode, "code": e.code.hex(), "template": e.name, "size": e.size, "regs": ["%x" % v for v in regs], "rflags": "%x" % flags,
                "mem_pattern": mem[:256].hex()}
        sig = "C06:%s:%s:" % (mode, e.name)
        ck.count("%s.%s" % (mode, e.name))
        if i is None or isinstance(i, str) or i.length != len(e.code):
            what = "not-decoded" if i is None else (i if isinstance(i, str) else "decoded-length")
            if getattr(e, "addr32", False) and what == "decoded-length":
                sig, what = "C06:x64:", "addr32-prefix-67:decoded-length"
            ck.case((mode, e.code, tuple(regs), flags), nontrivial=True)
            ck.report(sig + what, "%s %s (%s): amoco %s; the CPU executes it" % (mode, e.name, e.code.hex(), what), "oracle",
                      "oracle native CPU (instruction bodies are not modelled)", case=case, real=what,
                      expected={"regs": ["%x" % v for v in nregs], "rflags": "%x" % nflags})
            continue
        real = amoco_run(i, regs, flags, mem, mode)
        ck.case((mode, e.code, tuple(regs), flags), nontrivial=True)
        if "raise" in real:
            ck.report(sig + "raise:" + real["raise"], "%s %s (%s, %s): instruction(mapper) raises %s" % (mode, e.name, e.code.hex(), i, real["raise"]),
                      "oracle", "oracle native CPU", case=case, real=real, expected={"regs": ["%x" % v for v in nregs], "rflags": "%x" % nflags})
            continue
        und = undefined_flags(e, regs)
        nf = flags_of(nflags)
        asp = []
        for k in range(nregs_cmp):
            if real["regs"][k] != nregs[k]:
                if getattr(e, "dest_undef_if_zero", False) and nf["zf"] == 1:
                    continue            # BSF/BSR with a zero source: destination undefined
                if getattr(e, "undef_regs_dyn", False):
                    continue
                asp.append(("reg", "sym" if isinstance(real["regs"][k], str) else "value"))
        for k in FLAG_BITS:
            if k in und:
                continue
            if real["flags"][k] != nf[k]:
                asp.append((k, "top" if real["flags"][k] == "top" else ("sym" if isinstance(real["flags"][k], str) else "value")))
        if real["rip"] != CODE_ADDR + len(e.code):
            asp.append(("rip", "value"))
        rmem, bad = real["mem"], real["bad_mem"]
        cmem = nmem
        if getattr(e, "undef_regs_dyn", False) and getattr(e, "info", None) and e.info["rm"][0] == "mem":
            # the destination is architecturally undefined here (SHLD/SHRD with a count above the operand
            # size: Intel and AMD parts differ), and it is a memory operand: its bytes are not compared
            lo = e.info["rm"][1] - WIN_ADDR
            hi = lo + e.info["rm"][2]
            if 0 <= lo and hi <= WIN and rmem is not None and len(rmem) == len(nmem):
                rmem = rmem[:lo] + bytes(hi - lo) + rmem[hi:]
                cmem = nmem[:lo] + bytes(hi - lo) + nmem[hi:]
                bad = [b for b in bad if not (lo <= b < hi)]
        if rmem != cmem or bad:
            asp.append(("mem", "sym" if bad else "value"))
        if len(ck.cov["samples"]) < 8 and e.name in ("ADC", "SHL", "CMOVL", "MOVSX", "SBB"):
            ck.sample({mode: case, "decoded": str(i), "agree": not asp})
        seen = set()
        for what, kind in asp:
            key = what if kind == "value" else "%s:%s" % (what, kind)
            if key in seen:
                continue
            seen.add(key)
            ck.report(sig + key, "%s %s (%s = %s): %s differs from the CPU (amoco %s, CPU %s)" %
                      (mode, e.name, e.code.hex(), i, what, summary(real, what), summary_native(nregs, nf, what)),
                      "oracle", "oracle native CPU (instruction bodies are not modelled)", case=case,
                      real={"regs": [hx(v) for v in real["regs"]], "flags": real["flags"], "rip": hx(real["rip"])},
                      expected={"regs": ["%x" % v for v in nregs], "flags": nf, "undefined": sorted(und)})


def hx(v):
    return "%x" % v if isinstance(v, int) else str(v)


def summary(real, what):
    if what in FLAG_BITS:
        return str(real["flags"][what])
    if what == "reg":
        return ",".join(hx(v) for v in real["regs"][:4]) + ",…"
    return what


def summary_native(nregs, nf, what):
    if what in FLAG_BITS:
        return str(nf[what])
    if what == "reg":
        return ",".join("%x" % v for v in nregs[:4]) + ",…"
    return what


def run(ck, drv, tier, corr_broken, machinery):
    r = rng("C06.x86")
    try:
        import rv_x86flags
        rv_x86flags.helpers_part(ck, drv, tier, rng("C06.x86.helpers"), corr_broken, machinery)
    except ImportError:
        ck.count("x86.helpers-part-not-built")
    native_part(ck, tier, r)
