"""
macho_check.py — Mach-O half of C14 / C20: real amoco.system.macho.MachO  vs  the Lean model (drv_macho)
vs an independent struct-based by-the-book reader.  Exposes run_c14(ck, tier, corr), run_c20(ck, tier, corr).
"""
import os, sys, struct, glob, json, traceback
from common import *
from fmt_real import with_timeout, exn_name, raising_site, Timeout
import fmt_gen as G
from amoco.system.core import DataIO
from amoco.system import macho as M

TARGETS = ["Amoco.Props.C14Macho", "drv_macho"]
POST = {0x2, 0x4, 0x5, 0xb, 0x22, 0x80000022, 0x26}
# fixed part of the command structures the library claims to decode (<mach-o/loader.h>)
SIZES = {0x2: 24, 0x3: 16, 0x4: 16, 0x5: 16, 0x6: 20, 0x7: 20, 0x8: 8, 0x9: 16, 0xb: 80, 0xc: 24, 0xd: 24, 0x80000018: 24,
         0x8000001f: 24, 0xe: 12, 0xf: 12, 0x10: 20, 0x11: 40, 0x1a: 72, 0x12: 12, 0x13: 12, 0x14: 12, 0x15: 12, 0x16: 16,
         0x17: 12, 0x1b: 24, 0x8000001c: 12, 0x1d: 16, 0x1e: 16, 0x26: 16, 0x29: 16, 0x2b: 16, 0x21: 20, 0x22: 48,
         0x80000022: 48, 0x24: 16, 0x25: 16, 0x2a: 16, 0x80000028: 24, 0x31: 40}
SEGF = ("vmaddr", "vmsize", "fileoffset", "filesize", "maxprot", "initprot", "nsects", "flags")
SECF = ("addr", "size_", "offset", "align", "reloff", "nreloc")
MAGICS = (b"\xce\xfa\xed\xfe", b"\xcf\xfa\xed\xfe")


def js(x):
    return json.dumps(x, sort_keys=True)


def diff_path(a, b):
    """names (without indices) on the way to the first difference of two JSON-like values"""
    if isinstance(a, dict) and isinstance(b, dict):
        for k in sorted(set(a) | set(b)):
            if a.get(k) != b.get(k):
                return (k + "." + diff_path(a.get(k), b.get(k))).rstrip(".")
    if isinstance(a, list) and isinstance(b, list):
        if len(a) != len(b):
            return "len"
        for x, y in zip(a, b):
            if x != y:
                return diff_path(x, y)
    return ""


# ---------------------------------------------------------------------------------------- real
def frames(e):
    out = []
    while e is not None:
        out += [(os.path.basename(f.filename), f.name) for f in traceback.extract_tb(e.__traceback__)]
        e = e.__context__
    return out


def macho_fn(e):
    fr = [f.name for f in traceback.extract_tb(e.__traceback__) if f.filename.endswith("macho.py")]
    return fr[-1] if fr else "read_commands"


def stage_fn(e):
    """the function `__parse` was in when the exception was raised (read_commands, or a post-processing step)"""
    fr = [f.name for f in traceback.extract_tb(e.__traceback__) if f.filename.endswith("macho.py")]
    return fr[fr.index("__parse") + 1] if "__parse" in fr[:-1] else (fr[-1] if fr else "read_commands")


def dump(p):
    if p._is_fat:
        return {"init": "ok", "kind": "fat", "header": {"magic": p.header.magic, "nfat_arch": p.header.nfat_arch}, "cmds": None}
    hdr = {f.name: getattr(p.header, f.name) for f in p.header.fields}
    cmds = []
    for c in p.cmds:
        d = {"cmd": c.cmd, "cmdsize": c.cmdsize}
        if isinstance(c, (M.struct_segment_command, M.struct_segment_command_64)):
            d["kind"] = "seg"
            d["segname"] = bytes(c.segname).hex()
            for n in SEGF:
                d[n] = getattr(c, n)
            d["sections"] = []
            for s in c.sections:
                x = {"sectname": bytes(s.sectname).hex(), "segname": bytes(s.segname).hex(), "ftype": s.flags.type,
                     "fattr": bytes(s.flags.attr).hex(), "reserved1": s.reserved1, "reserved2": s.reserved2}
                for n in SECF:
                    x[n] = getattr(s, n)
                if isinstance(s, M.struct_section_64):
                    x["reserved3"] = s.reserved3
                d["sections"].append(x)
        else:
            d["kind"] = "raw" if type(c) is M.struct_load_command else "known"
        cmds.append(d)
    return {"init": "ok", "kind": "macho64" if hdr["magic"] == 0xFEEDFACF else "macho32", "header": hdr, "cmds": cmds}


class Real(object):
    def __init__(self):
        self.tmo, self.nt = 5.0, {}

    def run(self, bucket, b):
        if self.nt.get(bucket, 0) >= (3 if sum(self.nt.values()) < 8 else 1):
            return None, {"init": "skipped"}
        try:
            p = with_timeout(self.tmo, M.MachO, DataIO(b))
        except Timeout as e:
            self.nt[bucket] = self.nt.get(bucket, 0) + 1
            self.tmo = 0.5          # the first timeout is waited for in full, later ones only long enough to tell a hang
            fn = stage_fn(e)
            return None, {"init": "timeout", "fn": fn, "post": fn not in ("read_commands", "__parse", "__init__", "read_fat_arch")}
        except Exception as e:
            fr = frames(e)
            post = not any(n == "read_commands" for (_, n) in fr) and any(n == "getstate" or n.startswith("__read_") or n.endswith("_bindings") for (_, n) in fr)
            return None, {"init": exn_name(e), "site": raising_site(e), "fn": macho_fn(e), "post": post}
        try:
            return p, dump(p)
        except Exception as e:
            return None, {"init": "dump-failed:" + exn_name(e), "site": repr(e)[:200]}


def queries(p, d, r):
    """targets, getinfo and getfileoffset answers of a real object"""
    ts, ids = [0], {}
    for ci, c in enumerate(p.cmds):
        ids[id(c)] = ["seg", ci]
        if d["cmds"][ci]["kind"] == "seg":
            ts += [c.vmaddr, c.vmaddr + c.vmsize - 1, c.vmaddr + c.vmsize]
            for si, s in enumerate(c.sections):
                ids[id(s)] = ["sect", ci, si]
                ts += [s.addr, s.addr + s.size_ - 1, s.addr + s.size_]
    ts = [t for t in ts if t >= 0][:60] + [r.getrandbits(r.choice([13, 16, 33])) for _ in range(3)]
    info, fo = [], []
    for t in ts:
        s, off, base = p.getinfo(t)
        info.append(["none", 0, 0] if s is None else ids.get(id(s), ["?"]) + [off, base])
        try:
            fo.append(["v", p.getfileoffset(t)])
        except Exception as e:
            fo.append(["exn", exn_name(e)])
    return ts, info, fo


# ---------------------------------------------------------------------------------------- oracle
def oracle(b):
    """by-the-book reader; None when the image is not well-formed"""
    if len(b) < 28:
        return None
    magic = struct.unpack_from("<I", b, 0)[0]
    if magic == 0xFEEDFACE:
        q, hs = False, 28
        hdr = dict(zip(["magic", "cputype", "cpusubtype", "filetype", "ncmds", "sizeofcmds", "flags"], struct.unpack_from("<IiiIIII", b, 0)))
    elif magic == 0xFEEDFACF and len(b) >= 32:
        q, hs = True, 32
        hdr = dict(zip(["magic", "cputype", "cpusubtype", "filetype", "ncmds", "sizeofcmds", "flags", "reserved"], struct.unpack_from("<8I", b, 0)))
    else:
        return None
    end = hs + hdr["sizeofcmds"]
    if end > len(b):
        return None
    off, cmds = hs, []
    for _ in range(hdr["ncmds"]):
        if off + 8 > end:
            return None
        cmd, size = struct.unpack_from("<II", b, off)
        if size < 8 or off + size > end:
            return None
        c, d = b[off:off + size], {"off": off, "cmd": cmd, "cmdsize": size}
        if cmd in (0x1, 0x19):
            q64 = cmd == 0x19
            base, ss = (72, 80) if q64 else (56, 68)
            if size < base:
                return None
            v = struct.unpack_from("<16sQQQQiiII" if q64 else "<16sIIIIiiII", c, 8)
            d.update(dict(zip(("segname",) + SEGF, v)), kind="seg", segname=v[0].hex(), sections=[])
            if base + d["nsects"] * ss > size:
                return None
            for k in range(d["nsects"]):
                w = struct.unpack_from("<16s16sQQIIIIB3sIII" if q64 else "<16s16sIIIIIIB3sII", c, base + k * ss)
                try:
                    w[1].decode("utf-8")
                except UnicodeDecodeError:
                    return None
                x = dict(zip(("sectname", "segname") + SECF + ("ftype", "fattr", "reserved1", "reserved2", "reserved3"), w))
                x.update(sectname=w[0].hex(), segname=w[1].hex(), fattr=w[9].hex())
                d["sections"].append(x)
        elif cmd == 0x32:
            if size < 24 or 24 + 8 * struct.unpack_from("<I", c, 20)[0] > size:
                return None
            d["kind"] = "known"
        elif cmd in SIZES:
            if size < SIZES[cmd]:
                return None
            d["kind"] = "known"
        else:
            d["kind"] = "raw"
        cmds.append(d)
        off += size
    if off != end:
        return None
    return {"kind": "macho64" if q else "macho32", "header": hdr, "cmds": cmds}


def strip(cmds, keys=("off", "extent", "need")):
    return None if cmds is None else [{k: v for k, v in c.items() if k not in keys} for c in cmds]


# ---------------------------------------------------------------------------------------- generator
UTF = [b"\xff\xfe__X", b"__T\xc3", "__TÉXT".encode(), "日本語".encode(), b"\xed\xa0\x80", b"\xc0\x80", b"\xf4\x90\x80\x80",
       "\U0001d11eseg".encode(), b"A" * 15 + b"\xc3", b"\xe2\x82", "é" .encode() * 8]
KNOWN = [(0x1b, 24), (0x2a, 16), (0x24, 16), (0x25, 16), (0x80000028, 24), (0x8000001c, 12), (0xc, 24), (0xe, 12), (0x32, 24), (0x31, 40),
         (0x1d, 16), (0x29, 16), (0x21, 20), (0x11, 40), (0x1a, 72), (0x8, 8), (0xd, 24), (0x17, 12)]
POSTK = [(0x2, 24), (0xb, 80), (0x4, 16), (0x5, 16), (0x22, 48), (0x80000022, 48), (0x26, 16)]


def rb(r, n):
    return bytes(r.getrandbits(8) for _ in range(n))


def gen_cmd(r, q, st, post_p=0.06):
    """→ (bytes of the command, number of bytes its structure needs)"""
    k = r.random()
    if k < 0.4:
        q64 = q if r.random() < 0.94 else not q
        ns = r.choice([0, 0, 1, 1, 2, 3, 4])
        name = r.choice([b"__PAGEZERO", b"__TEXT", b"__DATA", b"__LINKEDIT", b"", b"0123456789abcdef"]).ljust(16, b"\0")
        vmsize = 0x1000 * r.randint(0, 4) if r.random() < 0.9 else r.getrandbits(20)
        vmaddr = max(0, st["vm"] - 0x800) if r.random() < 0.15 else st["vm"]
        st["vm"] = vmaddr + vmsize + (0x1000 if r.random() < 0.2 else 0)
        fo, fs = r.choice([0, 0x1000, st["fo"]]), r.choice([0, 0x1000, vmsize])
        st["fo"] += fs
        secs = b""
        for j in range(ns):
            u = r.random()
            sg = name if u < 0.8 else r.choice(UTF).ljust(16, b"\0")[:16]
            sn = r.choice([b"__text", b"__stubs", b"__data", b"__cstring", b"__bss", b"__la_symbol_ptr"]).ljust(16, b"\0")
            v = (vmaddr + 0x100 * j + r.choice([0, 0, 0x10]), r.choice([0x80, 0x100, 0x180, 0, 1]), fo + 0x100 * j, r.choice([0, 2, 4]),
                 r.choice([0, 0x40]), r.choice([0, 1]), r.choice([0x80000400, 0, 1, 6, 7, 8, r.getrandbits(32)]), r.getrandbits(3), r.choice([0, 6]))
            secs += struct.pack("<16s16sQQIIIIIIII", sn, sg, *v, r.getrandbits(2)) if q64 else struct.pack("<16s16sIIIIIIIII", sn, sg, *(x & 0xffffffff for x in v))
        need = (72 if q64 else 56) + len(secs)
        size = need + r.choice([0, 0, 0, 4, 8])
        if q64:
            fix = struct.pack("<II16sQQQQiiII", 0x19, size, name, vmaddr, vmsize, fo, fs, 7, r.choice([5, 3, -1]), ns, r.choice([0, 4]))
        else:
            fix = struct.pack("<II16sIIIIiiII", 0x1, size, name, vmaddr & 0xffffffff, vmsize, fo, fs, 7, r.choice([5, 3, -1]), ns, r.choice([0, 4]))
        return (fix + secs).ljust(size, b"\0"), need
    if k < 0.86 or k < 0.86 + post_p:
        cmd, need = r.choice(KNOWN) if k < 0.86 else r.choice(POSTK)
        body = rb(r, need - 8) if r.random() < 0.5 or cmd in (0x4, 0x5) else b"\0" * (need - 8)
        extra = b""
        if cmd in (0x8000001c, 0xc, 0xe, 0xd):
            body = struct.pack("<I", need) + body[4:]
            extra = r.choice([b"/usr/lib/libSystem.B.dylib\0", b"@rpath/x\0\0\0\0", b"/usr/lib/dyld", b""])
        if cmd == 0x32:
            nt = r.randint(0, 2)
            body, extra, need = body[:12] + struct.pack("<I", nt), rb(r, 8 * nt), 24 + 8 * nt
        if cmd in (0x4, 0x5):
            extra = rb(r, r.choice([0, 16, 64, 168]))
        size = (need + len(extra) + 7) & ~7 if r.random() < 0.8 else need + len(extra)
        return (struct.pack("<II", cmd, size) + body + extra).ljust(size, b"\0"), need
    size = r.choice([8, 8, 12, 16, 24, 40])
    return struct.pack("<II", r.choice([0x99, 0x7fffffff, 0, 0x27, 0x2c, 0x80000033]), size) + rb(r, size - 8), 8


def gen_image(r, post_p=0.06):
    q = r.random() < 0.6
    st = {"vm": 0x100000000 if q and r.random() < 0.7 else 0x1000 * r.randint(0, 4), "fo": 0}
    cmds = [gen_cmd(r, q, st, post_p) for _ in range(r.randint(0, 6))]
    hdr = [0xFEEDFACF if q else 0xFEEDFACE, r.choice([0x01000007, 7, 12, 0x0100000c]), 3, r.choice([1, 2, 6]), 0, 0, r.choice([0, 0x85, 0x200085])] + ([0] if q else [])
    return {"q": q, "hdr": hdr, "cmds": [c for c, _ in cmds], "need": [n for _, n in cmds], "tail": rb(r, r.choice([0, 0, 16, 64]))}


def build(img, ncmds=None, soc=None):
    body = b"".join(img["cmds"])
    h = list(img["hdr"])
    h[4] = len(img["cmds"]) if ncmds is None else ncmds
    h[5] = len(body) if soc is None else soc
    return struct.pack("<%dI" % len(h), *(x & 0xffffffff for x in h)) + body + img["tail"]


def patch(b, off, v):
    return b[:off] + struct.pack("<I", v & 0xffffffff) + b[off + 4:]


def boundaries(b):
    """structure boundaries of an image as the by-the-book layout defines them (header, commands, sections)"""
    if len(b) < 28:
        return [len(b)]
    hs = 32 if b[:4] == MAGICS[1] else 28
    out, off = [4, hs], hs
    for _ in range(min(struct.unpack_from("<I", b, 16)[0], 64)):
        if off + 8 > len(b):
            break
        cmd, size = struct.unpack_from("<II", b, off)
        out += [off + 8]
        if cmd in (1, 0x19) and off + 72 <= len(b):
            base, ss = (72, 80) if cmd == 0x19 else (56, 68)
            ns = struct.unpack_from("<I", b, off + base - 8)[0]
            out += [off + base + k * ss for k in range(min(ns, 8) + 1)]
        elif cmd in SIZES:
            out += [off + SIZES[cmd]]
        if size < 8:
            break
        off += size
        out.append(off)
    return sorted(set(x for x in out if x <= len(b)))


def pick(r, xs, k):
    xs = list(xs)
    return xs if k is None or len(xs) <= k else r.sample(xs, k)


def mutants(r, img, k):
    """(bucket, bytes) for one base image; k = how many of the large classes to keep (None = all)"""
    b = build(img)
    hs, n = (32 if img["q"] else 28), len(img["cmds"])
    offs = [hs + sum(len(c) for c in img["cmds"][:i]) for i in range(n)]
    out = [("valid", b)]
    if n:
        i = r.randrange(n)
        o, need = offs[i], img["need"][i]
        for v in pick(r, [0, 4, 7, 8, 9, len(img["cmds"][i]) | 1, 0xffffffff, 0x7fffffff], k and 4):
            out.append(("cmdsize-boundary", patch(b, o + 4, v)))
        out += [("cmdsize-need-1", patch(b, o + 4, need - 1)), ("cmdsize-need+1", patch(b, o + 4, need + 1))]
        for sz in (need - 1, need, need + 1):                      # re-laid out: the command really has that many bytes
            im2 = dict(img, cmds=list(img["cmds"]))
            im2["cmds"][i] = patch(img["cmds"][i][:sz].ljust(sz, b"\0"), 4, sz)[:sz]
            out.append(("cmdsize-relaid%+d" % (sz - need), build(im2)))
        segs = [j for j in range(n) if struct.unpack_from("<I", img["cmds"][j], 0)[0] in (1, 0x19) and len(img["cmds"][j]) >= 72]
        if segs:
            j = r.choice(segs)
            po = offs[j] + (64 if img["cmds"][j][0] == 0x19 else 48)
            ns = struct.unpack_from("<I", b, po)[0]
            out += [("nsects+1", patch(b, po, ns + 1)), ("nsects-huge", patch(b, po, r.choice([0xffffffff, 0x10000, 0x7fffffff])))]
            if ns:
                out.append(("nsects-1", patch(b, po, ns - 1)))
    soc = len(b) - hs - len(img["tail"])
    out += [("ncmds+1", build(img, ncmds=n + 1)), ("ncmds-huge", build(img, ncmds=r.choice([0xffffffff, 1000]))), ("ncmds-1", build(img, ncmds=max(n - 1, 0)))]
    for lab, v in (("0", 0), ("-1", soc - 1), ("+1", soc + 1), ("+8", soc + 8), ("huge", r.choice([0xffffffff, 0x7fffffff])), ("file", len(b) - hs + 1)):
        out.append(("sizeofcmds" + lab, build(img, soc=v)))
    cuts = sorted(set(x + dd for x in boundaries(b) for dd in (-1, 0, 1) if 0 <= x + dd < len(b)))
    out += [("truncate", b[:c]) for c in pick(r, cuts, k and 3 * k)]
    fields = [f for f in G.walk_macho(b) if f[2] == 4 and f[0] in ("hdr", "lc")]
    for f in pick(r, fields, k):
        for v in pick(r, (0, 1, 0xffffffff), k and 2):
            if struct.unpack_from("<I", b, f[1])[0] != v:
                out.append(("field=%s" % ("0", "1", "ff")[min(v, 2)], patch(b, f[1], v)))
    return out


def magic_cases(r):
    i64, i32 = None, None
    while i64 is None or i32 is None:
        im = gen_image(r)
        if im["cmds"]:
            i64, i32 = (im if im["q"] else i64), (im if not im["q"] else i32)
    b64, b32 = build(i64), build(i32)
    out = [b"\xfe\xed\xfa\xcf" + b64[4:], b"\xfe\xed\xfa\xce" + b32[4:], b"", b"\xcf\xfa\xed", b32[:27], b32[:28], b"\xbe\xba\xfe\xca" + b64[4:],
           b"\xfe\xed\xfa\xce" + struct.pack(">6I", 7, 3, 2, 0, 0, 0), b"\xfe\xed\xfa\xcf" + struct.pack(">7I", 7, 3, 2, 0, 0, 0, 0)]
    out += [b64[:n] for n in (28, 29, 30, 31, 32)] + [patch(b64, 20, 0)[:n] for n in (28, 31, 32)]
    for nf in (0, 1, 2, 0xffffffff):
        for ln in (8, 27, 28, 29, 48, 68, 100):
            out.append((b"\xca\xfe\xba\xbe" + struct.pack(">I", nf) + struct.pack(">5I", 7, 3, 48, 20, 0) * 5)[:ln])
    return [("magic", b) for b in out]


def sample_files():
    root = os.path.join(REPO, "tests", "samples")
    fs = sorted(f for f in glob.glob(os.path.join(root, "**", "*"), recursive=True) if os.path.isfile(f))
    return [f for f in fs if open(f, "rb").read(4) in MAGICS]


def sample_cases(r, k):
    out = []
    for f in sample_files():
        b = open(f, "rb").read()
        out.append(("sample", b))
        cuts = sorted(set(x + dd for x in boundaries(b) for dd in (-1, 0, 1) if 0 <= x + dd < len(b)))
        out += [("sample-truncate", b[:c]) for c in pick(r, cuts, k and 30)]
        for fd in pick(r, [x for x in G.walk_macho(b) if x[2] == 4 and x[0] in ("hdr", "lc")], k and 30):
            for v in pick(r, (0, 1, 0xffffffff), k and 1):
                out.append(("sample-field", patch(b, fd[1], v)))
    return out


# ---------------------------------------------------------------------------------------- shared steps
def build_step(ck):
    if os.environ.get("MACHO_SKIP_BUILD") == "1":
        return True
    try:
        ok, out = lake_build(TARGETS)
    except Exception as e:
        ok, out = False, repr(e)
    ck.oblige("lean build C14Macho", ok, "" if ok else out[-3000:])
    if not ok:
        ck.report("%s:macho:proof-obligation" % ck.id, "lake build %s failed: %s" % (" ".join(TARGETS), out[-300:]), "proof-obligation", out[-2000:], failing_input_found=False)
    return ok


def table_tie(ck, drv):
    rows = {row[0]: row for row in drv.ask({"op": "macho.table"})}
    bad = []
    postset = {M.LC_THREAD, M.LC_UNIXTHREAD, M.LC_SYMTAB, M.LC_DYSYMTAB, M.LC_DYLD_INFO, M.LC_DYLD_INFO_ONLY, M.LC_FUNCTION_STARTS}
    r = rng("C14macho.table")
    for k in sorted(M.CMD_TABLE):
        row = rows.get(k)
        if row is None or (row[1] is None and not row[2]):
            bad.append("cmd %#x in CMD_TABLE but unknown to the model" % k)
    for k, (_, need, special, post) in sorted(rows.items()):
        if (need is not None or special) and k not in M.CMD_TABLE:
            bad.append("model knows cmd %#x, CMD_TABLE does not" % k)
        if post != (k in postset):
            bad.append("post flag of %#x" % k)
        if k not in M.CMD_TABLE or (special and k != 0x32):
            continue
        probes = [(24 + 8 * nt, struct.pack("<IIIIII", k, 24 + 8 * nt, 1, 2, 3, nt) + bytes(8 * nt)) for nt in (0, 1, 2)] if special else \
                 [(need, struct.pack("<II", k, need) + body) for body in [bytes(need - 8)] + [rb(r, need - 8) for _ in range(8)]]
        for need_, data in probes:
            try:
                M.CMD_TABLE[k](data)
            except Exception as e:
                bad.append("cmd %#x rejects %d bytes %s: %s" % (k, need_, data.hex(), exn_name(e)))
            try:
                M.CMD_TABLE[k](data[:need_ - 1])
                bad.append("cmd %#x accepts %d bytes" % (k, need_ - 1))
            except Exception:
                pass
        ck.count("table.cmd")
    ck.oblige("correspondence macho CMD_TABLE", not bad, "; ".join(bad[:6]))
    if bad:
        ck.report("C14:macho:tie:CMD_TABLE", "the model's command table and amoco.system.macho.CMD_TABLE differ: %s" % "; ".join(bad[:4]), "tie",
                  "correspondence macho CMD_TABLE", case={"diffs": bad[:20]}, failing_input_found=False)
    return bad


class Judge(object):
    def __init__(self, ck, corr, prop):
        self.ck, self.corr, self.prop, self.n0, self.defect = ck, corr, prop, len(corr), False

    def tie(self, what, bucket, b, real, mod):
        self.ck.report("%s:macho:tie:%s" % (self.prop, what), "Mach-O model and real code disagree (%s) on a %s image of %d bytes: real %s, model %s"
                       % (what, bucket, len(b), real.get("init") if isinstance(real, dict) else real, mod.get("init", mod.get("wf")) if isinstance(mod, dict) else mod),
                       "tie", "correspondence Amoco.Macho ~ amoco/system/macho.py (%s)" % what, case={"data": b.hex(), "bucket": bucket}, real=real, model=mod,
                       failing_input_found=False)
        self.corr.append({"what": what, "bucket": bucket, "data": b[:200].hex(), "len": len(b)})

    def outcome(self, bucket, b, real, mod):
        """model vs real on init class and dump; returns True when they agree"""
        ri, mi = real["init"], mod["init"]
        if ri == "skipped":
            self.ck.count("skipped-real (timeout cap)")
            return True
        if mi == "ok":
            if ri == "ok":
                rd = {k: real[k] for k in ("kind", "header", "cmds")}
                md = {"kind": mod["kind"], "header": mod["header"], "cmds": strip(mod["cmds"])}
                if js(rd) == js(md):
                    return True
                return self.tie("dump:" + diff_path(rd, md), bucket, b, real, mod)
            if mod["post"] and (ri == "MachOError" or (ri in ("StructureError", "timeout") and real.get("post"))):
                self.ck.count("post-stage " + ri)
                return True
            return self.tie("outcome:model-ok:real-%s" % ri, bucket, b, real, mod)
        if ri != mi:
            return self.tie("outcome:model-%s:real-%s" % (mi, ri), bucket, b, real, mod)
        return True


def nontrivial(b, mod):
    if mod["init"] == "ok":
        return bool(mod["cmds"])
    return b[:4] in MAGICS and len(b) >= (32 if b[:4] == MAGICS[1] else 28)


# ---------------------------------------------------------------------------------------- C14
def run_c14(ck, tier, corr):
    quick = tier == "quick"
    build_step(ck)
    if not os.path.exists(os.path.join(LEAN, ".lake", "build", "bin", "drv_macho")):
        ck.oblige("correspondence Mach-O walker/segments/sections (real vs model vs struct oracle)", False, "drv_macho not built")
        return
    drv, r, J, real_ = Driver("drv_macho"), rng("C14macho"), Judge(ck, corr, "C14"), Real()
    table_tie(ck, drv)
    items = magic_cases(r) + sample_cases(r, 1 if quick else None)
    for _ in range(55 if quick else 550):
        items += mutants(r, gen_image(r), 5 if quick else 14)
    # pass 1: real code; pass 2: model; pass 3: judge
    reals, asks = [], []
    for bucket, b in items:
        p, d = real_.run(bucket, b)
        qs = ([], [], [])
        if p is not None and d["kind"] != "fat":
            try:
                qs = queries(p, d, r)
            except Exception as e:
                d = {"init": "query-failed:" + exn_name(e), "site": repr(e)[:200]}
        reals.append((d, qs))
        asks.append({"op": "macho.parse", "hex": b.hex(), "targets": qs[0]})
        asks.append({"op": "macho.ref", "hex": b.hex()})
    ans = drv.ask_many(asks)
    drv.close()
    for i, (bucket, b) in enumerate(items):
        (real, (ts, rinfo, rfo)), mod, ref = reals[i], ans[2 * i], ans[2 * i + 1]
        ck.count("image." + bucket.split("=")[0].rstrip("+-0123456789"))
        ck.count("outcome.real-%s/model-%s" % (real["init"], mod["init"]))
        ck.case(("M", b), nontrivial=nontrivial(b, mod))
        if i % 97 == 0:
            ck.sample({"bucket": bucket, "len": len(b), "head": b[:48].hex(), "real": real["init"], "model": mod["init"], "ncmds": len(mod.get("cmds") or [])})
        J.outcome(bucket, b, real, mod)
        # model's reference reader vs the independent struct reader
        orc = oracle(b)
        if (orc is not None) != ref["wf"]:
            J.tie("ref:wf", bucket, b, {"init": "oracle-wf=%s" % (orc is not None)}, ref)
        elif orc is not None:
            rf = {"kind": ref["kind"], "header": ref["header"], "cmds": strip(ref["cmds"], ("extent", "need"))}
            if js(orc) != js(rf):
                J.tie("ref:dump:" + diff_path(orc, rf), bucket, b, {"init": "oracle", "dump": orc}, ref)
        # the property: a well-formed image is reported as the file says
        if orc is not None and real["init"] != "skipped":
            ck.count("wf-image")
            od = dict(orc, cmds=strip(orc["cmds"], ("off",)))
            haspost = any(c["cmd"] in POST for c in od["cmds"])
            case = {"data": b.hex(), "bucket": bucket}
            if real["init"] == "ok":
                rd = {k: real[k] for k in ("kind", "header", "cmds")}
                if js(rd) != js(od):
                    at = diff_path(rd, od)
                    ck.report("C14:macho:%s" % at, "MachO reports %s differently from the file's load commands (%s image, %d bytes)" % (at, bucket, len(b)), "oracle",
                              "correspondence macho load commands", case=dict(case, at=at), real=real, expected=od, failing_input_found=True)
            elif haspost and real["init"] in ("MachOError", "StructureError", "timeout") and (real.get("post") or real["init"] == "MachOError"):
                ck.count("wf-image rejected in the post stage (not judged)")
            elif real["init"] == "timeout":
                ck.report("C14:macho:timeout:%s" % real["fn"], "MachO does not return on a well-formed image", "oracle", "correspondence macho load commands",
                          case=case, real=real, expected=od, failing_input_found=True)
            else:
                ck.report("C14:macho:rejects-valid:%s" % real["init"], "MachO rejects a well-formed image (%s at %s)" % (real["init"], real.get("site")), "oracle",
                          "correspondence macho load commands", case=case, real=real, expected=od, failing_input_found=True)
        # queries
        if real["init"] == "ok" and mod["init"] == "ok" and ts:
            for t, ri, rf_, mi, mf in zip(ts, rinfo, rfo, mod["info"], mod["fileoff"]):
                ck.count("query." + mi[0])
                if ri != mi:
                    J.tie("getinfo", bucket, b, {"init": "ok", "target": t, "info": ri}, {"init": "ok", "target": t, "info": mi})
                if mf is None:
                    if rf_[0] == "v":
                        J.tie("getfileoffset:unmapped", bucket, b, {"init": "ok", "target": t, "fileoff": rf_}, {"init": "ok", "target": t, "fileoff": mf})
                elif rf_[0] == "exn" and mi[0] == "sect" and rf_[1] == "AttributeError":
                    if not J.defect:
                        J.defect = True
                        ck.report("C14:macho:getfileoffset:section", "MachO.getfileoffset(address inside a section) raises AttributeError ('struct_section' has no "
                                  "attribute 'fileoffset') instead of returning section.offset + (address - section.addr)", "violation", "macho getfileoffset (section branch)",
                                  case={"data": b.hex(), "target": t, "bucket": bucket}, real="AttributeError", model=mf, expected=mf, failing_input_found=True)
                    ck.count("getfileoffset:section AttributeError")
                elif rf_ != ["v", mf]:
                    J.tie("getfileoffset:value", bucket, b, {"init": "ok", "target": t, "fileoff": rf_}, {"init": "ok", "target": t, "fileoff": mf})
    new = corr[J.n0:]
    ck.oblige("correspondence Mach-O walker/segments/sections (real vs model vs struct oracle)", not new,
              "%d disagreements, first %s" % (len(new), new[0] if new else None))
    ck.trusted += ["harness/macho_check.py (dump of the real MachO object, struct-based Mach-O reader used as oracle)", "compiled Lean driver drv_macho"]


# ---------------------------------------------------------------------------------------- C20
def c20_items(r, quick):
    items = magic_cases(r)
    for _ in range(22 if quick else 300):
        items += [(bk, b) for bk, b in mutants(r, gen_image(r, 0.14), 5 if quick else 14)]
    for _ in range(250 if quick else 4000):
        words = [r.choice([0, 1, 8, 0x19, 0x18, 0x32, 0x2, 72, 56, r.getrandbits(32), r.getrandbits(8)]) for _ in range(r.randint(0, 40))]
        items.append(("random", r.choice(MAGICS) + struct.pack("<%dI" % len(words), *words) + rb(r, r.randint(0, 3))))
    im = gen_image(r)
    while len(im["cmds"]) < 3:
        im = gen_image(r)
    b = build(im)
    items += [("prefix", b[:n]) for n in range(len(b))]
    for f in sample_files():
        b = open(f, "rb").read()
        ns = sorted(set(len(b) * i // 40 for i in range(41))) if quick else range(0, len(b) + 1, 3)
        items += [("sample-prefix", b[:n]) for n in ns]
    return items


def run_c20(ck, tier, corr):
    quick = tier == "quick"
    build_step(ck)
    if not os.path.exists(os.path.join(LEAN, ".lake", "build", "bin", "drv_macho")):
        ck.oblige("correspondence Mach-O outcome class (real vs model)", False, "drv_macho not built")
        return
    drv, r, J, real_ = Driver("drv_macho"), rng("C20macho"), Judge(ck, corr, "C20"), Real()
    items = c20_items(r, quick)
    reals, asks = [], []
    for bucket, b in items:
        reals.append(real_.run(bucket, b)[1])
        hs = 32 if b[:4] == MAGICS[1] else 28
        walkable = b[:4] in MAGICS and len(b) >= hs
        asks.append({"op": "macho.parse", "hex": b.hex()})
        asks.append({"op": "macho.walk", "hex": b.hex(), "soc": struct.unpack_from("<I", b, 20)[0], "off": hs} if walkable else {"op": "macho.utf8", "hex": ""})
    ans = drv.ask_many(asks)
    drv.close()
    wbad = []
    for i, (bucket, b) in enumerate(items):
        real, mod, wk = reals[i], ans[2 * i], ans[2 * i + 1]
        ri = real["init"]
        ck.count("image." + bucket.split("=")[0].rstrip("+-0123456789"))
        ck.count("outcome.%s" % ri)
        ck.case(("M20", b), nontrivial=nontrivial(b, mod))
        if i % 211 == 0:
            ck.sample({"bucket": bucket, "len": len(b), "head": b[:48].hex(), "real": ri, "model": mod["init"]})
        case = {"data": b.hex(), "bucket": bucket}
        if ri == "timeout":
            ck.report("C20:macho:timeout:macho.py:%s" % real["fn"], "MachO(DataIO(b)) does not return within %.0f s on a %d-byte input (%s)" % (5, len(b), bucket), "violation",
                      "macho_walker_total", case=case, real=real, model=mod, expected="an object, MachOError or StructureError", failing_input_found=True)
        elif ri not in ("ok", "skipped", "MachOError", "StructureError"):
            ck.report("C20:macho:%s:%s" % (ri, real.get("fn")), "MachO(DataIO(b)) lets %s escape (%s) on a %d-byte input (%s)" % (ri, real.get("site"), len(b), bucket),
                      "violation", "macho_walker_total", case=case, real=real, model=mod, expected="an object, MachOError or StructureError", failing_input_found=True)
        J.outcome(bucket, b, real, mod)
        if isinstance(wk, dict) and (wk["steps"] * 8 > len(b) or wk["end"] == "FUEL"):
            wbad.append({"data": b.hex(), "steps": wk["steps"], "end": wk["end"]})
    ck.oblige("model walker bound: steps*8 <= length, fuel never exhausted", not wbad, str(wbad[:1]))
    if wbad:
        ck.report("C20:macho:tie:walker-bound", "the model's walker exceeds its bound", "tie", "macho_walker_total", case=wbad[0], failing_input_found=False)
    new = corr[J.n0:]
    ck.oblige("correspondence Mach-O outcome class (real vs model)", not new, "%d disagreements, first %s" % (len(new), new[0] if new else None))
    ck.trusted += ["harness/macho_check.py (outcome class of the real MachO constructor under a 5 s alarm)", "compiled Lean driver drv_macho"]
