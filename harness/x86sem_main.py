"""x86sem_main.py — stand-alone runner of x86sem_check.run (does not write the evidence file of C06)."""
import sys, time
from common import *
import x86sem_check

if __name__ == "__main__":
    tier = sys.argv[1] if len(sys.argv) > 1 else "quick"
    t0 = time.time()
    ck = Check("C06", tier)
    corr = []
    x86sem_check.run(ck, tier, corr)
    for sig, what in sorted(ck.known_hit.items()):
        print("KNOWN-FINDING:", sig, what)
    for v in ck.violations:
        print("VIOLATION", v["signature"], "" if v["failing_input_found"] else "no-failing-input-found", "\n    ", v["what"][:400])
    for c in corr[:5]:
        print("CORR-BROKEN", c)
    bad = [o for o in ck.obligations if not o[1]]
    print("obligations %d (failed %d) cases %d distinct %d violations %d corr_broken %d  %.1fs" %
          (len(ck.obligations), len(bad), ck.evaluations, len(ck.distinct), len(ck.violations), len(corr), time.time() - t0))
    for o in bad:
        print("  FAILED:", o[0], o[2][:600])
    print({k: ck.cov[k] for k in ck.cov if k.startswith("x86sem")})
    sys.exit(1 if ck.violations or corr or bad else 0)
