"""
common.py — shared plumbing of the /verif checks.

Every check is `./check Cxx [--tier quick|thorough] [--replay file]` and follows the flow of
DESIGN.md §3: (re)generate → lake build → audit (sorry/axiom grep + #print axioms) →
correspondence / checker runs against the real code of /repo → failing-input search →
evidence + exit code (0 ok, 1 violation, 2 internal error).
"""
import os, sys, json, time, subprocess, re, fcntl, random, hashlib, traceback

HERE = os.path.dirname(os.path.abspath(__file__))
ROOT = os.path.dirname(HERE)
LEAN = os.path.join(ROOT, "lean")
REPO = os.environ.get("AMOCO_REPO", "/repo")
# runs against a scratch worktree (seeded changes) keep their replays and evidence apart from those of /repo
SCRATCH = "" if os.path.realpath(REPO) == "/repo" else "_scratch"


def tree_id():
    """which source tree a record was produced on: path, HEAD and whether amoco/ is modified"""
    import subprocess
    def git(*a):
        try:
            return subprocess.run(["git", "-C", REPO] + list(a), stdout=subprocess.PIPE, stderr=subprocess.DEVNULL, text=True).stdout.strip()
        except Exception:
            return ""
    return {"repo": os.path.realpath(REPO), "head": git("rev-parse", "HEAD"), "modified": git("status", "--porcelain", "--", "amoco")[:200]}
DRIVER = os.path.join(LEAN, ".lake", "build", "bin", "amoco_driver")
ALLOWED_AXIOMS = {"propext", "Classical.choice", "Quot.sound"}
FORBIDDEN = re.compile(r"\bsorry\b|\badmit\b|^\s*axiom\s|native_decide|bv_decide|implemented_by|\bunsafe\s|maxHeartbeats\s+0")

os.environ.setdefault("AMOCO_VERIF", "1")
if REPO not in sys.path:
    sys.path.insert(0, REPO)


def seed():
    try:
        return int(os.environ.get("VERIF_SEED", "0"))
    except ValueError:
        return 0


def rng(tag=""):
    h = hashlib.sha256(("%d/%s" % (seed(), tag)).encode()).digest()
    return random.Random(int.from_bytes(h[:8], "little"))


class InternalError(Exception):
    pass


# ---------------------------------------------------------------------------------------
# Lean side
# ---------------------------------------------------------------------------------------

def _lock():
    f = open(os.path.join(LEAN, ".build.lock"), "w")
    fcntl.flock(f, fcntl.LOCK_EX)
    return f


def lake_build(targets, timeout=3000):
    """lake build under an exclusive lock. returns (ok, output)."""
    lk = _lock()
    try:
        p = subprocess.run(["lake", "build"] + list(targets), cwd=LEAN, stdout=subprocess.PIPE,
                           stderr=subprocess.STDOUT, text=True, timeout=timeout)
        return p.returncode == 0, p.stdout
    finally:
        lk.close()


def strip_comments(src):
    # remove /- ... -/ (nested) and -- line comments
    out = []
    i, n, depth = 0, len(src), 0
    while i < n:
        if src.startswith("/-", i):
            depth += 1; i += 2; continue
        if depth and src.startswith("-/", i):
            depth -= 1; i += 2; continue
        if depth:
            if src[i] == "\n":
                out.append("\n")
            i += 1; continue
        if src.startswith("--", i):
            while i < n and src[i] != "\n":
                i += 1
            continue
        out.append(src[i]); i += 1
    return "".join(out)


def grep_forbidden(files):
    hits = []
    for f in files:
        try:
            src = strip_comments(open(f).read())
        except OSError:
            continue
        for ln, line in enumerate(src.split("\n"), 1):
            if FORBIDDEN.search(line):
                hits.append("%s:%d: %s" % (os.path.relpath(f, ROOT), ln, line.strip()))
    return hits


def lean_import_closure(module):
    """files of our own lake project transitively imported by `module` (dotted name)."""
    seen, todo = {}, [module]
    while todo:
        m = todo.pop()
        if m in seen:
            continue
        path = os.path.join(LEAN, *m.split(".")) + ".lean"
        if not os.path.exists(path):
            continue
        seen[m] = path
        for line in open(path):
            mm = re.match(r"\s*(?:public\s+)?import\s+([A-Za-z0-9_.]+)", line)
            if mm:
                todo.append(mm.group(1))
    return seen


def audit(prop_id):
    """returns (obligations:list of theorem names, bad:list of problems).
    Runs `lean Amoco/Audit/<id>.lean`, which `#print axioms` every property theorem."""
    mod = "Amoco.Audit.%s" % prop_id
    files = lean_import_closure(mod)
    bad = grep_forbidden(files.values())
    path = files.get(mod)
    if path is None:
        return [], ["missing audit module %s" % mod]
    p = subprocess.run(["lake", "env", "lean", path], cwd=LEAN, stdout=subprocess.PIPE,
                       stderr=subprocess.STDOUT, text=True, timeout=1800)
    out = p.stdout
    if p.returncode != 0:
        bad.append("audit file failed to elaborate: " + out[-2000:])
    thms = []
    # messages: "'Name' depends on axioms: [a, b]"  or "'Name' does not depend on any axioms"
    for m in re.finditer(r"'([^']+)' depends on axioms: \[([^\]]*)\]", out, re.S):
        name, axs = m.group(1), [a.strip() for a in m.group(2).replace("\n", " ").split(",") if a.strip()]
        thms.append(name)
        extra = [a for a in axs if a not in ALLOWED_AXIOMS]
        if extra:
            bad.append("theorem %s depends on non-standard axioms %s" % (name, extra))
    for m in re.finditer(r"'([^']+)' does not depend on any axioms", out):
        thms.append(m.group(1))
    declared = re.findall(r"#print axioms\s+([A-Za-z0-9_.']+)", open(path).read())
    for d in declared:
        if not any(t == d or t.endswith("." + d) or d.endswith("." + t) for t in thms):
            bad.append("no axiom report for %s" % d)
    return thms, bad


class Driver(object):
    """line-protocol connection to the compiled Lean model driver."""

    def __init__(self, exe="amoco_driver"):
        path = os.path.join(LEAN, ".lake", "build", "bin", exe)
        if not os.path.exists(path):
            raise InternalError("driver not built: %s" % path)
        self.p = subprocess.Popen([path], stdin=subprocess.PIPE, stdout=subprocess.PIPE, text=True, bufsize=1 << 20)
        self.n = 0

    def ask(self, obj):
        self.p.stdin.write(json.dumps(obj) + "\n")
        self.p.stdin.flush()
        line = self.p.stdout.readline()
        if not line:
            raise InternalError("driver died on %r" % (json.dumps(obj)[:300],))
        self.n += 1
        return json.loads(line)

    def ask_many(self, objs):
        """pipelined: write all, then read all (uses a thread to avoid pipe dead-lock)."""
        import threading
        objs = list(objs)
        def w():
            for o in objs:
                self.p.stdin.write(json.dumps(o) + "\n")
            self.p.stdin.flush()
        t = threading.Thread(target=w, daemon=True); t.start()   # daemon: a failure of the reader must not hang the process
        res = []
        for _ in objs:
            line = self.p.stdout.readline()
            if not line:
                raise InternalError("driver died")
            res.append(json.loads(line))
        t.join()
        self.n += len(objs)
        return res

    def close(self):
        try:
            self.p.stdin.close(); self.p.wait(timeout=10)
        except Exception:
            self.p.kill()


# ---------------------------------------------------------------------------------------
# findings / violations / evidence
# ---------------------------------------------------------------------------------------

def load_findings(prop_id):
    """known_findings.json: {"findings":[{"property":..,"signature":..,"what":..,"input":..}], "fixed":[...]}"""
    out = {}
    paths = [os.path.join(ROOT, "known_findings.json")]
    d = os.path.join(ROOT, "known_findings.d")
    if os.path.isdir(d):
        paths += [os.path.join(d, f) for f in sorted(os.listdir(d)) if f.endswith(".json")]
    for path in paths:
        try:
            data = json.load(open(path))
        except OSError:
            continue
        for f in data.get("findings", []):
            if f.get("property") == prop_id:
                out[f["signature"]] = f
    return out


class Check(object):
    """bookkeeping for one run of one property's check."""

    def __init__(self, prop_id, tier, level="proof"):
        self.id = prop_id
        self.tier = tier
        self.level = level
        self.t0 = time.time()
        self.known = load_findings(prop_id)
        self.known_hit = {}
        self.violations = []
        self.obligations = []       # (name, ok:bool)
        self.cov = {"samples": []}
        self.assumptions = []
        self.trusted = ["Lean 4 kernel", "axioms: propext, Classical.choice, Quot.sound (audited by #print axioms each run)"]
        self.nreplay = 0
        self.counts = {}
        self.distinct = set()
        self.evaluations = 0

    # -- obligations ---------------------------------------------------------------
    def oblige(self, name, ok, detail=""):
        self.obligations.append((name, bool(ok), detail))
        return ok

    def build_and_audit(self, targets):
        """lake build + axiom audit. returns list of broken obligations (strings)."""
        broken = []
        ok, out = lake_build(targets)
        self.oblige("lake build " + " ".join(targets), ok, "" if ok else out[-3000:])
        if not ok:
            broken.append("lake build failed:\n" + out[-3000:])
            return broken
        thms, bad = audit(self.id)
        if self.tier == "thorough":
            # independent re-check of the compiled property module by the toolchain's kernel re-checker
            mods = [t for t in targets if t.startswith("Amoco.")]
            try:
                p = subprocess.run(["lake", "env", "leanchecker"] + mods, cwd=LEAN, stdout=subprocess.PIPE,
                                   stderr=subprocess.STDOUT, text=True, timeout=3000)
                okc = p.returncode == 0
                self.oblige("leanchecker " + " ".join(mods), okc, "" if okc else p.stdout[-1500:])
                if not okc:
                    bad.append("leanchecker rejects %s: %s" % (mods, p.stdout[-800:]))
            except Exception as ex:
                self.oblige("leanchecker", False, repr(ex))
                bad.append("leanchecker could not run: %r" % ex)
        for t in thms:
            self.oblige("theorem " + t, not any(t in b for b in bad))
        for b in bad:
            self.oblige("audit", False, b)
            broken.append(b)
        self.theorems = thms
        return broken

    # -- coverage ------------------------------------------------------------------
    def count(self, key, n=1):
        self.counts[key] = self.counts.get(key, 0) + n

    def case(self, fingerprint, nontrivial=True):
        self.evaluations += 1
        if nontrivial:
            self.distinct.add(hashlib.md5(repr(fingerprint).encode()).digest()[:8])

    def sample(self, obj, limit=6):
        if len(self.cov["samples"]) < limit:
            self.cov["samples"].append(obj)

    # -- violations ----------------------------------------------------------------
    def tree(self):
        if getattr(self, "_tree", None) is None:
            self._tree = tree_id()
        return self._tree

    def replay_path(self):
        d = os.path.join(ROOT, "replays" + SCRATCH)
        os.makedirs(d, exist_ok=True)
        self.nreplay += 1
        return os.path.join(d, "%s-%d-%d.json" % (self.id, seed(), self.nreplay))

    def report(self, signature, what, kind, broken, case=None, real=None, model=None, expected=None,
               failing_input_found=True):
        """Report one failure of the property.  `signature` is matched against known_findings.json."""
        if signature in self.known:
            if signature not in self.known_hit:
                self.known_hit[signature] = what
            return False
        # one VIOLATION line per distinct signature
        if any(v["signature"] == signature for v in self.violations):
            return True
        path = self.replay_path()
        rec = {"property": self.id, "kind": kind, "broken": broken, "signature": signature, "what": what,
               "case": case, "real": real, "model": model, "expected": expected, "seed": seed(),
               "failing_input_found": failing_input_found, "tree": self.tree()}
        with open(path, "w") as f:
            json.dump(rec, f, indent=1, default=repr)
        rec["replay"] = path
        self.violations.append(rec)
        return True

    # -- finish --------------------------------------------------------------------
    def finish(self, rule, explanation=None, extra=None):
        for sig, what in sorted(self.known_hit.items()):
            print("KNOWN-FINDING: property=%s %s [%s]" % (self.id, what, sig))
        for v in self.violations:
            tail = "" if v["failing_input_found"] else " no-failing-input-found"
            print("VIOLATION property=%s replay=%s%s" % (self.id, os.path.relpath(v["replay"], ROOT), tail))
            print("   %s: %s" % (v["signature"], v["what"]))
        nob = len(self.obligations)
        ndis = sum(1 for o in self.obligations if o[1])
        cov = dict(self.cov)
        cov.update({
            "evaluations": max(self.evaluations, 1),
            "distinct_nontrivial": len(self.distinct),
            "rule": rule,
            "obligations": nob, "discharged": ndis,
            "obligation_list": [{"name": o[0], "ok": o[1]} for o in self.obligations],
            "checker_cmd": "cd lean && lake build && lake env lean Amoco/Audit/%s.lean  (#print axioms of every property theorem); thorough: lake env leanchecker" % self.id,
            "trusted_base": self.trusted,
            "distribution": self.counts,
            "known_findings_hit": sorted(self.known_hit),
            "source_tree": self.tree(),        # which /repo working tree this run read (path, HEAD, modified files under amoco/)
        })
        if explanation:
            cov["explanation"] = explanation
        if extra:
            cov.update(extra)
        if not cov["samples"]:
            cov["samples"] = ["(no case generated)"]
        ev = {"property_id": self.id, "tier": self.tier, "seed": seed(), "level": self.level,
              "coverage": cov, "assumptions": self.assumptions,
              "wall_s": round(time.time() - self.t0, 2), "violations": len(self.violations)}
        os.makedirs(os.path.join(ROOT, "evidence" + SCRATCH), exist_ok=True)
        with open(os.path.join(ROOT, "evidence" + SCRATCH, "%s.json" % self.id), "w") as f:
            json.dump(ev, f, indent=1, default=repr)
        print("%s %s: %d obligations (%d discharged), %d cases (%d distinct non-trivial), %d known findings hit, %d violations, %.1fs"
              % (self.id, self.tier, nob, ndis, self.evaluations, len(self.distinct), len(self.known_hit),
                 len(self.violations), time.time() - self.t0))
        return 1 if self.violations else 0


def fresh_amoco():
    """quiet amoco import (no console logging noise)."""
    import logging
    logging.disable(logging.CRITICAL)
    import amoco
    from amoco.config import conf
    try:
        conf.Log.level = "ERROR"
    except Exception:
        pass
    return amoco
