"""
expr_real.py — run a BUILD SCRIPT on the real amoco operator API and dump the result.

A build script is a postfix program (list of instructions, each a JSON list) over a stack of
expressions.  Scripts are tree-shaped: every instruction pops its operands and pushes one result, leaves
are fresh objects, so that no amoco object is shared between two places of a script.

  leaves      ["cst", v, size]  ["reg", name, size]  ["ext", name, size]  ["top", size]
  modifiers   ["signed"] ["unsigned"]                 (x.signed() / x.unsigned(): set the sf flag of the node on top)
  unary       ["neg"] ["not"]
  binary      ["add"] ["sub"] ["mul"] ["pow"] ["div"] ["mod"] ["and"] ["or"] ["xor"] ["shl"] ["shr"] ["asr"]
              ["eq"] ["ne"] ["lt"] ["le"] ["gt"] ["ge"]            (python operators)
              ["ltu"] ["geu"] ["ror"] ["rol"]                     (oper(OP_xxx, l, r), as cas/utils ROR/ROL)
              ["ltuh"] ["geuh"] ["rorh"] ["rolh"]                 (helper functions ltu() geu() ror() rol())
  structure   ["slice", lo, hi]  ["bit", i]  ["compose", n]  ["tst"]  ["zext", n]  ["sext", n]
              ["simp"]  ["simpb"]                                 (x.simplify() / x.simplify(bitslice=True) mid-script)
  memory      ["mem", name, size, disp, endian, basesize]         mem(reg(name, basesize), size, disp=disp, endian=±1)
  comp write  ["setpart", lo, hi]                                  pops v then c: `c[lo:hi] = v` through comp.__setitem__
                                                                  (a non-comp c is wrapped first: cc = comp(c.size); cc[0:c.size] = c)
  raw nodes   ["rawop", name]  ["rawuop", "neg"|"not"]  ["rawslc", pos, size]  ["rawcomp", n]
              the class constructors op(sym,l,r) / uop(sym,r) / slc(x,pos,size) / comp(total) + c[a:b]=part alone,
              WITHOUT the construction-time simplification of the operator API (amoco builds such nodes itself —
              ltu(), slicer, ISA semantics — and the constructors are public); `name` is a binary instruction name.

Final actions are applied by `run`: nothing / simplify with an option / eval under a valuation.
"""
import sys, operator
from common import *

fresh_amoco()
from amoco.config import conf
from amoco.cas import expressions as X
from amoco.cas.expressions import (cst, reg, ext, top, comp, slc, tst, op, uop, vec, vecw, mem, ptr, oper, composer,
                                   exp, bit0, bit1)
from amoco.cas.mapper import mapper

BIN_PY = {
    "add": operator.add, "sub": operator.sub, "mul": operator.mul, "pow": operator.pow,
    "div": operator.truediv, "mod": operator.mod, "and": operator.and_, "or": operator.or_,
    "xor": operator.xor, "shl": operator.lshift, "shr": operator.rshift, "asr": operator.floordiv,
    "eq": operator.eq, "ne": operator.ne, "lt": operator.lt, "le": operator.le, "gt": operator.gt,
    "ge": operator.ge,
}
RAW_SYM = {"add": X.OP_ADD, "sub": X.OP_MIN, "mul": X.OP_MUL, "pow": X.OP_MUL2, "div": X.OP_DIV, "mod": X.OP_MOD,
           "and": X.OP_AND, "or": X.OP_OR, "xor": X.OP_XOR, "shl": X.OP_LSL, "shr": X.OP_LSR, "asr": X.OP_ASR,
           "eq": X.OP_EQ, "ne": X.OP_NEQ, "lt": X.OP_LT, "le": X.OP_LE, "gt": X.OP_GT, "ge": X.OP_GE,
           "ltu": X.OP_LTU, "geu": X.OP_GEU, "ror": X.OP_ROR, "rol": X.OP_ROL}
BIN_OPER = {"ltu": X.OP_LTU, "geu": X.OP_GEU, "ror": X.OP_ROR, "rol": X.OP_ROL}
BIN_HELP = {"ltuh": X.ltu, "geuh": X.geu, "rorh": X.ror, "rolh": X.rol}
SIGN_DEP = ("lt", "le", "gt", "ge", "pow", "div", "mod")   # reading depends on the declared signedness


class ScriptError(Exception):
    pass


last_mid = []    # comps dumped right after each `setpart` of the last `run` (also when the run raised later)


def reset_globals():
    """bit0/bit1 are process-global cst objects that operators can mutate (sf); start every run clean.
    returns True when they were found dirty."""
    dirty = bit0.sf is not False or bit1.sf is not False or bit0.v != 0 or bit1.v != 1
    bit0.sf = False
    bit1.sf = False
    return dirty


def leaf_signs(e):
    """set of sf flags found on the operand and on EVERY node below it (inner nodes hand their flag to the
    constants they evaluate to, so they are part of the declaration)."""
    out = set()
    seen = set()
    todo = [e]
    while todo:
        x = todo.pop()
        if not isinstance(x, exp) or id(x) in seen:
            continue
        seen.add(id(x))
        out.add(bool(x.sf))
        todo.extend(children(x))
    return frozenset(out)


def build(script, decl=None, mid=None):
    """execute the script; returns the single resulting expression.
    decl (list) receives, per binary instruction index, (k, l.sf, r.sf, signs) observed on the operand
    objects just before the operator is applied (= what the user declared): `signs` is the set of sf flags
    of the two operands and of all nodes below them — the declaration is unambiguous
    iff that set has one element."""
    st = []
    for k, ins in enumerate(script):
        o = ins[0]
        if o == "cst":
            st.append(cst(ins[1], ins[2]))
        elif o == "reg":
            st.append(reg(ins[1], ins[2]))
        elif o == "ext":
            st.append(ext(ins[1], size=ins[2]))
        elif o == "top":
            st.append(top(ins[1]))
        elif o == "mem":
            st.append(mem(reg(ins[1], ins[5]), ins[2], disp=ins[3], endian=ins[4]))
        elif o == "setpart":
            v = st.pop()
            c = st.pop()
            if type(c) is not comp:
                cc = comp(c.size)
                cc[0:c.size] = c
                c = cc
            try:
                c[ins[1]:ins[2]] = v
            finally:
                if mid is not None:
                    # the comp as it is right after the write (K-tie: parts tile the width, smask agrees)
                    try:
                        mid.append(dump(c, smask=True))
                    except Exception:
                        pass
            st.append(c)
        elif o == "signed":
            st.append(st.pop().signed())
        elif o == "unsigned":
            st.append(st.pop().unsigned())
        elif o == "neg":
            st.append(-st.pop())
        elif o == "not":
            st.append(~st.pop())
        elif o in BIN_PY or o in BIN_OPER or o in BIN_HELP:
            r = st.pop()
            l = st.pop()
            if decl is not None:
                decl.append((k, bool(l.sf), bool(r.sf), leaf_signs(l) | leaf_signs(r)))
            if o in BIN_PY:
                st.append(BIN_PY[o](l, r))
            elif o in BIN_OPER:
                st.append(oper(BIN_OPER[o], l, r))
            else:
                st.append(BIN_HELP[o](l, r))
        elif o == "slice":
            x = st.pop()
            st.append(x[ins[1]:ins[2]])
        elif o == "bit":
            x = st.pop()
            st.append(x.bit(ins[1]))
        elif o == "compose":
            n = ins[1]
            parts = st[len(st) - n:]
            del st[len(st) - n:]
            st.append(composer(parts))
        elif o == "tst":
            r = st.pop()
            l = st.pop()
            t = st.pop()
            st.append(tst(t, l, r))
        elif o == "zext":
            st.append(st.pop().zeroextend(ins[1]))
        elif o == "sext":
            st.append(st.pop().signextend(ins[1]))
        elif o == "rawop":
            r = st.pop()
            l = st.pop()
            if ins[1] not in RAW_SYM:
                raise ScriptError(ins[1])
            if decl is not None:
                decl.append((k, bool(l.sf), bool(r.sf), leaf_signs(l) | leaf_signs(r)))
            st.append(op(RAW_SYM[ins[1]], l, r))
        elif o == "rawuop":
            x = st.pop()
            st.append(uop({"neg": X.OP_MIN, "not": X.OP_NOT}[ins[1]], x))
        elif o == "rawslc":
            x = st.pop()
            st.append(slc(x, ins[1], ins[2]))
        elif o == "rawcomp":
            n = ins[1]
            parts = st[len(st) - n:]
            del st[len(st) - n:]
            c = comp(sum(p.size for p in parts))
            pos = 0
            for p in parts:
                c[pos:pos + p.size] = p
                pos += p.size
            st.append(c)
        elif o == "simp":
            st.append(st.pop().simplify())
        elif o == "simpb":
            st.append(st.pop().simplify(bitslice=True))
        else:
            raise ScriptError(o)
    if len(st) != 1:
        raise ScriptError("stack %d" % len(st))
    return st[0]


# ---------------------------------------------------------------------------------------
# canonical dump
# ---------------------------------------------------------------------------------------

def dump(e, smask=False):
    """nested arrays; comp parts in dict (insertion) order — that order is behaviour (symbols_of)."""
    if isinstance(e, int):
        return ["pyint", e]
    if not isinstance(e, exp):
        return ["pyobj", type(e).__name__]
    t = type(e)
    sf = bool(e.sf)
    if t is cst:
        return ["cst", e.v, e.size, sf]
    if t is X.sym:
        return ["sym", e.ref, e.v, e.size, sf]
    if t is reg:
        return ["reg", e.ref, e.size, sf]
    if t is ext or t is X.lab:
        return ["ext", e.ref, e.size, sf]
    if t is slc:
        return ["slc", dump(e.x, smask), e.pos, e.size, sf, e.ref, 2 if e._is_ext else (1 if e._is_reg else 0)]
    if t is comp:
        parts = [[k[0], k[1], dump(v, smask)] for k, v in e.parts.items()]
        d = ["comp", e.size, sf, parts]
        if smask:
            d.append([None if m is None else [m[0], m[1]] for m in e.smask])
        return d
    if t is tst:
        return ["tst", dump(e.tst, smask), dump(e.l, smask), dump(e.r, smask), e.size, sf]
    if t is op:
        return ["op", e.op.symbol, dump(e.l, smask), dump(e.r, smask), e.size, sf, e.prop]
    if t is uop:
        return ["uop", e.op.symbol, dump(e.r, smask), e.size, sf, e.prop]
    if t is top:
        return ["top", e.size, sf]
    if t is vecw:
        return ["vecw", [dump(x, smask) for x in e.l], e.size, sf]
    if t is vec:
        return ["vec", [dump(x, smask) for x in e.l], e.size, sf]
    if t is ptr:
        return ["ptr", dump(e.base, smask), None if e.seg is None else (dump(e.seg, smask) if isinstance(e.seg, exp) else str(e.seg)),
                e.disp if isinstance(e.disp, int) else str(e.disp), e.size, sf]
    if t is mem:
        return ["mem", dump(e.a, smask), e.size, sf, e.endian, [[dump(a, smask), dump(b, smask)] for a, b in e.mods]]
    if t is exp:
        return ["bot", e.size, sf]
    return ["other", t.__name__]


def strip_smask(d):
    if isinstance(d, list):
        if d and d[0] == "comp" and len(d) == 5:
            d = d[:4]
        return [strip_smask(x) for x in d]
    return d


def comps_of(d, acc=None):
    """all comp dumps (with smask) inside a dump."""
    if acc is None:
        acc = []
    if isinstance(d, list):
        if d and d[0] == "comp":
            acc.append(d)
        for x in d:
            comps_of(x, acc)
    return acc


def children(e):
    t = type(e)
    if t is slc:
        return [e.x]
    if t is comp:
        return list(e.parts.values())
    if t is tst:
        return [e.tst, e.l, e.r]
    if t is op:
        return [e.l, e.r]
    if t is uop:
        return [e.r]
    if t is vec or t is vecw:
        return list(e.l)
    if t is ptr:
        return [e.base] + ([e.seg] if isinstance(e.seg, exp) else [])
    if t is mem:
        return [e.a] + [x for m in e.mods for x in m]
    return []


def has_sharing(e):
    """does the object graph below e reach a non-leaf-constant node by two paths?  amoco's own helpers
    (extend, rol, bitslice …) put one object at several places; in-place sf writes then hit all of them."""
    seen = set()
    todo = [e]
    while todo:
        x = todo.pop()
        if not isinstance(x, exp):
            continue
        if id(x) in seen:
            if x is not bit0 and x is not bit1:
                return True
            continue
        seen.add(id(x))
        todo.extend(children(x))
    return False


def strip_sf(d, root=True):
    """dump with the sf flag (and the cached `prop`) of every non-root node blanked: comparison up to in-place
    writes on nodes that amoco itself shares between two places of a result."""
    if not isinstance(d, list) or not d or not isinstance(d[0], str):
        return d
    k = d[0]
    pos = {"cst": 3, "reg": 3, "ext": 3, "slc": 4, "comp": 2, "tst": 5, "op": 5, "uop": 4, "top": 2, "vec": 3, "vecw": 3}.get(k)
    ppos = {"op": 6, "uop": 5}.get(k)      # `prop` is stale/recomputed when a shared node is simplified twice in place
    out = []
    for i, x in enumerate(d):
        if (i == pos or i == ppos) and not root:
            out.append(None)
        elif isinstance(x, list):
            if x and isinstance(x[0], str):
                out.append(strip_sf(x, False))
            else:
                out.append([([y[0], y[1], strip_sf(y[2], False)] if (isinstance(y, list) and len(y) == 3 and isinstance(y[0], int)) else strip_sf(y, False)) for y in x])
        else:
            out.append(x)
    return out


def render(e):
    try:
        return str(e)
    except Exception as ex:
        return "!" + type(ex).__name__


EXC_CLASS = {"ValueError": "value", "ZeroDivisionError": "div0", "AssertionError": "assert", "TypeError": "type",
             "AttributeError": "attr", "MemoryError": "overflow", "OverflowError": "overflow",
             "NotImplementedError": "notimpl", "RecursionError": "recursion", "IndexError": "index", "KeyError": "key"}


def exc_class(ex):
    return EXC_CLASS.get(type(ex).__name__, type(ex).__name__)


def make_env(valuation):
    """total constant valuation: list of [name, size, value] → mapper, as tests/test_cas_mapper.py do."""
    m = mapper()
    for name, size, v in valuation:
        m[reg(name, size)] = cst(v, size)
    return m


def make_env_expr(bindings):
    """partial / symbolic environment: list of [name, size, script] (script builds the bound expression)."""
    m = mapper()
    for name, size, s in bindings:
        m[reg(name, size)] = build(s)
    return m


def limit_memory(gb=4):
    """the real code computes `int << n` and `[bit0]*n` literally: bound the address space so that such inputs
    end in MemoryError instead of the OOM killer.  Call after the Lean driver has been spawned."""
    import resource
    try:
        resource.setrlimit(resource.RLIMIT_AS, (gb << 30, gb << 30))
    except (ValueError, OSError):
        pass


class CaseTimeout(BaseException):
    pass


def _alarm(signum, frame):
    raise CaseTimeout()


def outcome(f, seconds=2.0):
    """run f → ["ok", dump(with smask), str, size] or ["raise", class] or ["timeout"] (wall-clock guard:
    the real code computes `int << n` and `[bit0]*n` literally)."""
    import signal
    old = signal.signal(signal.SIGALRM, _alarm)
    signal.setitimer(signal.ITIMER_REAL, seconds)
    try:
        try:
            e = f()
            res = ["ok", dump(e, smask=True), render(e), e.size if isinstance(e, exp) else None, has_sharing(e)]
        finally:
            signal.setitimer(signal.ITIMER_REAL, 0)
    except ScriptError:
        raise
    except CaseTimeout:
        return ["timeout"]
    except Exception as ex:
        return ["raise", exc_class(ex)]
    finally:
        signal.signal(signal.SIGALRM, old)
    return res


def run(script, action, complexity=0):
    """action: ["build"] | ["simplify", opt] (opt in "", "bitslice", "widening") | ["eval", valuation]
               | ["simpeval", opt, valuation] | ["evalx", bindings]
       returns (outcome, decl, dirty_globals)"""
    old = conf.Cas.complexity
    conf.Cas.complexity = complexity
    reset_globals()
    decl = []
    mid = []
    global last_mid
    last_mid = mid
    try:
        def f():
            e = build(script, decl, mid)
            a = action[0]
            if a == "build":
                return e
            if a == "simplify":
                return e.simplify(**optk(action[1]))
            if a == "eval":
                return make_env(action[1])(e)
            if a == "simpeval":
                e = e.simplify(**optk(action[1]))
                return make_env(action[2])(e)
            if a == "evalx":
                return make_env_expr(action[1])(e)
            raise ScriptError(a)
        out = outcome(f)
    finally:
        conf.Cas.complexity = old
    dirty = reset_globals()
    return out, decl, dirty


def optk(opt):
    return {"": {}, "bitslice": {"bitslice": True}, "widening": {"widening": True}}[opt]
