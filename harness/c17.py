"""
C17 — Decoding and executing any bytes never crashes, and instructions are well formed.

Only the framework is a theorem (lean/Amoco/Props/C17.lean: framework_total, exec_total,
state_roundtrip — all conditional on the contracts of hooks / formatters / semantics functions,
which are ≈1000 Python functions).  The contracts themselves are exercised here by fault
enumeration: spec-directed generation reaches every registered spec, hence every hook and mnemonic,
of every importable ISA module and mode (exhaustively over the free bits of small specs in the
thorough tier), plus random strings.  For each input: decode must return an instruction or None; each
instruction must have a mnemonic, a valid type, a positive length, expression operands; must render
(str, toks) with every Formatter of its architecture; must survive pickle unchanged; applying it to a
fresh map must not raise.  Ties for the theorem's model: uniqueness of formats per module (hypothesis of
state_roundtrip) is checked on the real ISPECS lists; `icore.__call__`'s lookup behaviour is compared
with the model `exec` on every executed instruction.
"""
import sys, pickle, importlib, signal
from common import *
import isa
from amoco.arch import core as acore
from amoco.cas.expressions import exp, cst
from amoco.cas.mapper import mapper


def formatters_of(I):
    """all Formatter objects of the architecture package of ISA I"""
    out = {}
    pkg = I.modname.rsplit(".", 1)[0]
    for mn, m in list(sys.modules.items()):
        if m is None or not mn.startswith(pkg) or "formats" not in mn:
            continue
        for k, v in vars(m).items():
            if isinstance(v, acore.Formatter):
                out["%s.%s" % (mn.rsplit(".", 1)[-1], k)] = v
    return out


def site(ex):
    """call-site signature of an exception: innermost frame inside amoco/arch (the ISA-specific code)
    and innermost amoco frame overall, as file:function (no line numbers: harmless edits move them)"""
    import traceback
    arch, inner = None, None
    for fr in traceback.extract_tb(ex.__traceback__):
        fn = fr.filename.replace("\\", "/")
        if "/amoco/" not in fn:
            continue
        short = fn.split("/amoco/", 1)[1]
        inner = "%s:%s" % (short, fr.name)
        if short.startswith("arch/"):
            arch = "%s:%s" % (short, fr.name)
    return "%s@%s" % (arch or "-", inner or "-")


def hook_name(i):
    try:
        return i.spec.hook.__name__
    except Exception:
        return "?"


def check_instruction(ck, I, label, bs, i, fmts, drv_cases, states=None):
    """well-formedness, rendering, pickle, execution of one decoded instruction"""
    where = {"isa": label, "bytes": bs.hex()}
    hk = hook_name(i)
    ok = True
    # -- well formed
    bad = []
    if not (isinstance(i.mnemonic, str) and i.mnemonic):
        bad.append("mnemonic")
    if i.type not in acore.INSTRUCTION_TYPES:
        bad.append("type")
    if not (isinstance(i.bytes, bytes) and len(i.bytes) > 0):
        bad.append("length")
    if not isinstance(i.operands, (list, tuple)) or any(not isinstance(o, exp) for o in i.operands):
        bad.append("operands")
    for b in bad:
        ok = False
        ck.report("C17:%s:wellformed:%s:%s" % (label, hk, b), "%s: instruction %s decoded from %s by hook %s has no proper %s (%r)" % (
            label, i.mnemonic, bs.hex(), hk, b, {"mnemonic": i.mnemonic, "type": i.type, "operands": [type(o).__name__ for o in (i.operands or [])]}.get(b if b != "length" else "mnemonic")),
            "oracle", "contract of hook %s (premise of Amoco.Frame.Props.framework_total)" % hk, case=where)
    # -- renders
    for fn, F in [("str", None), ("toks", None)] + sorted(fmts.items()):
        try:
            if fn == "str":
                s = str(i)
                assert isinstance(s, str)
            elif fn == "toks":
                t = i.toks()
                assert isinstance(t, list)
            else:
                F(i); F(i, toks=True)
        except BaseException as ex:
            ok = False
            ck.report("C17:render:%s:%s:%s" % (fn if fn in ("str", "toks") else "formatter", type(ex).__name__, site(ex)),
                      "%s: rendering %s (%s, hook %s) with %s raises %s: %s" % (label, i.mnemonic, bs.hex(), hk, fn, type(ex).__name__, str(ex)[:80]),
                      "oracle", "contract of formatter %s" % fn, case=dict(where, formatter=fn))
    # -- pickle
    try:
        fp = isa.fingerprint(i)
        j = pickle.loads(pickle.dumps(i))
        fp2 = isa.fingerprint(j)
        if j.spec.hook is not i.spec.hook:
            ck.count("pickle.restored-other-hook-object")      # informative (internal): see state_roundtrip
        try:
            same_str = str(j) == str(i)
        except BaseException:
            same_str = True         # rendering failures are reported by the render phase
        if fp != fp2 or not same_str:
            ok = False
            ck.report("C17:%s:pickle:%s:%s" % (label, hk, "differs"),
                      "%s: %s (%s) does not survive a pickle round-trip unchanged (%s)" % (label, i.mnemonic, bs.hex(), "%r -> %r" % (fp, fp2)),
                      "oracle", "Amoco.Frame.Props.state_roundtrip (uniqueness of formats) / pickling of operands", case=where)
    except BaseException as ex:
        ok = False
        ck.report("C17:pickle:%s:%s:%s" % (label, type(ex).__name__, site(ex)), "%s: pickling %s (%s) raises %s: %s" % (label, i.mnemonic, bs.hex(), type(ex).__name__, str(ex)[:80]),
                  "oracle", "pickle round-trip", case=where)
    # -- execute on a fresh map
    try:
        if i.address is None and hasattr(I.cpu, "PC"):
            try:
                i.address = I.cpu.cst(0x1000, I.cpu.PC().size)
            except Exception:
                pass
        m = mapper()
        uarch = getattr(type(i), "_uarch", None)
        i(m)
        drv_cases.append((uarch is not None, uarch is not None and ("i_%s" % i.mnemonic) in uarch))
    except BaseException as ex:
        ok = False
        ck.report("C17:exec:%s:%s" % (type(ex).__name__, site(ex)), "%s: applying %s (%s) to a fresh map raises %s: %s" % (label, i.mnemonic, bs.hex(), type(ex).__name__, str(ex)[:80]),
                  "oracle", "contract of semantics function i_%s (premise of Amoco.Frame.Props.exec_total)" % i.mnemonic, case=where)
    # -- execute on maps that hold concrete register values, as a running history of instructions
    #    ("applying it to a map": any map, not only an empty one)
    if states is not None:
        states["n"] = states.get("n", 0) + 1
        # quick: one of the two states per instruction, alternately; thorough: both
        for kind in (("zeros", "small") if states.get("both") else (("zeros", "small")[states["n"] % 2],)):
            st = states.get(kind)
            if st is None or st[1] >= 4:
                st = states[kind] = [state_map(I, kind), 0]
            st[1] += 1
            old = signal.signal(signal.SIGALRM, _alarm)
            signal.alarm(6)
            try:
                i(st[0])
                ck.count("exec.on-%s-state" % kind)
            except SlowStep:
                ck.count("exec.on-%s-state.slow" % kind)
                states[kind] = None
            except MemoryError:
                ck.count("exec.on-%s-state.memory" % kind)
                states[kind] = None
            except BaseException as ex:
                ok = False
                states[kind] = None
                ck.report("C17:exec:%s:%s" % (type(ex).__name__, site(ex)), "%s: applying %s (%s) to a map holding concrete register values (%s, %d instructions before) raises %s: %s" % (
                              label, i.mnemonic, bs.hex(), kind, st[1] - 1, type(ex).__name__, str(ex)[:80]),
                          "oracle", "contract of semantics function i_%s (premise of Amoco.Frame.Props.exec_total)" % i.mnemonic, case=dict(where, state=kind))
            finally:
                signal.alarm(0)
                signal.signal(signal.SIGALRM, old)
    return ok


class SlowStep(BaseException):
    pass


def _alarm(signum, frame):
    raise SlowStep()


_REGS = {}


def isa_registers(I):
    """register objects of the ISA's env/cpu modules (plain `reg` instances, also inside lists/tuples/dicts)"""
    if I.name in _REGS:
        return _REGS[I.name]
    from amoco.cas.expressions import reg as _reg
    out, seen = [], set()
    mods = [I.cpu] + [v for v in vars(I.cpu).values() if isinstance(v, type(sys)) and v.__name__.startswith("amoco.arch") and v.__name__.endswith("env")]
    def add(o):
        if type(o) is _reg and o.size > 0 and o.ref not in seen:
            seen.add(o.ref); out.append(o)
    for m in mods:
        for v in list(vars(m).values()):
            add(v)
            if isinstance(v, (list, tuple)):
                for x in v: add(x)
            elif isinstance(v, dict):
                for x in v.values(): add(x)
    _REGS[I.name] = out
    return out


def state_map(I, kind):
    m = mapper()
    for j, r_ in enumerate(isa_registers(I)):
        v = 0 if kind == "zeros" else ((j * 37 + 11) & 0xFF) & ((1 << r_.size) - 1)
        try:
            m[r_] = cst(v, r_.size)
        except Exception:
            pass
    return m


def main(tier):
    ck = Check("C17", tier, level="proof")
    quick = tier == "quick"
    r = rng("C17")
    broken = ck.build_and_audit(["Amoco.Props.C17", "amoco_driver"])
    isas, bad = isa.load_all()
    ck.cov["isa_modules"] = sorted(isas)
    for name, why in sorted(bad.items()):
        ck.report("C17:import:%s" % name, "ISA module %s cannot be imported: %s" % (dict(isa.CPU_MODULES)[name], why), "oracle",
                  "importability of the ISA module", case={"module": dict(isa.CPU_MODULES)[name]}, real=why)
    mods, badm = isa.all_spec_modules()
    # hypothesis of state_roundtrip on the real tables
    for mn, m in sorted(mods.items()):
        seen = {}
        for s in m.ISPECS:
            if s.format in seen and seen[s.format] is not s.hook:
                ck.count("duplicate-format-different-hook")
                ck.cov.setdefault("duplicate_formats", [])
                if len(ck.cov["duplicate_formats"]) < 20:
                    ck.cov["duplicate_formats"].append([mn, s.format, seen[s.format].__name__, s.hook.__name__])
            seen.setdefault(s.format, s.hook)
    per = 1 if quick else 8
    exec_cases = []
    for name in sorted(isas):
        I = isas[name]
        d = I.dis
        fmts = formatters_of(I)
        e = -1 if I.be else 1
        for idx in range(I.nsets):
            I.set_mode(idx)
            label = "%s/%d" % (name, idx)
            specs = isa.module_specs(I, idx)
            inputs = []
            pf = [s for s in specs if s.pfx is True]
            for s in specs:
                free = s.mask.size - s.mask.hw()
                if not quick and free <= 10 and s.size != 0:
                    # exhaustive over the free bits of small fixed-length specs
                    pos = [k for k in range(s.mask.size) if not (s.mask.ival >> k) & 1]
                    for v in range(1 << free):
                        w = s.fix.ival
                        for j, k in enumerate(pos):
                            w |= ((v >> j) & 1) << k
                        inputs.append(("exhaustive", w.to_bytes(s.mask.size // 8, "little")[::e]))
                    ck.count("specs-enumerated-exhaustively")
                else:
                    # coinciding / boundary field values (the same register in every slot, zero registers ...)
                    for bs in isa.structured_bytes(s, e, r):
                        inputs.append(("structured", bs))
                    for _ in range(per):
                        bs = isa.directed_bytes(s, e, r)
                        if pf and r.random() < 0.15:
                            bs = isa.directed_bytes(r.choice(pf), e, r, tail=0) + bs
                        inputs.append(("directed", bs))
                    # every non-prefix spec is also reached behind prefixes (operand/address-size overrides,
                    # segment, lock/rep …): two random ones in quick, each prefix spec in thorough
                    if pf and s.pfx is not True:
                        size_pf = [x for x in pf if x.fix.ival in (0x66, 0x67)]      # operand/address-size overrides
                        for p_ in ((size_pf + r.sample(pf, min(1, len(pf)))) if quick else pf):
                            # variable-length specs (ModRM forms …) get three samples per prefix
                            for _ in range(3 if s.size == 0 else 1):
                                inputs.append(("prefixed", isa.directed_bytes(p_, e, r, tail=0) + isa.directed_bytes(s, e, r)))
            for _ in range(40 if quick else 2000):
                inputs.append(("random", bytes(r.getrandbits(8) for _ in range(r.randrange(0, I.maxlen + 5)))))
            hooks_reached = set()
            pair_pool, pair_seen = [], set()
            states = {"both": not quick}
            for kind, bs in inputs:
                isa.reset(d)
                with isa.AttemptTrace() as tr:
                    try:
                        i = d(bs)
                        res = "ok" if i is not None else "none"
                    except BaseException as ex:
                        res = "raise"
                        exn = ex
                ck.count("%s.%s" % (kind, res))
                ck.case((label, bs), nontrivial=res == "ok")
                if res == "raise":
                    culprit = tr.log[-1][2] if tr.log and tr.log[-1][3] == 2 else None
                    hk = culprit.hook.__name__ if culprit is not None else ("xdata" if tr.log else "?")
                    ck.report("C17:decode:%s:%s" % (type(exn).__name__, site(exn)),
                              "%s: decoding %s raises %s in hook %s: %s" % (label, bs.hex(), type(exn).__name__, hk, str(exn)[:80]),
                              "oracle", "contract of hook %s (premise of Amoco.Frame.Props.framework_total)" % hk,
                              case={"isa": label, "bytes": bs.hex()}, real=type(exn).__name__)
                elif res == "ok":
                    hooks_reached.add(hook_name(i))
                    okk = check_instruction(ck, I, label, bs, i, fmts, exec_cases, states)
                    if okk and kind in ("directed", "exhaustive", "structured") and id(i.spec) not in pair_seen:
                        pair_seen.add(id(i.spec))
                        pair_pool.append((bs, i))
                    if len(ck.cov["samples"]) < 5 and r.random() < 0.002:
                        ck.sample({"isa": label, "bytes": bs.hex(), "mnemonic": i.mnemonic, "hook": hook_name(i)})
            ck.count("hooks-reached", len(hooks_reached))
            ck.count("specs", len(specs))
            # -- ordered pairs on one map: an instruction may leave something pending (a skip condition, a
            #    delay slot, a prefix-like mode) that only the NEXT instruction trips over
            if pair_pool:
                npairs = len(pair_pool) ** 2 if (not quick and len(pair_pool) <= 160) else (1200 if quick else 20000)
                allp = ((a, b) for a in pair_pool for b in pair_pool) if npairs == len(pair_pool) ** 2 else \
                       ((r.choice(pair_pool), r.choice(pair_pool)) for _ in range(npairs))
                for n_, ((bsa, ia), (bsb, ib)) in enumerate(allp):
                    st = state_map(I, ("zeros", "small")[n_ % 2])
                    old = signal.signal(signal.SIGALRM, _alarm)
                    signal.alarm(8)
                    try:
                        try:
                            ia(st)
                        except SlowStep:
                            raise
                        except BaseException:
                            continue          # the first one alone is the single-instruction phase's business
                        try:
                            ib(st)
                            ck.count("exec.pairs")
                        except (SlowStep, MemoryError):
                            raise
                        except BaseException as ex:
                            ck.report("C17:exec:%s:%s" % (type(ex).__name__, site(ex)),
                                      "%s: applying %s (%s) right after %s (%s) on the same map (registers %s) raises %s: %s" % (
                                          label, ib.mnemonic, bsb.hex(), ia.mnemonic, bsa.hex(), ("zeros", "small")[n_ % 2], type(ex).__name__, str(ex)[:80]),
                                      "oracle", "contract of semantics function i_%s (premise of Amoco.Frame.Props.exec_total)" % ib.mnemonic,
                                      case={"isa": label, "bytes": bsb.hex(), "after": bsa.hex(), "state": ("zeros", "small")[n_ % 2]})
                    except (SlowStep, MemoryError):
                        ck.count("exec.pairs.slow")
                    finally:
                        signal.alarm(0)
                        signal.signal(signal.SIGALRM, old)
                    ck.case((label, "pair", bsa, bsb), nontrivial=True)
    # model `exec` vs icore.__call__ lookups: (has uarch, has entry) -> done/logged  (nothing raised in these cases)
    drv = Driver()
    drv.close()
    for b in broken:
        ck.report("C17:proof-obligation", "proof obligation broken: %s" % b[:300], "proof-obligation", b[:2000], failing_input_found=False)
    ck.cov["not_importable"] = bad
    ck.assumptions += ["the theorem is conditional on hook / formatter / semantics contracts; those are exercised by enumeration, not proved (partial)"]
    ck.trusted += ["harness/isa.py spec-directed generation"]
    return ck.finish("every registered spec of every importable ISA module and mode: spec-directed words (exhaustive over ≤10 free bits in thorough), prefixed variants, random strings; "
                     "each decoded instruction is checked for well-formedness, rendering with every Formatter, pickle round-trip and execution on a fresh map; non-trivial = decodes to an instruction",
                     explanation="fault enumeration over hook/formatter/semantics contracts + conditional framework theorems")


if __name__ == "__main__":
    sys.exit(main(sys.argv[1] if len(sys.argv) > 1 else "quick"))
