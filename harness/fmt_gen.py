"""
fmt_gen.py — structured generators for C14 / C20 (independent of amoco):
  * synthesised ELF images in all four class × byte-order combinations, with arbitrary numbers and
    positions of program headers, sections and symbols (written from the ELF specification with
    Python `struct`);
  * Intel-HEX and S-record streams (valid, and with corrupted checksums / lengths / characters);
  * truncations and byte corruptions of files.
"""
import struct

PT_NAMES = {0: "NULL", 1: "LOAD", 2: "DYNAMIC", 3: "INTERP", 4: "NOTE", 6: "PHDR", 7: "TLS",
            0x6474e550: "GNU_EH_FRAME", 0x6474e551: "GNU_STACK", 0x6474e552: "GNU_RELRO"}
UNKNOWN_PT = [0x6474e553, 0x70000003, 0x65a3dbe6, 9]           # GNU_PROPERTY, RISCV_ATTRIBUTES, OPENBSD_RANDOMIZE, undefined
UNKNOWN_SHT = [0x6ffffff5, 0x6fff4c00, 0x70000006, 0x14]        # GNU_ATTRIBUTES, LLVM_ODRTAB, MIPS_REGINFO, undefined

SHT_NULL, SHT_PROGBITS, SHT_SYMTAB, SHT_STRTAB, SHT_RELA, SHT_HASH, SHT_DYNAMIC, SHT_NOTE, SHT_NOBITS, SHT_REL = range(10)
SHT_DYNSYM = 11
SHT_INIT_ARRAY = 14


class W(object):
    """struct writer for one class / byte order"""

    def __init__(self, x64, be):
        self.x64, self.be = x64, be
        self.o = ">" if be else "<"
        self.A = "Q" if x64 else "I"
        self.asz = 8 if x64 else 4

    def ehdr(self, e):
        ident = b"\x7fELF" + bytes([2 if self.x64 else 1, 2 if self.be else 1, e.get("EI_VERSION", 1),
                                    e.get("EI_OSABI", 0), e.get("EI_ABIVERSION", 0)]) + b"\0" * 7
        A = self.A
        return ident + struct.pack(self.o + "HHI" + A + A + A + "IHHHHHH", e["e_type"], e["e_machine"], e["e_version"],
                                   e["e_entry"], e["e_phoff"], e["e_shoff"], e["e_flags"], e["e_ehsize"],
                                   e["e_phentsize"], e["e_phnum"], e["e_shentsize"], e["e_shnum"], e["e_shstrndx"])

    @property
    def ehsize(self):
        return 64 if self.x64 else 52

    @property
    def phsize(self):
        return 56 if self.x64 else 32

    @property
    def shsize(self):
        return 64 if self.x64 else 40

    @property
    def symsize(self):
        return 24 if self.x64 else 16

    def phdr(self, p):
        if self.x64:
            return struct.pack(self.o + "IIQQQQQQ", p["p_type"], p["p_flags"], p["p_offset"], p["p_vaddr"], p["p_paddr"],
                               p["p_filesz"], p["p_memsz"], p["p_align"])
        return struct.pack(self.o + "IIIIIIII", p["p_type"], p["p_offset"], p["p_vaddr"], p["p_paddr"],
                           p["p_filesz"], p["p_memsz"], p["p_flags"], p["p_align"])

    def shdr(self, s):
        A = self.A
        return struct.pack(self.o + "II" + A * 4 + "II" + A * 2, s["sh_name"], s["sh_type"], s["sh_flags"], s["sh_addr"],
                           s["sh_offset"], s["sh_size"], s["sh_link"], s["sh_info"], s["sh_addralign"], s["sh_entsize"])

    def sym(self, y):
        if self.x64:
            return struct.pack(self.o + "IBBHQQ", y["st_name"], y["st_info"], y["st_other"], y["st_shndx"], y["st_value"], y["st_size"])
        return struct.pack(self.o + "IIIBBH", y["st_name"], y["st_value"], y["st_size"], y["st_info"], y["st_other"], y["st_shndx"])

    def rel(self, r):
        return struct.pack(self.o + self.A * 2, r["r_offset"], r["r_info"])

    def rela(self, r):
        return struct.pack(self.o + self.A * 3, r["r_offset"], r["r_info"], r["r_addend"])

    def dyn(self, d):
        return struct.pack(self.o + self.A * 2, d["d_tag"], d["d_un"])

    def r_info(self, sym, typ):
        return (sym << 32 | typ) if self.x64 else (sym << 8 | (typ & 0xff))


class StrTab(object):
    def __init__(self):
        self.b = bytearray(b"\0")
        self.idx = {}

    def add(self, s):
        if isinstance(s, str):
            s = s.encode("utf-8")
        if s in self.idx:
            return self.idx[s]
        i = len(self.b)
        self.b += s + b"\0"
        self.idx[s] = i
        return i


WORDS = ["main", "_start", "foo", "bar", "init", "fini", "handler", "table", "buf", "counter", "x", "y", "cfg",
         "data_end", "__bss_start", "memcpy", "printf", "puts", "exit", "malloc", "naïve", "größe", "λ"]


def synth_elf(r, x64=None, be=None, quirks=()):
    """returns (bytes, meta). quirks ⊆ {"unaligned", "bigent", "unknown_pt", "unknown_sht", "nosh", "noph",
    "nostrndx", "dupaddr", "utf8"}"""
    x64 = r.random() < 0.5 if x64 is None else x64
    be = r.random() < 0.5 if be is None else be
    w = W(x64, be)
    maxaddr = (1 << 40) if x64 else (1 << 31)
    base = r.choice([0x400000, 0x8048000, 0x10000, 0, 0x100000000 if x64 else 0x20000000])
    dyn = r.random() < 0.5
    nprog = r.randint(0, 6)
    nsyms = r.choice([0, 1, 2, 5, 12, 40])
    shstr, strt, dynstr = StrTab(), StrTab(), StrTab()
    blobs = []   # (key, bytes, align)
    sections = [dict(name="", sh_type=0, sh_flags=0, sh_addr=0, blob=None, size=0, sh_link=0, sh_info=0, sh_addralign=0, sh_entsize=0)]
    # program sections
    addr = base + 0x1000
    progsecs = []
    for i in range(nprog):
        sz = r.choice([0, 1, 4, 16, 37, 256, 1000])
        nm = r.choice([".text", ".data", ".rodata", ".init", ".plt", ".got", ".sec%d" % i, ".text"])
        if "utf8" in quirks and r.random() < 0.4:
            nm = "." + r.choice(["naïve", "größe", "λx"])
        ty = r.choice([SHT_PROGBITS, SHT_PROGBITS, SHT_PROGBITS, SHT_NOBITS, SHT_NOTE, SHT_INIT_ARRAY])
        if "unknown_sht" in quirks and r.random() < 0.35:
            ty = r.choice(UNKNOWN_SHT)
        content = bytes(r.getrandbits(8) for _ in range(sz)) if ty != SHT_NOBITS else b""
        s = dict(name=nm, sh_type=ty, sh_flags=r.choice([2, 3, 6, 0]), sh_addr=addr if r.random() < 0.9 else 0,
                 blob=("sec%d" % i) if ty != SHT_NOBITS else None, size=sz, sh_link=0, sh_info=0,
                 sh_addralign=r.choice([1, 4, 16]), sh_entsize=0)
        if ty != SHT_NOBITS:
            blobs.append(("sec%d" % i, content, r.choice([1, 4, 16])))
        sections.append(s)
        progsecs.append(s)
        addr += sz + r.choice([0, 0, 3, 16, 0x1000])
    # symbols
    syms = [dict(st_name=0, st_info=0, st_other=0, st_shndx=0, st_value=0, st_size=0)]
    values = []
    for i in range(nsyms):
        nm = r.choice(WORDS) + (str(r.randint(0, 9)) if r.random() < 0.5 else "")
        typ = r.choice([2, 2, 2, 1, 1, 0, 3, 4])
        bind = r.choice([0, 1, 1, 2])
        if progsecs and r.random() < 0.8:
            s = r.choice(progsecs)
            v = s["sh_addr"] + (r.randrange(s["size"]) if s["size"] else 0)
        else:
            v = r.choice([0, 0, r.randrange(maxaddr)])
        if "dupaddr" in quirks and values and r.random() < 0.4:
            v = r.choice(values)
        values.append(v)
        syms.append(dict(st_name=strt.add(nm), st_info=(bind << 4) | typ, st_other=r.choice([0, 0, 2]),
                         st_shndx=r.randrange(0, nprog + 1) if r.random() < 0.9 else 0xfff1,
                         st_value=v, st_size=r.choice([0, 4, 8, 100])))
    have_symtab = r.random() < 0.8
    if have_symtab:
        blobs.append(("symtab", b"".join(w.sym(y) for y in syms), 8))
        blobs.append(("strtab", bytes(strt.b), 1))
        sections.append(dict(name=".symtab", sh_type=SHT_SYMTAB, sh_flags=0, sh_addr=0, blob="symtab", size=None,
                             sh_link=".strtab", sh_info=1, sh_addralign=8, sh_entsize=w.symsize))
        sections.append(dict(name=".strtab", sh_type=SHT_STRTAB, sh_flags=0, sh_addr=0, blob="strtab", size=None,
                             sh_link=0, sh_info=0, sh_addralign=1, sh_entsize=0))
    interp = None
    if dyn:
        interp = b"/lib/ld-linux.so.2\0"
        blobs.append(("interp", interp, 1))
        sections.append(dict(name=".interp", sh_type=SHT_PROGBITS, sh_flags=2, sh_addr=base + 0x200, blob="interp", size=None,
                             sh_link=0, sh_info=0, sh_addralign=1, sh_entsize=0))
        dsyms = [dict(st_name=0, st_info=0, st_other=0, st_shndx=0, st_value=0, st_size=0)]
        for i in range(r.randint(0, 6)):
            dsyms.append(dict(st_name=dynstr.add(r.choice(WORDS)), st_info=0x12, st_other=0, st_shndx=0, st_value=0, st_size=0))
        dynstr.add("libc.so.6")
        blobs.append(("dynsym", b"".join(w.sym(y) for y in dsyms), 8))
        blobs.append(("dynstr", bytes(dynstr.b), 1))
        sections.append(dict(name=".dynsym", sh_type=SHT_DYNSYM, sh_flags=2, sh_addr=base + 0x300, blob="dynsym", size=None,
                             sh_link=".dynstr", sh_info=1, sh_addralign=8, sh_entsize=w.symsize))
        sections.append(dict(name=".dynstr", sh_type=SHT_STRTAB, sh_flags=2, sh_addr=base + 0x500, blob="dynstr", size=None,
                             sh_link=0, sh_info=0, sh_addralign=1, sh_entsize=0))
        use_rela = r.random() < 0.5
        rels = []
        got = base + 0x3000
        for i in range(r.randint(0, 6)):
            sym = r.randrange(len(dsyms))
            ro = got + 8 * i if r.random() < 0.9 else 0
            e = dict(r_offset=ro, r_info=w.r_info(sym, r.choice([7, 6, 1])), r_addend=r.choice([0, 4, (1 << (64 if x64 else 32)) - 4]))
            rels.append(w.rela(e) if use_rela else w.rel(e))
        blobs.append(("relplt", b"".join(rels), 8))
        sections.append(dict(name=".rela.plt" if use_rela else ".rel.plt", sh_type=SHT_RELA if use_rela else SHT_REL,
                             sh_flags=2, sh_addr=base + 0x600, blob="relplt", size=None, sh_link=".dynsym", sh_info=0,
                             sh_addralign=8, sh_entsize=(3 if use_rela else 2) * w.asz))
        dyns = [dict(d_tag=1, d_un=dynstr.idx[b"libc.so.6"]), dict(d_tag=5, d_un=base + 0x500), dict(d_tag=6, d_un=base + 0x300),
                dict(d_tag=r.choice([24, 30, 0x6ffffffb]), d_un=r.choice([0, 1, 8])), dict(d_tag=0, d_un=0)]
        blobs.append(("dynamic", b"".join(w.dyn(d) for d in dyns), 8))
        sections.append(dict(name=".dynamic", sh_type=SHT_DYNAMIC, sh_flags=3, sh_addr=base + 0x2000, blob="dynamic", size=None,
                             sh_link=".dynstr", sh_info=0, sh_addralign=8, sh_entsize=2 * w.asz))
    sections.append(dict(name=".shstrtab", sh_type=SHT_STRTAB, sh_flags=0, sh_addr=0, blob="shstrtab", size=None,
                         sh_link=0, sh_info=0, sh_addralign=1, sh_entsize=0))
    # order of the section header table (NULL stays first)
    rest = sections[1:]
    r.shuffle(rest)
    sections = [sections[0]] + rest
    for s in sections:
        s["sh_name"] = shstr.add(s["name"])
    blobs.append(("shstrtab", bytes(shstr.b), 1))
    # program headers
    phs = []
    nph = 0 if "noph" in quirks else r.randint(1, 6)
    kinds = []
    if dyn:
        kinds += [3, 2]
    kinds += [1] * r.randint(1, 3) + [r.choice([4, 6, 7, 0x6474e550, 0x6474e551, 0x6474e552, 0])]
    if "unknown_pt" in quirks:
        kinds.insert(r.randrange(len(kinds) + 1), r.choice(UNKNOWN_PT))
    r.shuffle(kinds)
    kinds = kinds[:nph]
    # layout of the file
    phentsize = w.phsize + (8 if "bigent" in quirks and r.random() < 0.5 else 0)
    shentsize = w.shsize + (8 if "bigent" in quirks and r.random() < 0.5 else 0)
    nsh = 0 if "nosh" in quirks else len(sections)
    al = 8 if x64 else 4
    items = [("PH", len(kinds) * phentsize, al), ("SH", nsh * shentsize, al)] + [(k, len(b), a) for (k, b, a) in blobs]
    r.shuffle(items)
    off = w.ehsize
    pos = {}
    for k, n, a in items:
        gap = r.choice([0, 0, 0, 8, 24])
        off += gap
        if k in ("PH", "SH") and "unaligned" in quirks and r.random() < 0.5:
            off += (-off) % al + r.choice([1, 2, 4] if x64 else [1, 2, 3])
        else:
            a2 = max(a, al) if k in ("PH", "SH", "symtab", "dynsym", "relplt", "dynamic") else a
            off += (-off) % a2
        pos[k] = off
        off += n
    total = off
    blobmap = {k: b for (k, b, a) in blobs}
    # finalise sections
    nameidx = {}
    for i, s in enumerate(sections):
        nameidx.setdefault(s["name"], i)
    for s in sections:
        if s["blob"] is not None:
            s["sh_offset"] = pos[s["blob"]]
            s["sh_size"] = len(blobmap[s["blob"]])
        else:
            s["sh_offset"] = r.choice([0, total]) if s["sh_type"] == SHT_NOBITS else 0
            s["sh_size"] = s["size"] or 0
        if isinstance(s["sh_link"], str):
            s["sh_link"] = nameidx.get(s["sh_link"], 0)
    # segments
    loadable = [s for s in sections if s["sh_type"] in (SHT_PROGBITS, SHT_NOTE, SHT_INIT_ARRAY) and s["blob"] and s["sh_addr"]]
    for k in kinds:
        p = dict(p_type=k, p_flags=r.choice([4, 5, 6, 7]), p_offset=0, p_vaddr=0, p_paddr=0, p_filesz=0, p_memsz=0,
                 p_align=r.choice([1, 4, 0x1000, 0x200000]))
        if k == 1 and loadable:
            s = r.choice(loadable)
            p.update(p_offset=s["sh_offset"], p_vaddr=s["sh_addr"], p_paddr=s["sh_addr"], p_filesz=s["sh_size"],
                     p_memsz=s["sh_size"] + r.choice([0, 0, 16, 0x1000]))
        elif k == 1:
            p.update(p_offset=0, p_vaddr=base, p_paddr=base, p_filesz=min(total, 0x100), p_memsz=0x100)
        elif k == 3 and interp:
            p.update(p_offset=pos["interp"], p_vaddr=base + 0x200, p_paddr=base + 0x200, p_filesz=len(interp), p_memsz=len(interp))
        elif k == 2 and dyn:
            p.update(p_offset=pos["dynamic"], p_vaddr=base + 0x2000, p_paddr=base + 0x2000, p_filesz=len(blobmap["dynamic"]),
                     p_memsz=len(blobmap["dynamic"]))
        elif k == 6:
            p.update(p_offset=pos["PH"], p_vaddr=base + pos["PH"], p_paddr=base + pos["PH"], p_filesz=len(kinds) * phentsize,
                     p_memsz=len(kinds) * phentsize)
        phs.append(p)
    shstrndx = [i for i, s in enumerate(sections) if s["name"] == ".shstrtab"][0]
    if "nostrndx" in quirks or nsh == 0:
        shstrndx = 0
    entry = (r.choice(loadable)["sh_addr"] + 1) if loadable and r.random() < 0.8 else r.randrange(maxaddr)
    e = dict(e_type=r.choice([2, 3, 1]), e_machine=r.choice([3, 62, 40, 8, 2, 243, 183, 20]), e_version=1, e_entry=entry,
             e_phoff=pos["PH"] if kinds else 0, e_shoff=pos["SH"] if nsh else 0, e_flags=r.choice([0, 0x5000200, 4]),
             e_ehsize=w.ehsize, e_phentsize=phentsize, e_phnum=len(kinds), e_shentsize=shentsize, e_shnum=nsh,
             e_shstrndx=shstrndx)
    out = bytearray(total)
    out[0:w.ehsize] = w.ehdr(e)
    for k, b in blobmap.items():
        out[pos[k]:pos[k] + len(b)] = b
    for i, p in enumerate(phs):
        o = pos["PH"] + i * phentsize
        out[o:o + w.phsize] = w.phdr(p)
    if nsh:
        for i, s in enumerate(sections):
            o = pos["SH"] + i * shentsize
            out[o:o + w.shsize] = w.shdr(s)
    # interesting addresses
    addrs = [entry, 0, base]
    for s in sections:
        if s["sh_addr"] or s["sh_size"]:
            addrs += [s["sh_addr"], s["sh_addr"] + max(s["sh_size"], 1) - 1, s["sh_addr"] + s["sh_size"]]
    for p in phs:
        addrs += [p["p_vaddr"], p["p_vaddr"] + p["p_filesz"], p["p_vaddr"] + max(p["p_filesz"], 1) - 1]
    addrs = sorted(set(a for a in addrs if a >= 0))[:40]
    meta = {"x64": x64, "be": be, "quirks": sorted(quirks), "nph": len(kinds), "nsh": nsh, "nsyms": len(syms) if have_symtab else 0,
            "dyn": dyn, "addrs": addrs, "phoff": e["e_phoff"], "shoff": e["e_shoff"]}
    return bytes(out), meta


QUIRKS = ["unaligned", "bigent", "unknown_pt", "unknown_sht", "nosh", "noph", "nostrndx", "dupaddr", "utf8"]


def pick_quirks(r):
    k = r.random()
    if k < 0.45:
        return ()
    if k < 0.85:
        return (r.choice(QUIRKS),)
    return tuple(sorted(set(r.sample(QUIRKS, 2))))


# ---------------------------------------------------------------------------------------
# Intel HEX / S-record
# ---------------------------------------------------------------------------------------

def hex_cksum(bs):
    return (-sum(bs)) & 0xff


def hex_line(count, address, code, data, ck=None, upper=True):
    body = bytes([count & 0xff, (address >> 8) & 0xff, address & 0xff, code & 0xff]) + bytes(data)
    if ck is None:
        ck = hex_cksum(body)
    s = (body + bytes([ck])).hex()
    return b":" + (s.upper() if upper else s).encode()


def gen_hex_records(r, mix=False):
    """list of (count,address,code,data) of a well-formed stream"""
    recs = []
    kind = r.choice(["plain", "seg", "lin"])
    n = r.randint(1, 8)
    for i in range(n):
        if kind == "seg" and r.random() < 0.4:
            v = r.choice([0, 0x1000, r.getrandbits(16)])
            recs.append((2, 0, 2, bytes([v >> 8, v & 0xff])))
        if kind == "lin" and r.random() < 0.4:
            v = r.choice([0, 0x0800, r.getrandbits(16)])
            recs.append((2, 0, 4, bytes([v >> 8, v & 0xff])))
        if mix and r.random() < 0.3:
            v = r.getrandbits(16)
            recs.append((2, 0, r.choice([2, 4]), bytes([v >> 8, v & 0xff])))
        ln = r.choice([0, 1, 2, 16, 16, 32, 255])
        recs.append((ln, r.getrandbits(16), 0, bytes(r.getrandbits(8) for _ in range(ln))))
    if r.random() < 0.4:
        recs.append((4, 0, r.choice([3, 5]), bytes(r.getrandbits(8) for _ in range(4))))
    if r.random() < 0.9:
        recs.append((0, 0, 1, b""))
    return recs


def hex_stream(r, recs, upper=None):
    eol = r.choice([b"\n", b"\r\n", b"\n"])
    lines = []
    for (c, a, t, d) in recs:
        up = r.random() < 0.8 if upper is None else upper
        l = hex_line(c, a, t, d, upper=up)
        if r.random() < 0.1:
            l = r.choice([b" ", b"\t"]) + l
        if r.random() < 0.1:
            l = l + b" "
        lines.append(l)
    out = eol.join(lines)
    if r.random() < 0.8:
        out += eol
    return out


def srec_cksum(bs):
    return (sum(bs) & 0xff) ^ 0xff


SREC_ADDR = {0: 2, 1: 2, 2: 3, 3: 4, 5: 2, 6: 3, 7: 4, 8: 3, 9: 2}


def srec_line(t, address, data, ck=None, count=None, upper=True, abytes=None):
    ab = SREC_ADDR[t] if abytes is None else abytes
    if count is None:
        count = ab + len(data) + 1
    body = bytes([count & 0xff]) + int(address).to_bytes(ab, "big") + bytes(data)
    if ck is None:
        ck = srec_cksum(body)
    s = (body + bytes([ck])).hex()
    return b"S%d" % t + (s.upper() if upper else s).encode()


def gen_srec_records(r):
    recs = []
    if r.random() < 0.8:
        recs.append((0, 0, bytes(r.choice(b"HDRabc xyz") for _ in range(r.randint(0, 12)))))
    dt = r.choice([1, 2, 3])
    n = r.randint(0, 8)
    for i in range(n):
        ln = r.choice([0, 1, 4, 16, 32, 250 - SREC_ADDR[dt]])
        recs.append((dt, r.getrandbits(8 * SREC_ADDR[dt]), bytes(r.getrandbits(8) for _ in range(ln))))
    if r.random() < 0.5:
        ct = 5 if n < 65536 else 6
        recs.append((ct, n, b""))
    if r.random() < 0.8:
        st = {1: 9, 2: 8, 3: 7}[dt]
        recs.append((st, r.choice([0, r.getrandbits(8 * SREC_ADDR[st])]), b""))
    return recs


def srec_stream(r, recs):
    eol = r.choice([b"\n", b"\r\n", b"\n"])
    lines = []
    for (t, a, d) in recs:
        l = srec_line(t, a, d, upper=r.random() < 0.8)
        if r.random() < 0.1:
            l = b" " + l
        lines.append(l)
        if r.random() < 0.08:
            lines.append(r.choice([b"", b"  "]))
    out = eol.join(lines)
    if r.random() < 0.8:
        out += eol
    return out


def corrupt_line(r, line, fmt):
    """returns (kind, newline). kinds: cksum (only the checksum byte differs), len, char, trunc, tail"""
    k = r.choice(["cksum", "cksum", "cksum", "len", "char", "trunc", "tail", "sign"])
    l = bytearray(line.strip())
    if k == "cksum":
        old = int(bytes(l[-2:]), 16)
        new = r.choice([x for x in range(256) if x != old])
        l[-2:] = b"%02X" % new
    elif k == "len":
        p = 1 if fmt == "hex" else 2
        old = int(bytes(l[p:p + 2]), 16)
        new = r.choice([x for x in range(256) if x != old])
        l[p:p + 2] = b"%02X" % new
    elif k == "char":
        p = r.randrange(len(l))
        l[p] = r.choice(b"GZ_x+- .:S\x00\xff")
    elif k == "trunc":
        l = l[:r.randrange(len(l))]
    elif k == "tail":
        l += r.choice([b"0", b"00", b"Z", b"\x00"])
    elif k == "sign":
        l[-2:] = r.choice([b"+", b"-", b" ", b"_"]) + l[-1:]
    return k, bytes(l)


# ---------------------------------------------------------------------------------------
# faults for C20
# ---------------------------------------------------------------------------------------

def corrupt_bytes(r, b, region=0x400, n=None):
    bb = bytearray(b)
    if not bb:
        return bytes(bb)
    n = n or r.choice([1, 1, 2, 4, 8])
    for _ in range(n):
        pos = r.randrange(min(len(bb), region)) if r.random() < 0.7 else r.randrange(len(bb))
        bb[pos] = r.choice([0, 0xff, r.getrandbits(8), bb[pos] ^ (1 << r.randrange(8))])
    return bytes(bb)


# ---------------------------------------------------------------------------------------
# PE / Mach-O header sets (header level only)
# ---------------------------------------------------------------------------------------

def synth_pe(r):
    """DOS header, NT headers, optional header (PE32 / PE32+) with 16 empty data directories and
    a section table; raw data of the sections follows at FileAlignment."""
    plus = r.random() < 0.5
    lfanew = r.choice([64, 0x80, 0xe8, 0x100])
    nsec = r.randint(0, 5)
    falign, salign = 0x200, 0x1000
    base = r.choice([0x400000, 0x10000000, 0x140000000 if plus else 0x1000000])
    dos = b"MZ" + bytes(r.getrandbits(8) for _ in range(58)) + struct.pack("<I", lfanew)
    stub = bytes(r.getrandbits(8) for _ in range(lfanew - 64))
    ndirs = r.choice([16, 16, 16, 10, 2])
    optpad = r.choice([0, 0, 8, 16])              # SizeOfOptionalHeader may exceed the structure: the section table follows it
    optsize = (112 if plus else 96) + ndirs * 8 + optpad
    hdrs_end = lfanew + 24 + optsize + 40 * nsec
    sizeofheaders = (hdrs_end + falign - 1) // falign * falign
    secs = []
    raw = sizeofheaders
    rva = salign
    for i in range(nsec):
        vs = r.choice([1, 0x10, 0x234, 0x1000, 0x1800])
        rs = (min(vs, 0x400) + falign - 1) // falign * falign if r.random() < 0.85 else 0
        name = r.choice([b".text", b".data", b".rdata", b".rsrc", b".reloc", b"UPX0", b".bss"]).ljust(8, b"\0")
        secs.append(dict(Name=name, VirtualSize=vs, RVA=rva, SizeOfRawData=rs, PointerToRawData=raw if rs else 0,
                         PointerToRelocations=0, PointerToLineNumbers=0, NumberOfRelocations=0, NumberOfLineNumbers=0,
                         Characteristics=r.choice([0x60000020, 0xC0000040, 0x40000040, 0xC0000080])))
        raw += rs
        rva += (vs + salign - 1) // salign * salign
    entry = (secs[0]["RVA"] + r.randrange(secs[0]["VirtualSize"])) if secs else 0
    nt = dict(Signature=0x4550, Machine=0x8664 if plus else 0x14c, NumberOfSections=nsec, TimeDateStamp=r.getrandbits(32),
              PointerToSymbolTable=0, NumberOfSymbols=0, SizeOfOptionalHeader=optsize, Characteristics=r.choice([0x102, 0x22, 0x2102]))
    coffhdr = struct.pack("<IHHIIIHH", nt["Signature"], nt["Machine"], nt["NumberOfSections"], nt["TimeDateStamp"],
                          nt["PointerToSymbolTable"], nt["NumberOfSymbols"], nt["SizeOfOptionalHeader"], nt["Characteristics"])
    opt = dict(Magic=0x20b if plus else 0x10b, MajorLinkerVersion=14, MinorLinkerVersion=r.getrandbits(8), SizeOfCode=0x1000,
               SizeOfInitializedData=0x800, SizeOfUninitializedData=0, AddressOfEntryPoint=entry, BaseOfCode=salign,
               BaseOfData=0x2000, ImageBase=base, SectionAlignment=salign, FileAlignment=falign,
               MajorOperatingSystemVersion=6, MinorOperatingSystemVersion=0, MajorImageVersion=0, MinorImageVersion=0,
               MajorSubsystemVersion=6, MinorSubsystemVersion=0, Win32VersionValue=0, SizeOfImage=rva, SizeOfHeaders=sizeofheaders,
               CheckSum=r.getrandbits(32), Subsystem=r.choice([2, 3]), DllCharacteristics=r.choice([0x8160, 0x140, 0]),
               SizeOfStackReserve=0x100000, SizeOfStackCommit=0x1000, SizeOfHeapReserve=0x100000, SizeOfHeapCommit=0x1000,
               LoaderFlags=0, NumberOfRvaAndSizes=ndirs)
    if plus:
        del opt["BaseOfData"]
        o = struct.pack("<HBBIIIII", opt["Magic"], opt["MajorLinkerVersion"], opt["MinorLinkerVersion"], opt["SizeOfCode"],
                        opt["SizeOfInitializedData"], opt["SizeOfUninitializedData"], opt["AddressOfEntryPoint"], opt["BaseOfCode"])
        o += struct.pack("<QIIHHHHHHIIIIHHQQQQII", opt["ImageBase"], opt["SectionAlignment"], opt["FileAlignment"],
                         opt["MajorOperatingSystemVersion"], opt["MinorOperatingSystemVersion"], opt["MajorImageVersion"],
                         opt["MinorImageVersion"], opt["MajorSubsystemVersion"], opt["MinorSubsystemVersion"], opt["Win32VersionValue"],
                         opt["SizeOfImage"], opt["SizeOfHeaders"], opt["CheckSum"], opt["Subsystem"], opt["DllCharacteristics"],
                         opt["SizeOfStackReserve"], opt["SizeOfStackCommit"], opt["SizeOfHeapReserve"], opt["SizeOfHeapCommit"],
                         opt["LoaderFlags"], opt["NumberOfRvaAndSizes"])
    else:
        o = struct.pack("<HBBIIIIII", opt["Magic"], opt["MajorLinkerVersion"], opt["MinorLinkerVersion"], opt["SizeOfCode"],
                        opt["SizeOfInitializedData"], opt["SizeOfUninitializedData"], opt["AddressOfEntryPoint"], opt["BaseOfCode"],
                        opt["BaseOfData"])
        o += struct.pack("<IIIHHHHHHIIIIHHIIIIII", opt["ImageBase"], opt["SectionAlignment"], opt["FileAlignment"],
                         opt["MajorOperatingSystemVersion"], opt["MinorOperatingSystemVersion"], opt["MajorImageVersion"],
                         opt["MinorImageVersion"], opt["MajorSubsystemVersion"], opt["MinorSubsystemVersion"], opt["Win32VersionValue"],
                         opt["SizeOfImage"], opt["SizeOfHeaders"], opt["CheckSum"], opt["Subsystem"], opt["DllCharacteristics"],
                         opt["SizeOfStackReserve"], opt["SizeOfStackCommit"], opt["SizeOfHeapReserve"], opt["SizeOfHeapCommit"],
                         opt["LoaderFlags"], opt["NumberOfRvaAndSizes"])
    o += b"".join(struct.pack("<II", 0, 0) for _ in range(ndirs)) + bytes(r.getrandbits(8) for _ in range(optpad))
    st = b"".join(struct.pack("<8sIIIIIIHHI", s["Name"], s["VirtualSize"], s["RVA"], s["SizeOfRawData"], s["PointerToRawData"],
                              s["PointerToRelocations"], s["PointerToLineNumbers"], s["NumberOfRelocations"],
                              s["NumberOfLineNumbers"], s["Characteristics"]) for s in secs)
    out = bytearray(dos + stub + coffhdr + o + st)
    out += b"\0" * (sizeofheaders - len(out))
    for s in secs:
        out += bytes(r.getrandbits(8) for _ in range(s["SizeOfRawData"]))
    return bytes(out), {"plus": plus, "nsec": nsec, "lfanew": lfanew, "ndirs": ndirs, "optpad": optpad}


def synth_macho(r):
    """mach_header(_64) + LC_SEGMENT(_64) commands with sections + an LC_UUID command."""
    x64 = r.random() < 0.6
    nseg = r.randint(1, 4)
    cmds = []
    fileoff = 0
    vm = 0x100000000 if x64 else 0x1000
    for i in range(nseg):
        nsects = r.randint(0, 3)
        segname = [b"__PAGEZERO", b"__TEXT", b"__DATA", b"__LINKEDIT"][i].ljust(16, b"\0")
        vmsize = 0x1000 * r.randint(1, 4)
        filesize = r.choice([0, 0x1000, vmsize])
        secs = b""
        for k in range(nsects):
            sn = r.choice([b"__text", b"__stubs", b"__data", b"__cstring", b"__bss"]).ljust(16, b"\0")
            if x64:
                secs += struct.pack("<16s16sQQIIIIIIII", sn, segname, vm + 0x100 * k, 0x80, fileoff + 0x100 * k, r.choice([0, 2, 4]),
                                    0, 0, r.choice([0x80000400, 0, 1, 8]), 0, 0, 0)
            else:
                secs += struct.pack("<16s16sIIIIIIIII", sn, segname, vm + 0x100 * k, 0x80, fileoff + 0x100 * k, r.choice([0, 2, 4]),
                                    0, 0, r.choice([0x80000400, 0, 1, 8]), 0, 0)
        if x64:
            body = struct.pack("<16sQQQQiiII", segname, vm, vmsize, fileoff, filesize, 7, r.choice([1, 3, 5]), nsects, 0)
            cmd = struct.pack("<II", 0x19, 8 + len(body) + len(secs)) + body + secs
        else:
            body = struct.pack("<16sIIIIiiII", segname, vm, vmsize, fileoff, filesize, 7, r.choice([1, 3, 5]), nsects, 0)
            cmd = struct.pack("<II", 0x1, 8 + len(body) + len(secs)) + body + secs
        cmds.append(cmd)
        vm += vmsize
        fileoff += filesize
    cmds.append(struct.pack("<II16s", 0x1b, 24, bytes(r.getrandbits(8) for _ in range(16))))
    r.shuffle(cmds)
    lc = b"".join(cmds)
    if x64:
        hdr = struct.pack("<IiiIIIII", 0xFEEDFACF, 0x01000007, 3, r.choice([2, 6, 1]), len(cmds), len(lc), r.choice([0x200085, 0x85, 0]), 0)
    else:
        hdr = struct.pack("<IiiIIII", 0xFEEDFACE, r.choice([7, 12]), 3, r.choice([2, 6, 1]), len(cmds), len(lc), r.choice([0x85, 0]))
    out = hdr + lc
    out += b"\0" * (max(fileoff, len(out)) + 0x100 - len(out))
    return out, {"x64": x64, "ncmds": len(cmds)}


# ---------------------------------------------------------------------------------------
# structure-aware corruptions (C20): walk the real tables of a file with plain `struct` reads and
# corrupt ONE field at a time with boundary values
# ---------------------------------------------------------------------------------------

def _u(data, off, n):
    if off < 0 or off + n > len(data):
        raise IndexError(off)
    return int.from_bytes(data[off:off + n], "little")


def walk_pe(data):
    """[(label, offset, size, kind)] of header / directory / table fields of a PE image"""
    F = []
    try:
        lf = _u(data, 60, 4)
        if data[:2] != b"MZ" or _u(data, lf, 4) != 0x4550:
            return F
        F.append(("dos", 60, 4, "field"))
        o = lf + 4
        for sz in (2, 2, 4, 4, 4, 2, 2):
            F.append(("nt", o, sz, "field")); o += sz
        nsec, optsz = _u(data, lf + 6, 2), _u(data, lf + 20, 2)
        opt = lf + 24
        plus = _u(data, opt, 2) == 0x20b
        sizes = [2, 1, 1, 4, 4, 4, 4, 4] + ([8] if plus else [4, 4]) + [4, 4, 2, 2, 2, 2, 2, 2, 4, 4, 4, 4, 2, 2] + \
                ([8, 8, 8, 8] if plus else [4, 4, 4, 4]) + [4, 4]
        o = opt
        for sz in sizes:
            F.append(("opt", o, sz, "field")); o += sz
        ndirs = min(_u(data, o - 4, 4), 16)
        dirs = []
        for i in range(ndirs):
            dirs.append((_u(data, o, 4), _u(data, o + 4, 4)))
            F.append(("dirs", o, 4, "rva")); F.append(("dirs", o + 4, 4, "field")); o += 8
        st = opt + optsz
        secs = []
        for i in range(nsec):
            b = st + 40 * i
            vs, rva, rs, pr = _u(data, b + 8, 4), _u(data, b + 12, 4), _u(data, b + 16, 4), _u(data, b + 20, 4)
            secs.append((rva, vs, rs, pr))
            F.append(("sect", b, 8, "name"))
            for k, sz in enumerate((4, 4, 4, 4, 4, 4, 2, 2, 4)):
                off = b + 8 + sum((4, 4, 4, 4, 4, 4, 2, 2, 4)[:k])
                F.append(("sect", off, sz, "rva" if k in (1, 3) else "field"))

        soh = _u(data, opt + 60, 4)          # SizeOfHeaders: RVAs below it are file offsets

        def r2o(rva):
            for (a, vs, rs, pr) in secs:
                if a <= rva < a + max(vs, rs) and rva - a < rs:
                    return pr + rva - a
            if 0 < rva < min(soh, len(data)):
                return rva
            return None
        esz = 8 if plus else 4
        # imports
        if len(dirs) > 1 and dirs[1][0]:
            d = r2o(dirs[1][0])
            n = 0
            while d is not None and n < 64 and d + 20 <= len(data) and any(data[d:d + 20]):
                for k in range(5):
                    F.append(("impdesc", d + 4 * k, 4, "rva" if k in (0, 3, 4) else "field"))
                for which in (0, 4):
                    t = r2o(_u(data, d + 4 * which, 4)) if _u(data, d + 4 * which, 4) else None
                    m = 0
                    while t is not None and m < 256 and t + esz <= len(data) and _u(data, t, esz):
                        F.append(("thunk", t, esz, "rva"))
                        v = _u(data, t, esz)
                        if not (v >> (8 * esz - 1)):
                            h = r2o(v & 0x7fffffff)
                            if h is not None and which == 0:
                                F.append(("hintname", h, 2, "field"))
                                F.append(("hintname", h + 2, 1, "byte"))
                        t += esz; m += 1
                    if t is not None and t + esz <= len(data):
                        F.append(("thunk", t, esz, "rva"))          # the terminating null entry
                nm = r2o(_u(data, d + 12, 4))
                if nm is not None:
                    F.append(("dllname", nm, 1, "byte"))
                d += 20; n += 1
        # exports
        if dirs and dirs[0][0] and r2o(dirs[0][0]) is not None:
            d = r2o(dirs[0][0]); o2 = d
            for k, sz in enumerate((4, 4, 2, 2, 4, 4, 4, 4, 4, 4, 4)):
                F.append(("export", o2, sz, "rva" if k in (4, 8, 9, 10) else "field")); o2 += sz
        # base relocations
        if len(dirs) > 5 and dirs[5][0] and r2o(dirs[5][0]) is not None:
            d = r2o(dirs[5][0]); end = d + dirs[5][1]; n = 0
            while d + 8 <= min(end, len(data)) and n < 16:
                F.append(("reloc", d, 4, "rva")); F.append(("reloc", d + 4, 4, "field"))
                bs = _u(data, d + 4, 4)
                for k in range(min(4, max(0, (bs - 8) // 2))):
                    F.append(("reloc", d + 8 + 2 * k, 2, "field"))
                if bs < 8:
                    break
                d += bs; n += 1
        # TLS, load config and the other directories: leading words of what they point at
        for i, lab, nw in ((9, "tls", 6), (10, "loadcfg", 20), (2, "rsrc", 8), (6, "debug", 7), (11, "boundimp", 4), (13, "delayimp", 8)):
            if len(dirs) > i and dirs[i][0] and r2o(dirs[i][0]) is not None:
                d = r2o(dirs[i][0])
                w = esz if lab == "tls" else 4
                for k in range(nw):
                    ww = 4 if (lab == "tls" and k >= 4) else w
                    F.append((lab, d, ww, "rva")); d += ww
    except (IndexError, struct.error):
        pass
    return [f for f in F if 0 <= f[1] and f[1] + f[2] <= len(data)]


def walk_macho(data):
    F = []
    try:
        magic = _u(data, 0, 4)
        if magic not in (0xFEEDFACE, 0xFEEDFACF):
            return F
        q = magic == 0xFEEDFACF
        hl = 32 if q else 28
        for k in range(hl // 4):
            F.append(("hdr", 4 * k, 4, "field"))
        ncmds, off = _u(data, 16, 4), hl

        def stream(label, o, n, cap=768):
            for k in range(min(n, cap)):
                F.append((label, o + k, 1, "opcode"))
        for i in range(min(ncmds, 128)):
            cmd, size = _u(data, off, 4), _u(data, off + 4, 4)
            for k in range(min(size, 96) // 4):
                F.append(("lc", off + 4 * k, 4, "field"))
            w = lambda k: _u(data, off + 4 * k, 4)
            c = cmd & 0x7fffffff
            if c == 0x22 and size >= 48:
                for lab, k in (("rebase", 2), ("bind", 4), ("weak_bind", 6), ("lazy_bind", 8), ("export", 10)):
                    stream(lab, w(k), w(k + 1))
            elif c == 0x2 and size >= 24:
                symoff, nsyms, stroff, strsize = w(2), w(3), w(4), w(5)
                es = 16 if q else 12
                for j in list(range(min(nsyms, 48))) + list(range(max(48, nsyms - 8), nsyms)):
                    b = symoff + es * j
                    F.append(("nlist", b, 4, "field")); F.append(("nlist", b + 4, 1, "byte")); F.append(("nlist", b + 5, 1, "byte"))
                    F.append(("nlist", b + 6, 2, "field")); F.append(("nlist", b + 8, es - 8, "field"))
                for k in range(0, min(strsize, 4096), 37):
                    F.append(("strtab", stroff + k, 1, "byte"))
                if strsize:
                    F.append(("strtab", stroff + strsize - 1, 1, "byte"))
            elif c == 0xb and size >= 80:
                ioff, n = w(14), w(15)
                for j in range(min(n, 64)):
                    F.append(("indirect", ioff + 4 * j, 4, "field"))
            elif c in (0x26, 0x29, 0x1d, 0x1e, 0x2b) and size >= 16:
                stream("linkedit%x" % c, w(2), w(3), cap=160)
            if size < 8:
                break
            off += size
    except (IndexError, struct.error):
        pass
    return [f for f in F if 0 <= f[1] and f[1] + f[2] <= len(data)]


def walk_elf(data):
    F = []
    try:
        if data[:4] != b"\x7fELF":
            return F
        x64, be = data[4] == 2, data[5] == 2
        o = ">" if be else "<"
        A = 8 if x64 else 4
        def u(off, n):
            if off < 0 or off + n > len(data):
                raise IndexError(off)
            return int.from_bytes(data[off:off + n], "big" if be else "little")
        for k in range(4, 9):
            F.append(("ident", k, 1, "byte"))
        off = 16
        for sz in (2, 2, 4, A, A, A, 4, 2, 2, 2, 2, 2, 2):
            F.append(("ehdr", off, sz, "field")); off += sz
        base = 24
        phoff, shoff = u(base + A, A), u(base + 2 * A, A)
        e = base + 3 * A + 4
        phes, phn, shes, shn = u(e + 2, 2), u(e + 4, 2), u(e + 6, 2), u(e + 8, 2)
        ph = (4, 4, 8, 8, 8, 8, 8, 8) if x64 else (4,) * 8
        for i in range(min(phn, 32) if phoff else 0):
            off = phoff + i * phes
            for sz in ph:
                F.append(("phdr", off, sz, "field")); off += sz
        sh = (4, 4, A, A, A, A, 4, 4, A, A)
        for i in range(min(shn, 64) if shoff else 0):
            b = shoff + i * shes
            off = b
            for sz in sh:
                F.append(("shdr", off, sz, "field")); off += sz
            ty = u(b + 4, 4)
            so, ss, es = u(b + 8 + 2 * A, A), u(b + 8 + 3 * A, A), u(b + 16 + 5 * A, A)
            if ty in (2, 11) and es:
                lay = (4, 1, 1, 2, 8, 8) if x64 else (4, 4, 4, 1, 1, 2)
                lab = "sym" if ty == 2 else "dynsym"
            elif ty in (4, 9) and es:
                lay = (A,) * (3 if ty == 4 else 2); lab = "rel"
            elif ty == 6 and es:
                lay = (A, A); lab = "dyn"
            elif ty == 3:
                for k in range(0, min(ss, 2048), 29):
                    F.append(("strtab", so + k, 1, "byte"))
                if ss:
                    F.append(("strtab", so + ss - 1, 1, "byte"))
                continue
            else:
                continue
            n = ss // es
            for j in list(range(min(n, 40))) + list(range(max(40, n - 4), n)):
                off = so + j * es
                for sz in lay:
                    F.append((lab, off, sz, "byte" if sz == 1 else "field")); off += sz
    except (IndexError, struct.error):
        pass
    return [f for f in F if 0 <= f[1] and f[1] + f[2] <= len(data)]


def boundary_values(data, off, size, kind, be=False):
    """the values one field is set to (all different from the current one)"""
    order = "big" if be else "little"
    old = int.from_bytes(data[off:off + size], order)
    top = (1 << (8 * size)) - 1
    if kind == "opcode":
        vals = [hn | (old & 0x0f) for hn in range(0, 0x100, 0x10)] + [0x00, 0xff, 0x80, 0x7f]
    elif kind == "byte":
        vals = [0, 0xff, 0x80, 0x7f, old ^ 1, old ^ 0x10]
    elif kind == "name":
        vals = [0, top, int.from_bytes(b"\xff\xfe/4\0\0\0\0"[:size], order)]
    else:
        vals = [0, 1, top, top >> 1, (top >> 1) + 1, old + 1, old - 1, len(data), len(data) - 1, old ^ (1 << (8 * size - 1))]
        if size >= 4:
            vals += [0x7fff0000, 0x80000000, 0xffff, 0x10000, 0xfffffff0, old + 0x1000, 0x7fffffff00000000 & top]
        if size == 2:
            vals += [0x7fff, 0xfff1]
    out = []
    for v in vals:
        v &= top
        if v != old and v not in out:
            out.append(v)
    return out


def apply_field(data, off, size, value, be=False):
    b = bytearray(data)
    b[off:off + size] = int(value).to_bytes(size, "big" if be else "little")
    return bytes(b)


def structure_corruptions(r, data, fmt, quota=None):
    """yield (label, description, mutated bytes). quota=None: every field × every boundary value;
    quota=k: per label, k seeded fields, the boundary values dealt out in rotation."""
    walker = {"pe": walk_pe, "macho": walk_macho, "elf": walk_elf}[fmt]
    be = fmt == "elf" and data[5:6] == b"\x02"
    F = walker(data)
    bylabel = {}
    for f in F:
        bylabel.setdefault(f[0], []).append(f)
    for lab in sorted(bylabel):
        fs = bylabel[lab]
        q = quota
        if q is not None and fs[0][3] in ("opcode", "rva"):
            q *= 4          # opcode streams and RVA-valued fields are where one value out of many matters
        if q is not None and len(fs) > q:
            fs = [fs[i] for i in sorted(r.sample(range(len(fs)), q))]
        turn = r.randrange(64)
        for (l, off, size, kind) in fs:
            vals = boundary_values(data, off, size, kind, be)
            if not vals:
                continue
            if quota is not None:
                # rotate through the values so that each of them is used within a label
                vals = [vals[turn % len(vals)]]
                turn += 1
            for v in vals:
                yield lab, "%s@%#x/%d:=%#x" % (lab, off, size, v), apply_field(data, off, size, v, be)


def synth_pe_imports(r):
    """a small PE32 / PE32+ image with a real import table (descriptors, lookup tables, IAT, hint/name
    entries, dll names) in an .idata section, an export directory and a base relocation block."""
    plus = r.random() < 0.4
    esz = 8 if plus else 4
    falign, salign = 0x200, 0x1000
    base = 0x140000000 if plus else 0x400000
    lfanew = 0x80
    ndll = r.randint(1, 3)
    idata_rva = 0x2000
    blob = bytearray()
    def here():
        return idata_rva + len(blob)
    desc_off = 0
    blob += b"\0" * (20 * (ndll + 1))
    descs = []
    for d in range(ndll):
        nf = r.randint(1, 5)
        names = []
        for k in range(nf):
            if r.random() < 0.8:
                rv = here()
                blob += struct.pack("<H", r.getrandbits(10)) + r.choice([b"ExitProcess", b"GetLastError", b"malloc", b"puts", b"CreateFileW"]) + b"\0"
                if len(blob) % 2:
                    blob += b"\0"
                names.append(rv)
            else:
                names.append((1 << (8 * esz - 1)) | r.randint(1, 500))
        while len(blob) % esz:
            blob += b"\0"
        ilt = here()
        for v in names:
            blob += int(v).to_bytes(esz, "little")
        blob += b"\0" * esz
        iat = here()
        for v in names:
            blob += int(v).to_bytes(esz, "little")
        blob += b"\0" * esz
        nm = here()
        blob += r.choice([b"KERNEL32.dll", b"msvcrt.dll", b"USER32.dll"]) + b"\0"
        descs.append((ilt if r.random() < 0.85 else 0, r.getrandbits(32) if r.random() < 0.2 else 0, 0, nm, iat))
    for i, dsc in enumerate(descs):
        blob[20 * i:20 * i + 20] = struct.pack("<IIIII", *dsc)
    imp_size = 20 * (ndll + 1)
    # export directory
    while len(blob) % 4:
        blob += b"\0"
    exp_rva = here()
    ename = exp_rva + 40
    blob += struct.pack("<IIHHIIIIIII", 0, 0, 0, 0, ename, 1, 1, 1, ename + 8, ename + 12, ename + 16)
    blob += b"x.dll\0\0\0" + struct.pack("<I", 0x1000) + struct.pack("<I", ename + 18) + struct.pack("<H", 0) + b"f\0"
    exp_size = here() - exp_rva
    while len(blob) % 4:
        blob += b"\0"
    rel_rva = here()
    blob += struct.pack("<IIHHHH", 0x1000, 16, 0x3000, 0x3004, 0x3008, 0)
    rel_size = 16
    text = bytes(r.getrandbits(8) for _ in range(0x40))
    secs = [(b".text", 0x1000, text, 0x60000020), (b".idata", idata_rva, bytes(blob), 0xC0000040)]
    nsec = len(secs)
    optsize = (112 if plus else 96) + 16 * 8
    hdr_end = lfanew + 24 + optsize + 40 * nsec
    soh = (hdr_end + falign - 1) // falign * falign
    dirs = [(0, 0)] * 16
    dirs[0] = (exp_rva, exp_size)
    dirs[1] = (idata_rva, imp_size)
    dirs[5] = (rel_rva, rel_size)
    dos = b"MZ" + b"\0" * 58 + struct.pack("<I", lfanew)
    nt = struct.pack("<IHHIIIHH", 0x4550, 0x8664 if plus else 0x14c, nsec, 0, 0, 0, optsize, 0x102)
    if plus:
        o = struct.pack("<HBBIIIII", 0x20b, 14, 0, 0x200, 0x200, 0, 0x1000, 0x1000)
        o += struct.pack("<QIIHHHHHHIIIIHHQQQQII", base, salign, falign, 6, 0, 0, 0, 6, 0, 0, 0x4000, soh, 0, 3, 0x8160,
                         0x100000, 0x1000, 0x100000, 0x1000, 0, 16)
    else:
        o = struct.pack("<HBBIIIIII", 0x10b, 14, 0, 0x200, 0x200, 0, 0x1000, 0x1000, 0x2000)
        o += struct.pack("<IIIHHHHHHIIIIHHIIIIII", base, salign, falign, 6, 0, 0, 0, 6, 0, 0, 0x4000, soh, 0, 3, 0x8160,
                         0x100000, 0x1000, 0x100000, 0x1000, 0, 16)
    o += b"".join(struct.pack("<II", a, b) for a, b in dirs)
    st = b""
    raw = soh
    body = b""
    for (nm, rva, content, ch) in secs:
        rs = (len(content) + falign - 1) // falign * falign
        st += struct.pack("<8sIIIIIIHHI", nm.ljust(8, b"\0"), len(content), rva, rs, raw, 0, 0, 0, 0, ch)
        body += content.ljust(rs, b"\0")
        raw += rs
    out = (dos + b"\0" * (lfanew - 64) + nt + o + st).ljust(soh, b"\0") + body
    return out, {"plus": plus, "ndll": ndll, "imports": True}
