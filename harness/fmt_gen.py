"""
fmt_gen.py — structured generators for C14 / C20 (independent of amoco):
  * synthesised ELF images in all four class × byte-order combinations, with arbitrary numbers and
    positions of program headers, sections and symbols (written from the ELF specification with
    Python `struct`);
  * Intel-HEX and S-record streams (valid, and with corrupted checksums / lengths / characters);
  * truncations and byte corruptions of files.
"""
import struct

PT_NAMES = {0: "NULL", 1: "LOAD", 2: "DYNAMIC", 3: "INTERP", 4: "NOTE", 6: "PHDR", 7: "TLS",
            0x6474e550: "GNU_EH_FRAME", 0x6474e551: "GNU_STACK", 0x6474e552: "GNU_RELRO"}
UNKNOWN_PT = [0x6474e553, 0x70000003, 0x65a3dbe6, 9]           # GNU_PROPERTY, RISCV_ATTRIBUTES, OPENBSD_RANDOMIZE, undefined
UNKNOWN_SHT = [0x6ffffff5, 0x6fff4c00, 0x70000006, 0x14]        # GNU_ATTRIBUTES, LLVM_ODRTAB, MIPS_REGINFO, undefined

SHT_NULL, SHT_PROGBITS, SHT_SYMTAB, SHT_STRTAB, SHT_RELA, SHT_HASH, SHT_DYNAMIC, SHT_NOTE, SHT_NOBITS, SHT_REL = range(10)
SHT_DYNSYM = 11
SHT_INIT_ARRAY = 14


class W(object):
    """struct writer for one class / byte order"""

    def __init__(self, x64, be):
        self.x64, self.be = x64, be
        self.o = ">" if be else "<"
        self.A = "Q" if x64 else "I"
        self.asz = 8 if x64 else 4

    def ehdr(self, e):
        ident = b"\x7fELF" + bytes([2 if self.x64 else 1, 2 if self.be else 1, e.get("EI_VERSION", 1),
                                    e.get("EI_OSABI", 0), e.get("EI_ABIVERSION", 0)]) + b"\0" * 7
        A = self.A
        return ident + struct.pack(self.o + "HHI" + A + A + A + "IHHHHHH", e["e_type"], e["e_machine"], e["e_version"],
                                   e["e_entry"], e["e_phoff"], e["e_shoff"], e["e_flags"], e["e_ehsize"],
                                   e["e_phentsize"], e["e_phnum"], e["e_shentsize"], e["e_shnum"], e["e_shstrndx"])

    @property
    def ehsize(self):
        return 64 if self.x64 else 52

    @property
    def phsize(self):
        return 56 if self.x64 else 32

    @property
    def shsize(self):
        return 64 if self.x64 else 40

    @property
    def symsize(self):
        return 24 if self.x64 else 16

    def phdr(self, p):
        if self.x64:
            return struct.pack(self.o + "IIQQQQQQ", p["p_type"], p["p_flags"], p["p_offset"], p["p_vaddr"], p["p_paddr"],
                               p["p_filesz"], p["p_memsz"], p["p_align"])
        return struct.pack(self.o + "IIIIIIII", p["p_type"], p["p_offset"], p["p_vaddr"], p["p_paddr"],
                           p["p_filesz"], p["p_memsz"], p["p_flags"], p["p_align"])

    def shdr(self, s):
        A = self.A
        return struct.pack(self.o + "II" + A * 4 + "II" + A * 2, s["sh_name"], s["sh_type"], s["sh_flags"], s["sh_addr"],
                           s["sh_offset"], s["sh_size"], s["sh_link"], s["sh_info"], s["sh_addralign"], s["sh_entsize"])

    def sym(self, y):
        if self.x64:
            return struct.pack(self.o + "IBBHQQ", y["st_name"], y["st_info"], y["st_other"], y["st_shndx"], y["st_value"], y["st_size"])
        return struct.pack(self.o + "IIIBBH", y["st_name"], y["st_value"], y["st_size"], y["st_info"], y["st_other"], y["st_shndx"])

    def rel(self, r):
        return struct.pack(self.o + self.A * 2, r["r_offset"], r["r_info"])

    def rela(self, r):
        return struct.pack(self.o + self.A * 3, r["r_offset"], r["r_info"], r["r_addend"])

    def dyn(self, d):
        return struct.pack(self.o + self.A * 2, d["d_tag"], d["d_un"])

    def r_info(self, sym, typ):
        return (sym << 32 | typ) if self.x64 else (sym << 8 | (typ & 0xff))


class StrTab(object):
    def __init__(self):
        self.b = bytearray(b"\0")
        self.idx = {}

    def add(self, s):
        if isinstance(s, str):
            s = s.encode("utf-8")
        if s in self.idx:
            return self.idx[s]
        i = len(self.b)
        self.b += s + b"\0"
        self.idx[s] = i
        return i


WORDS = ["main", "_start", "foo", "bar", "init", "fini", "handler", "table", "buf", "counter", "x", "y", "cfg",
         "data_end", "__bss_start", "memcpy", "printf", "puts", "exit", "malloc", "naïve", "größe", "λ"]


def synth_elf(r, x64=None, be=None, quirks=()):
    """returns (bytes, meta). quirks ⊆ {"unaligned", "bigent", "unknown_pt", "unknown_sht", "nosh", "noph",
    "nostrndx", "dupaddr", "utf8"}"""
    x64 = r.random() < 0.5 if x64 is None else x64
    be = r.random() < 0.5 if be is None else be
    w = W(x64, be)
    maxaddr = (1 << 40) if x64 else (1 << 31)
    base = r.choice([0x400000, 0x8048000, 0x10000, 0, 0x100000000 if x64 else 0x20000000])
    dyn = r.random() < 0.5
    nprog = r.randint(0, 6)
    nsyms = r.choice([0, 1, 2, 5, 12, 40])
    shstr, strt, dynstr = StrTab(), StrTab(), StrTab()
    blobs = []   # (key, bytes, align)
    sections = [dict(name="", sh_type=0, sh_flags=0, sh_addr=0, blob=None, size=0, sh_link=0, sh_info=0, sh_addralign=0, sh_entsize=0)]
    # program sections
    addr = base + 0x1000
    progsecs = []
    for i in range(nprog):
        sz = r.choice([0, 1, 4, 16, 37, 256, 1000])
        nm = r.choice([".text", ".data", ".rodata", ".init", ".plt", ".got", ".sec%d" % i, ".text"])
        if "utf8" in quirks and r.random() < 0.4:
            nm = "." + r.choice(["naïve", "größe", "λx"])
        ty = r.choice([SHT_PROGBITS, SHT_PROGBITS, SHT_PROGBITS, SHT_NOBITS, SHT_NOTE, SHT_INIT_ARRAY])
        if "unknown_sht" in quirks and r.random() < 0.35:
            ty = r.choice(UNKNOWN_SHT)
        content = bytes(r.getrandbits(8) for _ in range(sz)) if ty != SHT_NOBITS else b""
        s = dict(name=nm, sh_type=ty, sh_flags=r.choice([2, 3, 6, 0]), sh_addr=addr if r.random() < 0.9 else 0,
                 blob=("sec%d" % i) if ty != SHT_NOBITS else None, size=sz, sh_link=0, sh_info=0,
                 sh_addralign=r.choice([1, 4, 16]), sh_entsize=0)
        if ty != SHT_NOBITS:
            blobs.append(("sec%d" % i, content, r.choice([1, 4, 16])))
        sections.append(s)
        progsecs.append(s)
        addr += sz + r.choice([0, 0, 3, 16, 0x1000])
    # symbols
    syms = [dict(st_name=0, st_info=0, st_other=0, st_shndx=0, st_value=0, st_size=0)]
    values = []
    for i in range(nsyms):
        nm = r.choice(WORDS) + (str(r.randint(0, 9)) if r.random() < 0.5 else "")
        typ = r.choice([2, 2, 2, 1, 1, 0, 3, 4])
        bind = r.choice([0, 1, 1, 2])
        if progsecs and r.random() < 0.8:
            s = r.choice(progsecs)
            v = s["sh_addr"] + (r.randrange(s["size"]) if s["size"] else 0)
        else:
            v = r.choice([0, 0, r.randrange(maxaddr)])
        if "dupaddr" in quirks and values and r.random() < 0.4:
            v = r.choice(values)
        values.append(v)
        syms.append(dict(st_name=strt.add(nm), st_info=(bind << 4) | typ, st_other=r.choice([0, 0, 2]),
                         st_shndx=r.randrange(0, nprog + 1) if r.random() < 0.9 else 0xfff1,
                         st_value=v, st_size=r.choice([0, 4, 8, 100])))
    have_symtab = r.random() < 0.8
    if have_symtab:
        blobs.append(("symtab", b"".join(w.sym(y) for y in syms), 8))
        blobs.append(("strtab", bytes(strt.b), 1))
        sections.append(dict(name=".symtab", sh_type=SHT_SYMTAB, sh_flags=0, sh_addr=0, blob="symtab", size=None,
                             sh_link=".strtab", sh_info=1, sh_addralign=8, sh_entsize=w.symsize))
        sections.append(dict(name=".strtab", sh_type=SHT_STRTAB, sh_flags=0, sh_addr=0, blob="strtab", size=None,
                             sh_link=0, sh_info=0, sh_addralign=1, sh_entsize=0))
    interp = None
    if dyn:
        interp = b"/lib/ld-linux.so.2\0"
        blobs.append(("interp", interp, 1))
        sections.append(dict(name=".interp", sh_type=SHT_PROGBITS, sh_flags=2, sh_addr=base + 0x200, blob="interp", size=None,
                             sh_link=0, sh_info=0, sh_addralign=1, sh_entsize=0))
        dsyms = [dict(st_name=0, st_info=0, st_other=0, st_shndx=0, st_value=0, st_size=0)]
        for i in range(r.randint(0, 6)):
            dsyms.append(dict(st_name=dynstr.add(r.choice(WORDS)), st_info=0x12, st_other=0, st_shndx=0, st_value=0, st_size=0))
        dynstr.add("libc.so.6")
        blobs.append(("dynsym", b"".join(w.sym(y) for y in dsyms), 8))
        blobs.append(("dynstr", bytes(dynstr.b), 1))
        sections.append(dict(name=".dynsym", sh_type=SHT_DYNSYM, sh_flags=2, sh_addr=base + 0x300, blob="dynsym", size=None,
                             sh_link=".dynstr", sh_info=1, sh_addralign=8, sh_entsize=w.symsize))
        sections.append(dict(name=".dynstr", sh_type=SHT_STRTAB, sh_flags=2, sh_addr=base + 0x500, blob="dynstr", size=None,
                             sh_link=0, sh_info=0, sh_addralign=1, sh_entsize=0))
        use_rela = r.random() < 0.5
        rels = []
        got = base + 0x3000
        for i in range(r.randint(0, 6)):
            sym = r.randrange(len(dsyms))
            ro = got + 8 * i if r.random() < 0.9 else 0
            e = dict(r_offset=ro, r_info=w.r_info(sym, r.choice([7, 6, 1])), r_addend=r.choice([0, 4, (1 << (64 if x64 else 32)) - 4]))
            rels.append(w.rela(e) if use_rela else w.rel(e))
        blobs.append(("relplt", b"".join(rels), 8))
        sections.append(dict(name=".rela.plt" if use_rela else ".rel.plt", sh_type=SHT_RELA if use_rela else SHT_REL,
                             sh_flags=2, sh_addr=base + 0x600, blob="relplt", size=None, sh_link=".dynsym", sh_info=0,
                             sh_addralign=8, sh_entsize=(3 if use_rela else 2) * w.asz))
        dyns = [dict(d_tag=1, d_un=dynstr.idx[b"libc.so.6"]), dict(d_tag=5, d_un=base + 0x500), dict(d_tag=6, d_un=base + 0x300),
                dict(d_tag=r.choice([24, 30, 0x6ffffffb]), d_un=r.choice([0, 1, 8])), dict(d_tag=0, d_un=0)]
        blobs.append(("dynamic", b"".join(w.dyn(d) for d in dyns), 8))
        sections.append(dict(name=".dynamic", sh_type=SHT_DYNAMIC, sh_flags=3, sh_addr=base + 0x2000, blob="dynamic", size=None,
                             sh_link=".dynstr", sh_info=0, sh_addralign=8, sh_entsize=2 * w.asz))
    sections.append(dict(name=".shstrtab", sh_type=SHT_STRTAB, sh_flags=0, sh_addr=0, blob="shstrtab", size=None,
                         sh_link=0, sh_info=0, sh_addralign=1, sh_entsize=0))
    # order of the section header table (NULL stays first)
    rest = sections[1:]
    r.shuffle(rest)
    sections = [sections[0]] + rest
    for s in sections:
        s["sh_name"] = shstr.add(s["name"])
    blobs.append(("shstrtab", bytes(shstr.b), 1))
    # program headers
    phs = []
    nph = 0 if "noph" in quirks else r.randint(1, 6)
    kinds = []
    if dyn:
        kinds += [3, 2]
    kinds += [1] * r.randint(1, 3) + [r.choice([4, 6, 7, 0x6474e550, 0x6474e551, 0x6474e552, 0])]
    if "unknown_pt" in quirks:
        kinds.insert(r.randrange(len(kinds) + 1), r.choice(UNKNOWN_PT))
    r.shuffle(kinds)
    kinds = kinds[:nph]
    # layout of the file
    phentsize = w.phsize + (8 if "bigent" in quirks and r.random() < 0.5 else 0)
    shentsize = w.shsize + (8 if "bigent" in quirks and r.random() < 0.5 else 0)
    nsh = 0 if "nosh" in quirks else len(sections)
    al = 8 if x64 else 4
    items = [("PH", len(kinds) * phentsize, al), ("SH", nsh * shentsize, al)] + [(k, len(b), a) for (k, b, a) in blobs]
    r.shuffle(items)
    off = w.ehsize
    pos = {}
    for k, n, a in items:
        gap = r.choice([0, 0, 0, 8, 24])
        off += gap
        if k in ("PH", "SH") and "unaligned" in quirks and r.random() < 0.5:
            off += (-off) % al + r.choice([1, 2, 4] if x64 else [1, 2, 3])
        else:
            a2 = max(a, al) if k in ("PH", "SH", "symtab", "dynsym", "relplt", "dynamic") else a
            off += (-off) % a2
        pos[k] = off
        off += n
    total = off
    blobmap = {k: b for (k, b, a) in blobs}
    # finalise sections
    nameidx = {}
    for i, s in enumerate(sections):
        nameidx.setdefault(s["name"], i)
    for s in sections:
        if s["blob"] is not None:
            s["sh_offset"] = pos[s["blob"]]
            s["sh_size"] = len(blobmap[s["blob"]])
        else:
            s["sh_offset"] = r.choice([0, total]) if s["sh_type"] == SHT_NOBITS else 0
            s["sh_size"] = s["size"] or 0
        if isinstance(s["sh_link"], str):
            s["sh_link"] = nameidx.get(s["sh_link"], 0)
    # segments
    loadable = [s for s in sections if s["sh_type"] in (SHT_PROGBITS, SHT_NOTE, SHT_INIT_ARRAY) and s["blob"] and s["sh_addr"]]
    for k in kinds:
        p = dict(p_type=k, p_flags=r.choice([4, 5, 6, 7]), p_offset=0, p_vaddr=0, p_paddr=0, p_filesz=0, p_memsz=0,
                 p_align=r.choice([1, 4, 0x1000, 0x200000]))
        if k == 1 and loadable:
            s = r.choice(loadable)
            p.update(p_offset=s["sh_offset"], p_vaddr=s["sh_addr"], p_paddr=s["sh_addr"], p_filesz=s["sh_size"],
                     p_memsz=s["sh_size"] + r.choice([0, 0, 16, 0x1000]))
        elif k == 1:
            p.update(p_offset=0, p_vaddr=base, p_paddr=base, p_filesz=min(total, 0x100), p_memsz=0x100)
        elif k == 3 and interp:
            p.update(p_offset=pos["interp"], p_vaddr=base + 0x200, p_paddr=base + 0x200, p_filesz=len(interp), p_memsz=len(interp))
        elif k == 2 and dyn:
            p.update(p_offset=pos["dynamic"], p_vaddr=base + 0x2000, p_paddr=base + 0x2000, p_filesz=len(blobmap["dynamic"]),
                     p_memsz=len(blobmap["dynamic"]))
        elif k == 6:
            p.update(p_offset=pos["PH"], p_vaddr=base + pos["PH"], p_paddr=base + pos["PH"], p_filesz=len(kinds) * phentsize,
                     p_memsz=len(kinds) * phentsize)
        phs.append(p)
    shstrndx = [i for i, s in enumerate(sections) if s["name"] == ".shstrtab"][0]
    if "nostrndx" in quirks or nsh == 0:
        shstrndx = 0
    entry = (r.choice(loadable)["sh_addr"] + 1) if loadable and r.random() < 0.8 else r.randrange(maxaddr)
    e = dict(e_type=r.choice([2, 3, 1]), e_machine=r.choice([3, 62, 40, 8, 2, 243, 183, 20]), e_version=1, e_entry=entry,
             e_phoff=pos["PH"] if kinds else 0, e_shoff=pos["SH"] if nsh else 0, e_flags=r.choice([0, 0x5000200, 4]),
             e_ehsize=w.ehsize, e_phentsize=phentsize, e_phnum=len(kinds), e_shentsize=shentsize, e_shnum=nsh,
             e_shstrndx=shstrndx)
    out = bytearray(total)
    out[0:w.ehsize] = w.ehdr(e)
    for k, b in blobmap.items():
        out[pos[k]:pos[k] + len(b)] = b
    for i, p in enumerate(phs):
        o = pos["PH"] + i * phentsize
        out[o:o + w.phsize] = w.phdr(p)
    if nsh:
        for i, s in enumerate(sections):
            o = pos["SH"] + i * shentsize
            out[o:o + w.shsize] = w.shdr(s)
    # interesting addresses
    addrs = [entry, 0, base]
    for s in sections:
        if s["sh_addr"] or s["sh_size"]:
            addrs += [s["sh_addr"], s["sh_addr"] + max(s["sh_size"], 1) - 1, s["sh_addr"] + s["sh_size"]]
    for p in phs:
        addrs += [p["p_vaddr"], p["p_vaddr"] + p["p_filesz"], p["p_vaddr"] + max(p["p_filesz"], 1) - 1]
    addrs = sorted(set(a for a in addrs if a >= 0))[:40]
    meta = {"x64": x64, "be": be, "quirks": sorted(quirks), "nph": len(kinds), "nsh": nsh, "nsyms": len(syms) if have_symtab else 0,
            "dyn": dyn, "addrs": addrs, "phoff": e["e_phoff"], "shoff": e["e_shoff"]}
    return bytes(out), meta


QUIRKS = ["unaligned", "bigent", "unknown_pt", "unknown_sht", "nosh", "noph", "nostrndx", "dupaddr", "utf8"]


def pick_quirks(r):
    k = r.random()
    if k < 0.45:
        return ()
    if k < 0.85:
        return (r.choice(QUIRKS),)
    return tuple(sorted(set(r.sample(QUIRKS, 2))))


# ---------------------------------------------------------------------------------------
# Intel HEX / S-record
# ---------------------------------------------------------------------------------------

def hex_cksum(bs):
    return (-sum(bs)) & 0xff


def hex_line(count, address, code, data, ck=None, upper=True):
    body = bytes([count & 0xff, (address >> 8) & 0xff, address & 0xff, code & 0xff]) + bytes(data)
    if ck is None:
        ck = hex_cksum(body)
    s = (body + bytes([ck])).hex()
    return b":" + (s.upper() if upper else s).encode()


def gen_hex_records(r, mix=False):
    """list of (count,address,code,data) of a well-formed stream"""
    recs = []
    kind = r.choice(["plain", "seg", "lin"])
    n = r.randint(1, 8)
    for i in range(n):
        if kind == "seg" and r.random() < 0.4:
            v = r.choice([0, 0x1000, r.getrandbits(16)])
            recs.append((2, 0, 2, bytes([v >> 8, v & 0xff])))
        if kind == "lin" and r.random() < 0.4:
            v = r.choice([0, 0x0800, r.getrandbits(16)])
            recs.append((2, 0, 4, bytes([v >> 8, v & 0xff])))
        if mix and r.random() < 0.3:
            v = r.getrandbits(16)
            recs.append((2, 0, r.choice([2, 4]), bytes([v >> 8, v & 0xff])))
        ln = r.choice([0, 1, 2, 16, 16, 32, 255])
        recs.append((ln, r.getrandbits(16), 0, bytes(r.getrandbits(8) for _ in range(ln))))
    if r.random() < 0.4:
        recs.append((4, 0, r.choice([3, 5]), bytes(r.getrandbits(8) for _ in range(4))))
    if r.random() < 0.9:
        recs.append((0, 0, 1, b""))
    return recs


def hex_stream(r, recs, upper=None):
    eol = r.choice([b"\n", b"\r\n", b"\n"])
    lines = []
    for (c, a, t, d) in recs:
        up = r.random() < 0.8 if upper is None else upper
        l = hex_line(c, a, t, d, upper=up)
        if r.random() < 0.1:
            l = r.choice([b" ", b"\t"]) + l
        if r.random() < 0.1:
            l = l + b" "
        lines.append(l)
    out = eol.join(lines)
    if r.random() < 0.8:
        out += eol
    return out


def srec_cksum(bs):
    return (sum(bs) & 0xff) ^ 0xff


SREC_ADDR = {0: 2, 1: 2, 2: 3, 3: 4, 5: 2, 6: 3, 7: 4, 8: 3, 9: 2}


def srec_line(t, address, data, ck=None, count=None, upper=True, abytes=None):
    ab = SREC_ADDR[t] if abytes is None else abytes
    if count is None:
        count = ab + len(data) + 1
    body = bytes([count & 0xff]) + int(address).to_bytes(ab, "big") + bytes(data)
    if ck is None:
        ck = srec_cksum(body)
    s = (body + bytes([ck])).hex()
    return b"S%d" % t + (s.upper() if upper else s).encode()


def gen_srec_records(r):
    recs = []
    if r.random() < 0.8:
        recs.append((0, 0, bytes(r.choice(b"HDRabc xyz") for _ in range(r.randint(0, 12)))))
    dt = r.choice([1, 2, 3])
    n = r.randint(0, 8)
    for i in range(n):
        ln = r.choice([0, 1, 4, 16, 32, 250 - SREC_ADDR[dt]])
        recs.append((dt, r.getrandbits(8 * SREC_ADDR[dt]), bytes(r.getrandbits(8) for _ in range(ln))))
    if r.random() < 0.5:
        ct = 5 if n < 65536 else 6
        recs.append((ct, n, b""))
    if r.random() < 0.8:
        st = {1: 9, 2: 8, 3: 7}[dt]
        recs.append((st, r.choice([0, r.getrandbits(8 * SREC_ADDR[st])]), b""))
    return recs


def srec_stream(r, recs):
    eol = r.choice([b"\n", b"\r\n", b"\n"])
    lines = []
    for (t, a, d) in recs:
        l = srec_line(t, a, d, upper=r.random() < 0.8)
        if r.random() < 0.1:
            l = b" " + l
        lines.append(l)
        if r.random() < 0.08:
            lines.append(r.choice([b"", b"  "]))
    out = eol.join(lines)
    if r.random() < 0.8:
        out += eol
    return out


def corrupt_line(r, line, fmt):
    """returns (kind, newline). kinds: cksum (only the checksum byte differs), len, char, trunc, tail"""
    k = r.choice(["cksum", "cksum", "cksum", "len", "char", "trunc", "tail", "sign"])
    l = bytearray(line.strip())
    if k == "cksum":
        old = int(bytes(l[-2:]), 16)
        new = r.choice([x for x in range(256) if x != old])
        l[-2:] = b"%02X" % new
    elif k == "len":
        p = 1 if fmt == "hex" else 2
        old = int(bytes(l[p:p + 2]), 16)
        new = r.choice([x for x in range(256) if x != old])
        l[p:p + 2] = b"%02X" % new
    elif k == "char":
        p = r.randrange(len(l))
        l[p] = r.choice(b"GZ_x+- .:S\x00\xff")
    elif k == "trunc":
        l = l[:r.randrange(len(l))]
    elif k == "tail":
        l += r.choice([b"0", b"00", b"Z", b"\x00"])
    elif k == "sign":
        l[-2:] = r.choice([b"+", b"-", b" ", b"_"]) + l[-1:]
    return k, bytes(l)


# ---------------------------------------------------------------------------------------
# faults for C20
# ---------------------------------------------------------------------------------------

def corrupt_bytes(r, b, region=0x400, n=None):
    bb = bytearray(b)
    if not bb:
        return bytes(bb)
    n = n or r.choice([1, 1, 2, 4, 8])
    for _ in range(n):
        pos = r.randrange(min(len(bb), region)) if r.random() < 0.7 else r.randrange(len(bb))
        bb[pos] = r.choice([0, 0xff, r.getrandbits(8), bb[pos] ^ (1 << r.randrange(8))])
    return bytes(bb)


# ---------------------------------------------------------------------------------------
# PE / Mach-O header sets (header level only)
# ---------------------------------------------------------------------------------------

def synth_pe(r):
    """DOS header, NT headers, optional header (PE32 / PE32+) with 16 empty data directories and
    a section table; raw data of the sections follows at FileAlignment."""
    plus = r.random() < 0.5
    lfanew = r.choice([64, 0x80, 0xe8, 0x100])
    nsec = r.randint(0, 5)
    falign, salign = 0x200, 0x1000
    base = r.choice([0x400000, 0x10000000, 0x140000000 if plus else 0x1000000])
    dos = b"MZ" + bytes(r.getrandbits(8) for _ in range(58)) + struct.pack("<I", lfanew)
    stub = bytes(r.getrandbits(8) for _ in range(lfanew - 64))
    ndirs = r.choice([16, 16, 16, 10, 2])
    optpad = r.choice([0, 0, 8, 16])              # SizeOfOptionalHeader may exceed the structure: the section table follows it
    optsize = (112 if plus else 96) + ndirs * 8 + optpad
    hdrs_end = lfanew + 24 + optsize + 40 * nsec
    sizeofheaders = (hdrs_end + falign - 1) // falign * falign
    secs = []
    raw = sizeofheaders
    rva = salign
    for i in range(nsec):
        vs = r.choice([1, 0x10, 0x234, 0x1000, 0x1800])
        rs = (min(vs, 0x400) + falign - 1) // falign * falign if r.random() < 0.85 else 0
        name = r.choice([b".text", b".data", b".rdata", b".rsrc", b".reloc", b"UPX0", b".bss"]).ljust(8, b"\0")
        secs.append(dict(Name=name, VirtualSize=vs, RVA=rva, SizeOfRawData=rs, PointerToRawData=raw if rs else 0,
                         PointerToRelocations=0, PointerToLineNumbers=0, NumberOfRelocations=0, NumberOfLineNumbers=0,
                         Characteristics=r.choice([0x60000020, 0xC0000040, 0x40000040, 0xC0000080])))
        raw += rs
        rva += (vs + salign - 1) // salign * salign
    entry = (secs[0]["RVA"] + r.randrange(secs[0]["VirtualSize"])) if secs else 0
    nt = dict(Signature=0x4550, Machine=0x8664 if plus else 0x14c, NumberOfSections=nsec, TimeDateStamp=r.getrandbits(32),
              PointerToSymbolTable=0, NumberOfSymbols=0, SizeOfOptionalHeader=optsize, Characteristics=r.choice([0x102, 0x22, 0x2102]))
    coffhdr = struct.pack("<IHHIIIHH", nt["Signature"], nt["Machine"], nt["NumberOfSections"], nt["TimeDateStamp"],
                          nt["PointerToSymbolTable"], nt["NumberOfSymbols"], nt["SizeOfOptionalHeader"], nt["Characteristics"])
    opt = dict(Magic=0x20b if plus else 0x10b, MajorLinkerVersion=14, MinorLinkerVersion=r.getrandbits(8), SizeOfCode=0x1000,
               SizeOfInitializedData=0x800, SizeOfUninitializedData=0, AddressOfEntryPoint=entry, BaseOfCode=salign,
               BaseOfData=0x2000, ImageBase=base, SectionAlignment=salign, FileAlignment=falign,
               MajorOperatingSystemVersion=6, MinorOperatingSystemVersion=0, MajorImageVersion=0, MinorImageVersion=0,
               MajorSubsystemVersion=6, MinorSubsystemVersion=0, Win32VersionValue=0, SizeOfImage=rva, SizeOfHeaders=sizeofheaders,
               CheckSum=r.getrandbits(32), Subsystem=r.choice([2, 3]), DllCharacteristics=r.choice([0x8160, 0x140, 0]),
               SizeOfStackReserve=0x100000, SizeOfStackCommit=0x1000, SizeOfHeapReserve=0x100000, SizeOfHeapCommit=0x1000,
               LoaderFlags=0, NumberOfRvaAndSizes=ndirs)
    if plus:
        del opt["BaseOfData"]
        o = struct.pack("<HBBIIIII", opt["Magic"], opt["MajorLinkerVersion"], opt["MinorLinkerVersion"], opt["SizeOfCode"],
                        opt["SizeOfInitializedData"], opt["SizeOfUninitializedData"], opt["AddressOfEntryPoint"], opt["BaseOfCode"])
        o += struct.pack("<QIIHHHHHHIIIIHHQQQQII", opt["ImageBase"], opt["SectionAlignment"], opt["FileAlignment"],
                         opt["MajorOperatingSystemVersion"], opt["MinorOperatingSystemVersion"], opt["MajorImageVersion"],
                         opt["MinorImageVersion"], opt["MajorSubsystemVersion"], opt["MinorSubsystemVersion"], opt["Win32VersionValue"],
                         opt["SizeOfImage"], opt["SizeOfHeaders"], opt["CheckSum"], opt["Subsystem"], opt["DllCharacteristics"],
                         opt["SizeOfStackReserve"], opt["SizeOfStackCommit"], opt["SizeOfHeapReserve"], opt["SizeOfHeapCommit"],
                         opt["LoaderFlags"], opt["NumberOfRvaAndSizes"])
    else:
        o = struct.pack("<HBBIIIIII", opt["Magic"], opt["MajorLinkerVersion"], opt["MinorLinkerVersion"], opt["SizeOfCode"],
                        opt["SizeOfInitializedData"], opt["SizeOfUninitializedData"], opt["AddressOfEntryPoint"], opt["BaseOfCode"],
                        opt["BaseOfData"])
        o += struct.pack("<IIIHHHHHHIIIIHHIIIIII", opt["ImageBase"], opt["SectionAlignment"], opt["FileAlignment"],
                         opt["MajorOperatingSystemVersion"], opt["MinorOperatingSystemVersion"], opt["MajorImageVersion"],
                         opt["MinorImageVersion"], opt["MajorSubsystemVersion"], opt["MinorSubsystemVersion"], opt["Win32VersionValue"],
                         opt["SizeOfImage"], opt["SizeOfHeaders"], opt["CheckSum"], opt["Subsystem"], opt["DllCharacteristics"],
                         opt["SizeOfStackReserve"], opt["SizeOfStackCommit"], opt["SizeOfHeapReserve"], opt["SizeOfHeapCommit"],
                         opt["LoaderFlags"], opt["NumberOfRvaAndSizes"])
    o += b"".join(struct.pack("<II", 0, 0) for _ in range(ndirs)) + bytes(r.getrandbits(8) for _ in range(optpad))
    st = b"".join(struct.pack("<8sIIIIIIHHI", s["Name"], s["VirtualSize"], s["RVA"], s["SizeOfRawData"], s["PointerToRawData"],
                              s["PointerToRelocations"], s["PointerToLineNumbers"], s["NumberOfRelocations"],
                              s["NumberOfLineNumbers"], s["Characteristics"]) for s in secs)
    out = bytearray(dos + stub + coffhdr + o + st)
    out += b"\0" * (sizeofheaders - len(out))
    for s in secs:
        out += bytes(r.getrandbits(8) for _ in range(s["SizeOfRawData"]))
    return bytes(out), {"plus": plus, "nsec": nsec, "lfanew": lfanew, "ndirs": ndirs, "optpad": optpad}


def synth_macho(r):
    """mach_header(_64) + LC_SEGMENT(_64) commands with sections + an LC_UUID command."""
    x64 = r.random() < 0.6
    nseg = r.randint(1, 4)
    cmds = []
    fileoff = 0
    vm = 0x100000000 if x64 else 0x1000
    for i in range(nseg):
        nsects = r.randint(0, 3)
        segname = [b"__PAGEZERO", b"__TEXT", b"__DATA", b"__LINKEDIT"][i].ljust(16, b"\0")
        vmsize = 0x1000 * r.randint(1, 4)
        filesize = r.choice([0, 0x1000, vmsize])
        secs = b""
        for k in range(nsects):
            sn = r.choice([b"__text", b"__stubs", b"__data", b"__cstring", b"__bss"]).ljust(16, b"\0")
            if x64:
                secs += struct.pack("<16s16sQQIIIIIIII", sn, segname, vm + 0x100 * k, 0x80, fileoff + 0x100 * k, r.choice([0, 2, 4]),
                                    0, 0, r.choice([0x80000400, 0, 1, 8]), 0, 0, 0)
            else:
                secs += struct.pack("<16s16sIIIIIIIII", sn, segname, vm + 0x100 * k, 0x80, fileoff + 0x100 * k, r.choice([0, 2, 4]),
                                    0, 0, r.choice([0x80000400, 0, 1, 8]), 0, 0)
        if x64:
            body = struct.pack("<16sQQQQiiII", segname, vm, vmsize, fileoff, filesize, 7, r.choice([1, 3, 5]), nsects, 0)
            cmd = struct.pack("<II", 0x19, 8 + len(body) + len(secs)) + body + secs
        else:
            body = struct.pack("<16sIIIIiiII", segname, vm, vmsize, fileoff, filesize, 7, r.choice([1, 3, 5]), nsects, 0)
            cmd = struct.pack("<II", 0x1, 8 + len(body) + len(secs)) + body + secs
        cmds.append(cmd)
        vm += vmsize
        fileoff += filesize
    cmds.append(struct.pack("<II16s", 0x1b, 24, bytes(r.getrandbits(8) for _ in range(16))))
    r.shuffle(cmds)
    lc = b"".join(cmds)
    if x64:
        hdr = struct.pack("<IiiIIIII", 0xFEEDFACF, 0x01000007, 3, r.choice([2, 6, 1]), len(cmds), len(lc), r.choice([0x200085, 0x85, 0]), 0)
    else:
        hdr = struct.pack("<IiiIIII", 0xFEEDFACE, r.choice([7, 12]), 3, r.choice([2, 6, 1]), len(cmds), len(lc), r.choice([0x85, 0]))
    out = hdr + lc
    out += b"\0" * (max(fileoff, len(out)) + 0x100 - len(out))
    return out, {"x64": x64, "ncmds": len(cmds)}
