"""
c05_extra.py — history / cross-mode exploration for C05.

The per-mode loop of c05.py compares decode(b) with decode(b[:n]+t) for random and constant tails t,
one mode after the other.  "Determined by the bytes it consumes" also quantifies over
  * tails that are themselves meaningful: the continuation bytes of other inputs of the pool, of ANY
    mode of the ISA (what a traversal finds after a short instruction is the rest of some other
    instruction, possibly one met earlier in another mode);
  * the life of the one disassembler object of the ISA: the same call must give the same instruction
    whatever was decoded before, in whatever mode (linear sweep and recursive traversal reach an
    instruction through different histories of calls).
This module runs the pool of every mode through every mode in turn on the ONE long-lived disassembler
object and compares every result with
  (a) decode of its exact consumed bytes, of consumed bytes + sibling tails, and of every shorter
      truncation of the input that decodes to a shorter instruction (the input is then "those bytes
      followed by something else"), all on the same object;
  (b) the same call on a FRESH disassembler object of that ISA, built by the real constructor from
      the same spec modules (history-free reference).
"""
import sys
import isa
from amoco.arch import core as acore


def spec_modules(I):
    """the spec modules the ISA's disassembler was built from, one per instruction set (or None)."""
    mods = []
    for idx in range(I.nsets):
        specs = isa.flatten(I.dis.specs[idx])
        ids = set(id(s) for s in specs)
        found = None
        for s in specs:
            m = sys.modules.get(s.hook.__module__)
            if m is not None and hasattr(m, "ISPECS") and set(id(x) for x in m.ISPECS) == ids:
                found = m
                break
        if found is None:
            return None
        mods.append(found)
    return mods


def fresh_disassembler(I):
    """a new disassembler object for ISA I made by the real constructor (no decoding history).
    None if the spec modules cannot be recovered or the trees it builds are not the ISA's trees."""
    d = I.dis
    mods = spec_modules(I)
    if mods is None:
        return None
    before = [list(m.ISPECS) for m in mods]
    try:
        F = type(d)(mods, iclass=d.iclass, iset=d.iset, endian=d.endian)
    except BaseException:
        return None
    # the constructor sorts ISPECS in place (stable, already sorted): must be a no-op
    if any([id(x) for x in m.ISPECS] != [id(x) for x in b] for m, b in zip(mods, before)):
        for m, b in zip(mods, before):
            m.ISPECS[:] = b
        return None
    F.maxlen = d.maxlen          # cpu modules override maxlen after construction
    return F


class Hist(object):
    """calls on one disassembler object, recorded as (mode, hex)."""

    def __init__(self, I, obj, record=True):
        self.I, self.obj, self.log, self.record = I, obj, [], record

    def __call__(self, idx, bs):
        self.I.set_mode(idx)
        self.obj.iset = self.I.dis.iset      # set_mode may have replaced the selector of the ISA's object
        if self.record:
            self.log.append((idx, bs.hex()))
        res = isa.real_decode(self.obj, bs, fresh=False)
        return (res[0], isa.fingerprint(res[1]) if res[0] == "ok" else res[1]), (res[1] if res[0] == "ok" else None)


def _copy_tree(t):
    """structural copy of a specs tree (tuples / dicts / lists); the ispec objects are shared."""
    if isinstance(t, tuple):
        return tuple(_copy_tree(x) for x in t)
    if isinstance(t, list):
        return [_copy_tree(x) for x in t]
    if isinstance(t, dict):
        c = t.copy()
        for k in list(c.keys()):
            c[k] = _copy_tree(c[k])
        return c
    return t


class FreshRef(object):
    """history-free reference: every call is made on a never-used copy of a never-used disassembler
    object (own spec trees, own copies of every other attribute; only the ispec objects are shared)."""

    def __init__(self, I, F0):
        self.I, self.F0 = I, F0

    def __call__(self, idx, bs):
        import copy
        F = copy.copy(self.F0)
        for k, v in list(vars(self.F0).items()):
            if k == "specs":
                F.specs = _copy_tree(v)
            elif isinstance(v, (dict, list, tuple)):
                # containers are copied structurally (spec trees kept per fetch endianness, module lists ...):
                # the leaves (ispec objects, modules) are shared, never re-created
                setattr(F, k, _copy_tree(v))
            elif isinstance(v, (set, bytearray)):
                try:
                    setattr(F, k, copy.deepcopy(v))
                except BaseException:
                    pass
        return Hist(self.I, F, record=False)(idx, bs)


def run_history(I, history, obj=None):
    """replay [(mode, hex), ...] on a fresh object (or obj); returns the list of canonical results."""
    F = obj if obj is not None else fresh_disassembler(I)
    h = Hist(I, F, record=False)
    return [h(idx, bytes.fromhex(hx))[0] for idx, hx in history]


def shrink(I, log, judge, k_final):
    """a short sub-history of the call log that, replayed on a fresh object, still shows the failure;
    `judge(results of the last k_final calls)` says whether it does.  Candidates: the final calls alone;
    the earlier calls whose input starts like a final call's input (2 leading bytes, then 1), in order;
    suffixes of doubling length; the whole log (returned with False if even that does not reproduce)."""
    n = len(log)
    final = log[n - k_final:]
    cands = [final]
    for plen in (2, 1):
        heads = set(hx[:2 * plen] for _, hx in final)
        rel = [c for c in log[:n - k_final] if c[1][:2 * plen] in heads]
        if rel and len(rel) <= 400:
            cands.append(list(dict.fromkeys(rel)) + final)
    k = max(2 * k_final, 4)
    while k < n:
        cands.append(log[n - k:])
        k *= 4
    cands.append(log)
    for c in cands:
        try:
            res = run_history(I, c)
            if judge(res[-k_final:]):
                return c, True
        except BaseException:
            pass
    return log, False


def history_pass(ck, I, name, pools, r, quick, prelog=None):
    """pools: {mode idx: [byte strings of that mode's generated pool]}.  Runs on I.dis (long-lived);
    prelog: the calls [(mode, hex)] already made on I.dis since it was created (its history so far)."""
    d = I.dis
    F = fresh_disassembler(I)
    if F is None:
        ck.count("history.no-fresh-object")
    multi = I.nsets > 1
    modes = sorted(pools)
    per_mode = ((140, 40) if multi else (40, 12)) if quick else ((2500, 800) if multi else (600, 200))
    npool, ncomp = per_mode
    live = Hist(I, d)
    live.log = list(prelog or [])
    ref = FreshRef(I, F) if F is not None else None
    reported = {}

    def report(aspect, idx, ins, what, case, real, expected, final, judge):
        """final: the calls [(mode, hex)] that form the property instance; they end the recorded history"""
        label = "%s/%d" % (name, idx)
        key = (label, aspect)
        reported[key] = reported.get(key, 0) + 1
        if reported[key] > 2:
            return
        k_final = len(final)
        log = list(live.log) + list(final)
        hist, small = shrink(I, log, judge, k_final) if F is not None else (log, False)
        sig = "C05:%s:%s:%s:history-%s" % (label, ins.mnemonic if ins is not None else "-", ins.spec.format if ins is not None else "-", aspect)
        ck.report(sig, what + " [history of %d calls on the one disassembler object%s]" % (len(hist), "" if small else ", does not reproduce on a fresh object"),
                  "oracle", "Amoco.Dis.Props05.index_adds_no_tail_dependence (premise: a call's outcome depends on its bytes and mode only)",
                  case=dict(case, isa=name, mode=idx, xhistory=[list(h) for h in hist], aspect=aspect, check_last=k_final),
                  real=real, expected=expected, failing_input_found=small or F is None)

    # ---- items: pool inputs of every mode + consumed bytes of one input followed by the continuation of another
    items = []
    decoded = []          # (mode, consumed bytes) found while building; decoding here is part of the object's life
    for idx in modes:
        for bs in pools[idx][:npool]:
            items.append(("pool", idx, bs))
    everything = [bs for idx in modes for bs in pools[idx] if len(bs) >= 2]
    for idx in modes:
        cands = [bs for bs in pools[idx] if bs]
        r.shuffle(cands)
        made = 0
        for bs in cands:
            if made >= ncomp or not everything:
                break
            res, ins = live(idx, bs)
            if ins is None or not (1 <= len(ins.bytes) <= len(bs)):
                continue
            n = len(ins.bytes)
            decoded.append((idx, bs[:n]))
            sib = [x for x in (r.choice(everything) for _ in range(6)) if len(x) > n]
            if not sib:
                continue
            items.append(("composed", idx, bs[:n] + sib[0][n:]))
            made += 1
    r.shuffle(items)

    def siblings(n):
        out = []
        for _ in range(8):
            x = r.choice(everything) if everything else b""
            if len(x) > n:
                out.append(x[n:])
            if len(out) == 2:
                break
        return out

    for k, (kind, src, v) in enumerate(items):
        order = modes[k % len(modes):] + modes[:k % len(modes)]      # every order of modes is met
        for idx in order:
            label = "%s/%d" % (name, idx)
            res, ins = live(idx, v)
            ck.case((label, "h", v), nontrivial=ins is not None)
            ck.count("history.%s.%s" % (kind, res[0]))
            if multi:
                ck.count("history.cross-mode" if idx != src else "history.own-mode")
            # (b) history-free reference
            if ref is not None:
                want, _ = ref(idx, v)
                ck.count("history.vs-fresh-object")
                if res != want:
                    report("fresh-object", idx, ins, "%s: decode(%s) on the long-lived disassembler = %r but a fresh disassembler object of the same ISA and mode gives %r"
                           % (label, v.hex(), res, want), {"bytes": v.hex()}, res, want, [(idx, v.hex())],
                           lambda rs, want=want: rs[-1] != want)
                    continue
            if ins is None:
                continue
            n = len(ins.bytes)
            if not (1 <= n <= len(v)) or bytes(ins.bytes) != v[:n]:
                continue        # byte accounting is reported by the per-mode loop's oracle on the same kind of input
            # (a) same object: exact consumed bytes, sibling tails
            variants = [("exact", v[:n])] + [("sibling-tail", v[:n] + t) for t in siblings(n)]
            bad = False
            for vk, w in variants:
                res2, _ = live(idx, w)
                ck.count("history.variant." + vk)
                if res2 != res:
                    report(vk, idx, ins, "%s: decode(%s) = %s (%d bytes) but decode(%s) [%s] = %r" % (label, v.hex(), ins.mnemonic, n, w.hex(), vk, res2),
                           {"bytes": v.hex(), "variant": w.hex()}, res2, res, [(idx, v.hex()), (idx, w.hex())],
                           lambda rs: len(rs) == 2 and rs[0][0] == "ok" and rs[0] != rs[1])
                    bad = True
                    break
            if bad:
                continue
            # truncations: if a shorter cut of the input is an instruction by itself, the input is that
            # instruction's bytes followed by something else and must decode to it
            for cut in range(1, min(n, 16)):
                res3, ins3 = live(idx, v[:cut])
                ck.count("history.truncation")
                if ins3 is None:
                    continue
                m = len(ins3.bytes)
                if not (1 <= m <= cut) or bytes(ins3.bytes) != v[:m]:
                    continue
                ck.count("history.truncation.decodes")
                # signature as the per-mode loop's tail variant (same property instance: bytes + replacement tail)
                sig = "C05:%s:%s:%s%s:tail" % (label, ins3.mnemonic, ins3.spec.format, ":input-exhausted" if m == cut else "")
                if sig in ck.known:
                    ck.report(sig, "%s: decode(%s) = %s (%d bytes) but decode(%s) [continuation] = %r" % (label, v[:cut].hex(), ins3.mnemonic, m, v.hex(), res),
                              "oracle", "-", case={"isa": name, "mode": idx, "bytes": v[:cut].hex(), "variant": v.hex(), "kind": "tail"})
                    break
                report("continuation", idx, ins3, "%s: decode(%s) = %s (%d bytes) but decode(%s) [the same bytes followed by the rest of another instruction] = %r"
                       % (label, v[:cut].hex(), ins3.mnemonic, m, v.hex(), res), {"bytes": v[:cut].hex(), "variant": v.hex()}, res, res3,
                       [(idx, v[:cut].hex()), (idx, v.hex())], lambda rs: len(rs) == 2 and rs[0][0] == "ok" and rs[0] != rs[1])
                break
    I.set_mode(0)
    isa.reset(d)


def replay_history(rec):
    """re-run a recorded history case: the calls of `xhistory` on a fresh object; the last `check_last`
    calls are the property instance (1: compare with another fresh object; 2: the two must agree)."""
    case = rec["case"]
    name = case["isa"]
    ok, bad = isa.load_all([name])
    if name not in ok:
        print("ISA module %s does not import: %s" % (name, bad.get(name))); return 1
    I = ok[name]
    hist = [tuple(h) for h in case["xhistory"]]
    res = run_history(I, hist)
    for (idx, hx), rr in list(zip(hist, res))[-6:]:
        print("%s/%d  decode(%s) = %r" % (name, idx, hx, rr))
    rc = 0
    if case.get("check_last", 1) == 1:
        want = run_history(I, hist[-1:])[0]
        print("fresh object: %s/%d  decode(%s) = %r" % (name, hist[-1][0], hist[-1][1], want))
        rc = int(want != res[-1])
    else:
        rc = int(res[-2][0] == "ok" and res[-2] != res[-1])
    I.set_mode(0)
    print("recorded: %s" % rec.get("what", "")[:400])
    return rc
