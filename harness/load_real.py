"""
load_real.py — runs the real amoco loaders in-process for C15 and dumps canonical results.

    load(data_or_path, pagesize) → Loaded | None   (amoco.system.core.load_program with conf.System.pagesize set)
    Loaded.objects(names) → [[vaddr, ["raw", hex] | ["ex", [["s", id, k], …]], endian], …]  of zone None
    Loaded.flat(a, n, names) → per byte: int | None (bottom) | ("slot", name, k)
    Loaded.window(a)  → first item of mmap.read(a, maxlen) (what read_instruction hands to the disassembler)
    elf_routes() → [(table, e_machine)] every ELF loader registered in DefineLoader.LOADERS once load_program has run
    load_route(data, table, e_machine, pagesize) → Loaded | None   the task built by that registered loader
"""
import logging


class Unmodelled(Exception):
    pass


def setup():
    logging.disable(logging.CRITICAL)
    import amoco                                    # noqa
    from amoco.config import conf
    return conf


def ext_desc(e, names):
    """per-byte descriptors (value order) of an ext expression or of a byte slice of one."""
    if e._is_slc:
        if e.x._is_ext and not e.x._is_slc and e.pos % 8 == 0 and e.size % 8 == 0:
            return [["s", names.id(e.x.ref), e.pos // 8 + k] for k in range(e.size // 8)]
    elif e._is_ext and e.size % 8 == 0:
        n = e.size // 8
        return [["s", names.id(e.ref), k] for k in range(n)]
    raise Unmodelled(type(e).__name__ + ":" + str(e))


def is_bottom(it):
    return type(it).__name__ == "exp"


def unchunk(chunks):
    """run-length chunks → one entry per byte: int | None | ("s", id, k)."""
    out = []
    for c in chunks:
        if c[0] == "r":
            out += list(bytes.fromhex(c[1]))
        elif c[0] == "n":
            out += [None] * c[1]
        else:
            out.append(("s", c[1], c[2]))
    return out


class Names(object):
    """symbol name -> atom number (in order of first use)."""

    def __init__(self):
        self.n = {}

    @staticmethod
    def norm(name):
        if isinstance(name, bytes):
            name = name.decode("latin1")
        return str(name)

    def id(self, name):
        name = self.norm(name)
        if name not in self.n:
            self.n[name] = len(self.n) + 1
        return self.n[name]

    def name(self, i):
        for k, v in self.n.items():
            if v == i:
                return k
        return None


class Loaded(object):
    def __init__(self, task):
        self.t = task
        self.mmap = task.state.mmap
        self.zone = self.mmap._zones[None]

    def zones(self):
        return [None if k is None else str(k) for k in self.mmap._zones.keys()]

    def objects(self, names):
        out = []
        for o in self.zone._map:
            v = o.data.val
            if isinstance(v, (bytes, bytearray)):
                out.append([o.vaddr, ["raw", bytes(v).hex()], o.data.endian])
            else:
                out.append([o.vaddr, ["ex", ext_desc(v, names)], o.data.endian])
        return out

    def cache(self):
        return list(self.zone._MemoryZone__cache)

    def pc(self):
        cpu = self.t.cpu
        v = self.t.state(cpu.PC())
        if v._is_cst:
            return v.value & ((1 << v.size) - 1)
        return str(v)

    def chunks(self, a, n, names):
        """mmap.read(a, n) as run-length chunks, the format of the model driver:
        ["r", hex] run of concrete bytes | ["n", count] run of bottom bytes | ["s", id, k] one symbolic byte."""
        out = []
        raw = bytearray()
        bot = 0

        def flush():
            nonlocal raw, bot
            if raw:
                out.append(["r", bytes(raw).hex()])
                raw = bytearray()
            if bot:
                out.append(["n", bot])
                bot = 0
        for it in self.mmap.read(a, n):
            if isinstance(it, (bytes, bytearray)):
                if bot:
                    flush()
                raw += it
            elif is_bottom(it):
                if raw:
                    flush()
                bot += it.size // 8
            else:
                flush()
                out += ext_desc(it, names)
        flush()
        return out

    def maxlen(self):
        return self.t.cpu.disassemble.maxlen

    def window(self, a, names, maxlen=None):
        """what task.read_instruction(a) hands to the disassembler, observed by replacing the cpu module's
        `disassemble` with a recorder for the duration of the call: ["raw", hex]; when the disassembler is
        not called: the returned stub ["ex", …], or the first item of mmap.read(a, maxlen) (["bot", n] / ["ex", …])."""
        cpu = self.t.cpu
        orig = cpu.disassemble
        seen = []
        ml = maxlen or orig.maxlen

        class Rec(object):
            def __call__(self, data, **kargs):
                seen.append(bytes(data))
                return None
        rec = Rec()
        rec.maxlen = ml
        cpu.disassemble = rec
        try:
            try:
                res = self.t.read_instruction(a)
            except MemoryError:
                return ["MemoryError"]
            except Exception as e:
                return ["raise", type(e).__name__]
        finally:
            cpu.disassemble = orig
        if seen:
            return ["raw", seen[0].hex()]
        if res is not None:
            return ["ex", ext_desc(res, names)]
        r = self.mmap.read(a, ml)
        if not r:
            return None
        it = r[0]
        if is_bottom(it):
            return ["bot", it.size // 8]
        return ["ex", ext_desc(it, names)]

    def instruction(self, a):
        """(bytes, mnemonic) of task.read_instruction(a) | None | ("ext", name) | ("raise", type)."""
        try:
            i = self.t.read_instruction(a)
        except Exception as e:
            return ("raise", type(e).__name__)
        if i is None:
            return None
        if getattr(i, "_is_ext", False):
            return ("ext", str(i.ref))
        return (bytes(i.bytes), i.mnemonic)


def load(data, pagesize=4096, cpu=None, aslr=False):
    """load_program on bytes or a path, with the configured page size (and aslr flag). → Loaded | None."""
    conf = setup()
    from amoco.system.core import load_program
    old, olda = conf.System.pagesize, conf.System.aslr
    conf.System.pagesize = pagesize
    conf.System.aslr = aslr
    try:
        t = load_program(data, cpu) if cpu is not None else load_program(data)
    finally:
        conf.System.pagesize = old
        conf.System.aslr = olda
    if t is None:
        return None
    return Loaded(t)


def elf_routes():
    """[(table, e_machine)] of every loader for ELF programs in the registry `DefineLoader.LOADERS` that
    `amoco.system.core.load_program` consults ("elf", then the fallback "elf-baremetal", and any further table whose name
    starts with "elf"), read from the registry after load_program has imported its loader packages."""
    setup()
    from amoco.system import core
    try:
        core.load_program(b"\x90\x90\x90\x90")          # its first call imports the loader packages, which register themselves
    except Exception:
        pass
    out = []
    for table, d in core.DefineLoader.LOADERS.items():
        if isinstance(table, str) and table.startswith("elf") and isinstance(d, dict):
            out += [(table, k) for k in d if isinstance(k, int)]
    return sorted(out)


def route_is_first(table, machine):
    """is LOADERS[table][machine] the loader load_program tries first for an ELF of that machine?"""
    from amoco.system.core import DefineLoader
    first = DefineLoader.LOADERS.get("elf", {})
    return table == "elf" or machine not in first


def load_route(data, table, machine, pagesize=4096):
    """the task the loader registered as LOADERS[table][machine] builds for the program: through `load_program` when
    that loader is the first one load_program tries for the machine (or the only one), else — a fallback shadowed by a
    working first loader — by calling the registered loader on `read_program(data)` the way load_program does (an
    exception of the loader means: no task).  → (Loaded | None, how)"""
    conf = setup()
    from amoco.system import core
    old, olda = conf.System.pagesize, conf.System.aslr
    conf.System.pagesize = pagesize
    conf.System.aslr = False
    try:
        if route_is_first(table, machine):
            how = "load_program"
            t = core.load_program(data)
        else:
            how = "registered-loader"
            p = core.read_program(data)
            try:
                t = core.DefineLoader.LOADERS[table][machine](p)
            except Exception:
                t = None
    finally:
        conf.System.pagesize = old
        conf.System.aslr = olda
    if t is None:
        return None, how
    return Loaded(t), how


def loader_name(L):
    """e.g. 'baremetal/tricore' for a task of amoco.system.baremetal.tricore."""
    m = type(L.t).__module__
    if m.startswith("amoco.system."):
        m = m[len("amoco.system."):]
    return m.replace(".", "/")
