"""
C03 helper — decode HISTORIES.

The format language gives `spec.decode(bytes, endian)` a meaning that is a function of (format, bytes,
endian) only.  The single-case correspondences of c03.py decode every (spec, bytes, endian) once, between
unrelated neighbours, so anything the implementation remembers from one decode to the next (a fetched-word
cache, a Bits object mutated in place, state left on the spec object) is invisible to them.  Here we build
short sequences of decodes that are run back to back, with nothing in between, and whose consecutive steps
are *related*: the same bytes under the other fetch endianness, another spec of the same / of a different
bit length on the same bytes (same object or an equal copy), byte strings sharing a head or differing only
in the variable-length tail, the byte-reversed string, plain repeats, and random walks over a small pool
of specs x byte strings x endiannesses.  Every step is judged by the history-free documentation oracle.

A step is a tuple (label, spec, bytes, endian); label is what identifies the spec in a replay file
(["shipped", module, index-in-ISPECS, format] or ["synthetic", format]).
"""
import isa


def head_len(s):
    return s.fix.size // 8


def endians(s, r):
    """fetch endiannesses the property quantifies over for spec s (variable length: little only)"""
    return [1] if s.size == 0 else r.choice([[1, -1], [-1, 1]])


def mutate(bs, k, r):
    if not bs:
        return bs
    k = min(k, len(bs) - 1)
    return bs[:k] + bytes([bs[k] ^ (1 << r.randrange(8))]) + bs[k + 1:]


def some_bytes(s, e, r, minlen=0):
    """mostly accepted by s under e, now and then one bit off / random; at least minlen long"""
    c = r.random()
    if c < 0.8:
        bs = isa.directed_bytes(s, e, r)
    elif c < 0.93:
        bs = mutate(isa.directed_bytes(s, e, r), r.randrange(max(1, head_len(s))), r)
    else:
        bs = bytes(r.getrandbits(8) for _ in range(max(head_len(s), 1) + r.randrange(0, 4)))
    if len(bs) < minlen:
        bs += bytes(r.getrandbits(8) for _ in range(minlen - len(bs)))
    return bs


def copy_of(bs):
    """an equal byte string that is another object (bytes(bs) would return bs itself)"""
    return bytes(bytearray(bs))


KINDS = ["flip", "flip", "flip", "flip-other-spec", "flip-other-spec", "sizes", "sizes", "shared-head",
         "tail", "reversed", "repeat", "walk", "walk"]


def gen_history(r, pool, by_size):
    """pool: list of (label, spec); by_size: {fix.size: [index into pool]}.  Returns (kind, [steps])."""
    kind = r.choice(KINDS)
    l1, s1 = pool[r.randrange(len(pool))]
    n1 = s1.fix.size
    E = endians(s1, r)
    e0 = E[0]
    if kind == "flip":
        # same spec, same bytes, one endianness then the other (then maybe back)
        if len(E) < 2:
            kind = "tail"
        else:
            bs = some_bytes(s1, r.choice(E), r)
            b2 = bs if r.random() < 0.6 else copy_of(bs)
            steps = [(l1, s1, bs, e0), (l1, s1, b2, -e0)]
            if r.random() < 0.4:
                steps.append((l1, s1, bs, e0))
            return kind, steps
    if kind == "flip-other-spec":
        # two specs of the same bit length on the same bytes, endianness flipped or kept
        l2, s2 = pool[r.choice(by_size[n1])]
        E2 = endians(s2, r)
        e2 = -e0 if (-e0 in E2 and r.random() < 0.75) else E2[0]
        who = r.random()
        bs = some_bytes(s1, e0, r) if who < 0.5 else some_bytes(s2, e2, r, minlen=head_len(s1))
        b2 = bs if r.random() < 0.6 else copy_of(bs)
        steps = [(l1, s1, bs, e0), (l2, s2, b2, e2)]
        if r.random() < 0.4:
            steps.append((l1, s1, bs, r.choice(E)))
        return kind, steps
    if kind == "sizes":
        # specs of different bit lengths interleaved on the same byte string
        sizes = [n for n in by_size if n != n1]
        if not sizes:
            kind = "repeat"
        else:
            l2, s2 = pool[r.choice(by_size[r.choice(sizes)])]
            E2 = endians(s2, r)
            need = max(head_len(s1), head_len(s2))
            bs = some_bytes(s1, e0, r, minlen=need) if r.random() < 0.5 else some_bytes(s2, E2[0], r, minlen=need)
            steps = [(l1, s1, bs, e0), (l2, s2, bs, E2[0]), (l1, s1, bs, r.choice(E))]
            if r.random() < 0.5:
                steps.append((l2, s2, copy_of(bs), r.choice(E2)))
            return kind, steps
    if kind == "shared-head":
        # same spec, byte strings that share a proper head (differ in one later byte of the fixed part)
        bs = some_bytes(s1, e0, r)
        k = r.randrange(max(1, head_len(s1)))
        b2 = mutate(bs, k, r)
        e1 = r.choice(E)
        steps = [(l1, s1, bs, e0), (l1, s1, b2, e1), (l1, s1, bs, e0)]
        return kind, steps
    if kind == "tail":
        # same fixed part, different trailing bytes (variable-length tails; trailing garbage for fixed length)
        hd = isa.directed_bytes(s1, e0, r, tail=0)
        tails = [bytes(r.getrandbits(8) for _ in range(r.choice([0, 1, 2, 4, 8, 11, 17]))) for _ in range(3)]
        steps = [(l1, s1, hd + t, e0) for t in tails]
        if r.random() < 0.5:
            steps.append((l1, s1, hd + tails[0], e0))
        return kind, steps
    if kind == "reversed":
        # the byte-reversed fixed part: under the other endianness it is the same word, under the same one another
        bs = some_bytes(s1, e0, r)
        h = head_len(s1)
        rv = bs[:h][::-1] + bs[h:]
        e1 = r.choice(E)
        return kind, [(l1, s1, bs, e0), (l1, s1, rv, e1), (l1, s1, bs, r.choice(E))]
    if kind == "repeat":
        bs = some_bytes(s1, e0, r)
        return kind, [(l1, s1, bs, e0), (l1, s1, bs, e0), (l1, s1, copy_of(bs), e0)]
    # walk: a few specs (same and different lengths) x a few byte strings x endiannesses, random steps
    specs = [(l1, s1), pool[r.choice(by_size[n1])]]
    for _ in range(r.randrange(0, 3)):
        specs.append(pool[r.randrange(len(pool))])
    need = max(head_len(s) for _, s in specs)
    strings = []
    for _ in range(r.randrange(2, 4)):
        l, s = r.choice(specs)
        bs = some_bytes(s, r.choice(endians(s, r)), r, minlen=need)
        strings.append(bs)
        if r.random() < 0.3:
            strings.append(bs[:head_len(s)][::-1] + bs[head_len(s):])
    steps = []
    for _ in range(r.randrange(4, 9)):
        l, s = r.choice(specs)
        steps.append((l, s, r.choice(strings), r.choice(endians(s, r))))
    return "walk", steps


def relation(prev, cur):
    """shape of step `cur` relative to the step decoded just before it (narrow signature of a history failure)"""
    if prev is None:
        return "first-step"
    (lp, sp, bp, ep), (lc, sc, bc, ec) = prev, cur
    hp, hc = head_len(sp), head_len(sc)
    if bp is bc:
        b = "same-bytes-object"
    elif bp == bc:
        b = "equal-bytes"
    elif bp[:hp] == bc[:hc]:
        b = "same-head-other-tail"
    elif bp[:hp][::-1] == bc[:hc]:
        b = "reversed-head"
    elif bp[:1] == bc[:1]:
        b = "shared-first-bytes"
    else:
        b = "other-bytes"
    return "%s,%s,%s,%s" % (b, "same-spec" if sp is sc else ("same-length-spec" if sp.fix.size == sc.fix.size else "other-length-spec"),
                            "endian-flipped" if ep != ec else "endian-kept",
                            "variable-length" if sc.size == 0 else "fixed-length")


def distinguishing(steps, expected):
    """could a remembered earlier step change the outcome of a later one? (expected outcomes not all equal,
    or same key decoded twice with an accept)"""
    seen = []
    for e in expected:
        if e not in seen:
            seen.append(e)
    return len(seen) > 1 or (expected and expected[0] is not None)
