"""
fmt_oracle.py — property-level oracles for C14 / C20, independent of amoco:
  * a Python `struct` reader of ELF images written from the specification;
  * strict Intel-HEX / S-record line parsers and address composition from the format definitions;
  * wrappers around `llvm-readobj` (JSON) used in the thorough tier to validate the struct reader.
"""
import struct, json, subprocess, re


class OracleError(Exception):
    pass


EH32 = [("e_type", "H"), ("e_machine", "H"), ("e_version", "I"), ("e_entry", "I"), ("e_phoff", "I"), ("e_shoff", "I"),
        ("e_flags", "I"), ("e_ehsize", "H"), ("e_phentsize", "H"), ("e_phnum", "H"), ("e_shentsize", "H"),
        ("e_shnum", "H"), ("e_shstrndx", "H")]
EH64 = [(n, "Q" if n in ("e_entry", "e_phoff", "e_shoff") else t) for (n, t) in EH32]
PH32 = ["p_type", "p_offset", "p_vaddr", "p_paddr", "p_filesz", "p_memsz", "p_flags", "p_align"]
PH64 = ["p_type", "p_flags", "p_offset", "p_vaddr", "p_paddr", "p_filesz", "p_memsz", "p_align"]
SH = ["sh_name", "sh_type", "sh_flags", "sh_addr", "sh_offset", "sh_size", "sh_link", "sh_info", "sh_addralign", "sh_entsize"]


def unpack_at(fmt, data, off):
    n = struct.calcsize(fmt)
    if off < 0 or off + n > len(data):
        raise OracleError("short read at %d" % off)
    return struct.unpack(fmt, data[off:off + n])


def cstr(tab, i):
    j = tab.find(b"\0", i)
    if j < 0:
        raise OracleError("unterminated string")
    return tab[i:j]


def read_elf(data):
    """header, every program header, every section header with its name; symbols of SHT_SYMTAB /
    SHT_DYNSYM sections (names through sh_link), relocation and dynamic entries."""
    if len(data) < 16 or data[:4] != b"\x7fELF":
        raise OracleError("magic")
    x64, be = data[4] == 2, data[5] == 2
    o = ">" if be else "<"
    ident = {"ELFMAG0": data[0], "ELFMAG": int.from_bytes(data[1:4], "big"), "EI_CLASS": data[4], "EI_DATA": data[5],
             "EI_VERSION": data[6], "EI_OSABI": data[7], "EI_ABIVERSION": data[8]}
    eh = EH64 if x64 else EH32
    vals = unpack_at(o + "".join(t for _, t in eh), data, 16)
    ehdr = dict(zip([n for n, _ in eh], vals))
    phdr = []
    if ehdr["e_phoff"]:
        for i in range(ehdr["e_phnum"]):
            off = ehdr["e_phoff"] + i * ehdr["e_phentsize"]
            v = unpack_at(o + ("IIQQQQQQ" if x64 else "IIIIIIII"), data, off)
            phdr.append(dict(zip(PH64 if x64 else PH32, v)))
    shdr = []
    if ehdr["e_shoff"]:
        A = "Q" if x64 else "I"
        for i in range(ehdr["e_shnum"]):
            off = ehdr["e_shoff"] + i * ehdr["e_shentsize"]
            v = unpack_at(o + "II" + A * 4 + "II" + A * 2, data, off)
            shdr.append(dict(zip(SH, v)))
    names = None
    n = ehdr["e_shstrndx"]
    if 0 < n < len(shdr) and shdr[n]["sh_type"] == 3:
        tab = data[shdr[n]["sh_offset"]:shdr[n]["sh_offset"] + shdr[n]["sh_size"]]
        names = [cstr(tab, s["sh_name"]) for s in shdr]
    return {"x64": x64, "be": be, "ident": ident, "ehdr": ehdr, "phdr": phdr, "shdr": shdr, "names": names, "o": o}


def section_bytes(data, s):
    return data[s["sh_offset"]:s["sh_offset"] + s["sh_size"]]


def read_syms(data, E, s):
    o, x64 = E["o"], E["x64"]
    b = section_bytes(data, s)
    ent = s["sh_entsize"]
    strs = section_bytes(data, E["shdr"][s["sh_link"]])
    out = []
    for i in range(len(b) // ent if ent else 0):
        if x64:
            nm, info, other, shndx, value, size = unpack_at(o + "IBBHQQ", b, i * ent)
        else:
            nm, value, size, info, other, shndx = unpack_at(o + "IIIBBH", b, i * ent)
        out.append({"st_name": nm, "st_value": value, "st_size": size, "st_info": info, "st_other": other, "st_shndx": shndx,
                    "name": cstr(strs, nm)})
    return out


def read_rels(data, E, s):
    o, x64 = E["o"], E["x64"]
    b = section_bytes(data, s)
    ent = s["sh_entsize"]
    A = "Q" if x64 else "I"
    out = []
    for i in range(len(b) // ent if ent else 0):
        if s["sh_type"] == 4:
            ro, ri, ra = unpack_at(o + A * 3, b, i * ent)
        else:
            ro, ri = unpack_at(o + A * 2, b, i * ent)
        out.append({"r_offset": ro, "r_sym": ri >> (32 if x64 else 8)})
    return out


def expected_symbols(data, E):
    """what a reader of the symbol tables finds: address → (name,size,info,shndx) of the FUNC
    (resp. OBJECT) symbols with a non-zero value of the SHT_SYMTAB section, later entries replacing
    earlier ones at the same address; for dynamically linked files additionally relocation slot →
    name of the dynamic symbol it refers to."""
    funcs, objs = {}, {}
    by_name = {}
    for i, s in enumerate(E["shdr"]):
        if E["names"] is not None:
            by_name.setdefault(E["names"][i], s)
    st = by_name.get(b".symtab")
    if st is not None and st["sh_type"] in (2, 11) and b".strtab" in by_name:
        for y in read_syms(data, E, st):
            if y["st_value"] and (y["st_info"] & 0xf) == 2:
                funcs[y["st_value"]] = [y["name"].hex(), y["st_size"], y["st_info"], y["st_shndx"]]
            if y["st_value"] and (y["st_info"] & 0xf) == 1:
                objs[y["st_value"]] = [y["name"].hex(), y["st_size"], y["st_info"], y["st_shndx"]]
    if any(p["p_type"] == 3 for p in E["phdr"]) and b".dynsym" in by_name and b".dynstr" in by_name:
        dsyms = read_syms(data, E, by_name[b".dynsym"])
        for s in E["shdr"]:
            if s["sh_type"] in (4, 9):
                for rr in read_rels(data, E, s):
                    if rr["r_offset"]:
                        funcs[rr["r_offset"]] = dsyms[rr["r_sym"]]["name"].hex()
    return funcs, objs


def expected_query(E, addr):
    """(kind, index, offset, base, fileoffset) following the file's mapping: sections take
    precedence (the last PROGBITS section containing the address), else PT_LOAD segments by file size."""
    if E["shdr"]:
        for i in range(len(E["shdr"]) - 1, -1, -1):
            s = E["shdr"][i]
            if s["sh_type"] == 1 and s["sh_addr"] <= addr < s["sh_addr"] + s["sh_size"]:
                return ["sec", i], addr - s["sh_addr"], s["sh_addr"], s["sh_offset"] + addr - s["sh_addr"]
        return None, 0, 0, None
    for i in range(len(E["phdr"]) - 1, -1, -1):
        p = E["phdr"][i]
        if p["p_type"] == 1 and p["p_vaddr"] <= addr < p["p_vaddr"] + p["p_filesz"]:
            return ["seg", i], addr - p["p_vaddr"], p["p_vaddr"], p["p_offset"] + addr - p["p_vaddr"]
    return None, 0, 0, None


# ---------------------------------------------------------------------------------------
# llvm-readobj (thorough tier): validates read_elf on the synthesised corpus
# ---------------------------------------------------------------------------------------

def readobj(path):
    p = subprocess.run(["llvm-readobj", "--elf-output-style=JSON", "--file-header", "--program-headers", "--sections", "--symbols", path],
                       stdout=subprocess.PIPE, stderr=subprocess.PIPE, text=True, timeout=60)
    if p.returncode != 0 or not p.stdout.strip():
        return None
    try:
        j = json.loads(p.stdout)
    except ValueError:
        return None
    d = list(j[0].values())[0] if isinstance(j, list) and isinstance(j[0], dict) and len(j[0]) == 1 else j[0]
    return d


def rawv(x):
    if isinstance(x, dict):
        for k in ("RawValue", "Value", "RawFlags"):
            if k in x and not isinstance(x[k], str):
                return x[k]
        return x.get("RawValue", x.get("Value"))
    if isinstance(x, str):
        m = re.search(r"\(0x([0-9a-fA-F]+)\)", x)
        if m:
            return int(m.group(1), 16)
        try:
            return int(x, 0)
        except ValueError:
            return x
    return x


def compare_readobj(E, d):
    """list of aspects where llvm-readobj disagrees with the struct reader"""
    diff = []
    h = d.get("ElfHeader", {})
    pairs = [("e_type", "Type"), ("e_entry", "Entry"), ("e_phoff", "ProgramHeaderOffset"), ("e_shoff", "SectionHeaderOffset"),
             ("e_ehsize", "HeaderSize"), ("e_phentsize", "ProgramHeaderEntrySize"), ("e_phnum", "ProgramHeaderCount"),
             ("e_shentsize", "SectionHeaderEntrySize"), ("e_shnum", "SectionHeaderCount"), ("e_shstrndx", "StringTableSectionIndex"),
             ("e_version", "Version")]
    for a, b in pairs:
        if b in h and rawv(h[b]) != E["ehdr"][a]:
            diff.append("ehdr." + a)
    if "Machine" in h and rawv(h["Machine"]) != E["ehdr"]["e_machine"]:
        diff.append("ehdr.e_machine")
    secs = [x["Section"] for x in d.get("Sections", [])]
    if len(secs) != len(E["shdr"]):
        diff.append("shnum")
    else:
        m = [("sh_name", "Name"), ("sh_type", "Type"), ("sh_flags", "Flags"), ("sh_addr", "Address"), ("sh_offset", "Offset"),
             ("sh_size", "Size"), ("sh_link", "Link"), ("sh_info", "Info"), ("sh_addralign", "AddressAlignment"), ("sh_entsize", "EntrySize")]
        for i, (s, x) in enumerate(zip(E["shdr"], secs)):
            for a, b in m:
                if rawv(x[b]) != s[a]:
                    diff.append("shdr[%d].%s" % (i, a))
            if E["names"] is not None and isinstance(x["Name"], dict):
                nm = x["Name"].get("Value", "")
                if nm.encode("utf-8", "surrogateescape") != E["names"][i] and E["names"][i].isascii():
                    diff.append("shdr[%d].name" % i)
    phs = [x["ProgramHeader"] for x in d.get("ProgramHeaders", [])]
    if len(phs) != len(E["phdr"]):
        diff.append("phnum")
    else:
        m = [("p_type", "Type"), ("p_offset", "Offset"), ("p_vaddr", "VirtualAddress"), ("p_paddr", "PhysicalAddress"),
             ("p_filesz", "FileSize"), ("p_memsz", "MemSize"), ("p_flags", "Flags"), ("p_align", "Alignment")]
        for i, (p, x) in enumerate(zip(E["phdr"], phs)):
            for a, b in m:
                if rawv(x[b]) != p[a]:
                    diff.append("phdr[%d].%s" % (i, a))
    return diff


# ---------------------------------------------------------------------------------------
# Intel HEX / S-record by the book
# ---------------------------------------------------------------------------------------

HEXRE = re.compile(rb"^:([0-9A-Fa-f]{2})([0-9A-Fa-f]{4})([0-9A-Fa-f]{2})((?:[0-9A-Fa-f]{2})*)([0-9A-Fa-f]{2})$")


def hex_record(line):
    """strict reading of one Intel HEX record: ('ok', rec) | ('cksum', None) | ('malformed', None)"""
    m = HEXRE.match(line.strip(b" \t\r\n\x0b\x0c"))
    if not m:
        return "malformed", None
    count, addr, code = int(m.group(1), 16), int(m.group(2), 16), int(m.group(3), 16)
    data = bytes.fromhex(m.group(4).decode())
    ck = int(m.group(5), 16)
    if len(data) != count:
        return "malformed", None
    if code in (2, 4) and count != 2 or code in (3, 5) and count != 4:
        return "malformed", None
    if (count + (addr >> 8) + (addr & 0xff) + code + sum(data) + ck) & 0xff != 0:
        return "cksum", None
    return "ok", {"count": count, "address": addr, "code": code, "data": data.hex(), "cksum": ck}


def hex_addresses(recs):
    """(absolute address, data) of the data records: the most recent extension record decides."""
    mode, base = "plain", 0
    out = []
    for rec in recs:
        d = bytes.fromhex(rec["data"])
        if rec["code"] == 2:
            mode, base = "seg", int.from_bytes(d, "big")
        elif rec["code"] == 4:
            mode, base = "lin", int.from_bytes(d, "big")
        elif rec["code"] == 0:
            a = rec["address"] + (base * 16 if mode == "seg" else (base << 16) if mode == "lin" else 0)
            out.append([a, rec["data"]])
    return out


SRECRE = re.compile(rb"^S([0-9])([0-9A-Fa-f]{2})((?:[0-9A-Fa-f]{2})*)([0-9A-Fa-f]{2})$")
SREC_AB = {0: 2, 1: 2, 2: 3, 3: 4, 5: 2, 6: 3, 7: 4, 8: 3, 9: 2}


def srec_record(line):
    m = SRECRE.match(line.strip(b" \t\r\n\x0b\x0c"))
    if not m:
        return "malformed", None
    t, count = int(m.group(1)), int(m.group(2), 16)
    body = bytes.fromhex(m.group(3).decode())
    ck = int(m.group(4), 16)
    if t not in SREC_AB or count != len(body) + 1:
        return "malformed", None
    ab = SREC_AB[t]
    if t in (5, 6):
        ab = len(body)
    if len(body) < ab:
        return "malformed", None
    if (count + sum(body) + ck) & 0xff != 0xff:
        return "cksum", None
    return "ok", {"type": t, "count": count, "address": int.from_bytes(body[:ab], "big"), "data": body[ab:].hex(), "cksum": ck}


def oracle_layouts():
    """(name, offset, size) tables of the ELF structures computed with `struct.calcsize` from the
    format strings the reader above uses (standard sizes, no implicit padding)."""
    def lay(fields, base=0):
        out, off = [], base
        for n, t in fields:
            sz = struct.calcsize("<" + t)
            out.append([n, off, sz])
            off += sz
        return out
    A = {False: "I", True: "Q"}
    L = {"IDENT": lay([("ELFMAG0", "B"), ("ELFMAG", "3s"), ("EI_CLASS", "B"), ("EI_DATA", "B"), ("EI_VERSION", "B"),
                       ("EI_OSABI", "B"), ("EI_ABIVERSION", "B"), ("unused", "7s")])}
    for x64 in (False, True):
        k = "64" if x64 else "32"
        a = A[x64]
        L["Ehdr" + k] = lay(EH64 if x64 else EH32, 16)
        L["Phdr" + k] = lay([(n, "I" if n in ("p_type", "p_flags") else a) for n in (PH64 if x64 else PH32)])
        L["Shdr" + k] = lay([(n, "I" if n in ("sh_name", "sh_type", "sh_link", "sh_info") else a) for n in SH])
        if x64:
            L["Sym64"] = lay([("st_name", "I"), ("st_info", "B"), ("st_other", "B"), ("st_shndx", "H"), ("st_value", "Q"), ("st_size", "Q")])
        else:
            L["Sym32"] = lay([("st_name", "I"), ("st_value", "I"), ("st_size", "I"), ("st_info", "B"), ("st_other", "B"), ("st_shndx", "H")])
        L["Rel" + k] = lay([("r_offset", a), ("r_info", a)])
        L["Rela" + k] = lay([("r_offset", a), ("r_info", a), ("r_addend", a)])
        L["Dyn" + k] = lay([("d_tag", a), ("d_un", a)])
    return L


# ---------------------------------------------------------------------------------------
# PE / Mach-O headers by the book
# ---------------------------------------------------------------------------------------

NT_F = ["Signature", "Machine", "NumberOfSections", "TimeDateStamp", "PointerToSymbolTable", "NumberOfSymbols",
        "SizeOfOptionalHeader", "Characteristics"]
OPT32 = ["Magic", "MajorLinkerVersion", "MinorLinkerVersion", "SizeOfCode", "SizeOfInitializedData", "SizeOfUninitializedData",
         "AddressOfEntryPoint", "BaseOfCode", "BaseOfData", "ImageBase", "SectionAlignment", "FileAlignment",
         "MajorOperatingSystemVersion", "MinorOperatingSystemVersion", "MajorImageVersion", "MinorImageVersion",
         "MajorSubsystemVersion", "MinorSubsystemVersion", "Win32VersionValue", "SizeOfImage", "SizeOfHeaders", "CheckSum",
         "Subsystem", "DllCharacteristics", "SizeOfStackReserve", "SizeOfStackCommit", "SizeOfHeapReserve", "SizeOfHeapCommit",
         "LoaderFlags", "NumberOfRvaAndSizes"]
OPT64 = [n for n in OPT32 if n != "BaseOfData"]
SEC_F = ["Name", "VirtualSize", "RVA", "SizeOfRawData", "PointerToRawData", "PointerToRelocations", "PointerToLineNumbers",
         "NumberOfRelocations", "NumberOfLineNumbers", "Characteristics"]


def read_pe(data):
    if data[:2] != b"MZ" or len(data) < 64:
        raise OracleError("MZ")
    lfanew = unpack_at("<I", data, 60)[0]
    nt = dict(zip(NT_F, unpack_at("<IHHIIIHH", data, lfanew)))
    if nt["Signature"] != 0x4550:
        raise OracleError("PE signature")
    o = lfanew + 24
    magic = unpack_at("<H", data, o)[0]
    if magic == 0x20b:
        opt = dict(zip(OPT64, unpack_at("<HBBIIIIIQIIHHHHHHIIIIHHQQQQII", data, o)))
        dd = o + 112
    else:
        opt = dict(zip(OPT32, unpack_at("<HBBIIIIIIIIIHHHHHHIIIIHHIIIIII", data, o)))
        dd = o + 96
    dirs = [list(unpack_at("<II", data, dd + 8 * i)) for i in range(min(opt["NumberOfRvaAndSizes"], 16))]
    so = o + nt["SizeOfOptionalHeader"]
    secs = []
    for i in range(nt["NumberOfSections"]):
        v = unpack_at("<8sIIIIIIHHI", data, so + 40 * i)
        d = dict(zip(SEC_F, v))
        d["Name"] = d["Name"].hex()
        secs.append(d)
    return {"e_lfanew": lfanew, "NT": nt, "Opt": opt, "dirs": dirs, "sections": secs,
            "entry": opt["AddressOfEntryPoint"] + opt["ImageBase"]}


def read_macho(data):
    magic = unpack_at("<I", data, 0)[0]
    if magic == 0xFEEDFACF:
        names = ["magic", "cputype", "cpusubtype", "filetype", "ncmds", "sizeofcmds", "flags", "reserved"]
        hdr = dict(zip(names, unpack_at("<IIIIIIII", data, 0)))
        off = 32
    elif magic == 0xFEEDFACE:
        names = ["magic", "cputype", "cpusubtype", "filetype", "ncmds", "sizeofcmds", "flags"]
        hdr = dict(zip(names, unpack_at("<IiiIIII", data, 0)))
        off = 28
    else:
        raise OracleError("magic")
    cmds = []
    end = off + hdr["sizeofcmds"]
    while off < end:
        cmd, size = unpack_at("<II", data, off)
        c = {"cmd": cmd, "cmdsize": size}
        if cmd in (0x1, 0x19):
            q = cmd == 0x19
            v = unpack_at("<16sQQQQiiII" if q else "<16sIIIIiiII", data, off + 8)
            c.update(dict(zip(["segname", "vmaddr", "vmsize", "fileoffset", "filesize", "maxprot", "initprot", "nsects", "flags"], v)))
            c["segname"] = c["segname"].hex()
            so = off + 8 + (64 if q else 48)
            secs = []
            for k in range(c["nsects"]):
                if q:
                    w = unpack_at("<16s16sQQII", data, so)
                    so += 80
                else:
                    w = unpack_at("<16s16sIIII", data, so)
                    so += 68
                secs.append({"sectname": w[0].hex(), "segname": w[1].hex(), "addr": w[2], "size_": w[3], "offset": w[4], "align": w[5]})
            c["sections"] = secs
        if size < 8:
            raise OracleError("cmdsize")
        cmds.append(c)
        off += size
    return {"header": hdr, "cmds": cmds}
