"""
struct_real.py — drives the real amoco.system.structs code for C16 and canonicalises what it
returns (same value encoding as the Lean driver and the oracle).
"""
import math, struct
import struct_oracle as O


def build(env):
    """create the real classes of all definitions of `env` in order; returns {name: class}.
    An exception while defining propagates."""
    from amoco.system.structs import StructFactory, UnionFactory, TypeDefine
    out = {}
    for name, d in env.items():
        kargs = {}
        if d.get("order"):
            kargs["order"] = d["order"]
        if d["kind"] == "typedef":
            out[name] = TypeDefine(name, d["base"], d.get("tdcount", 0))
        elif d["kind"] == "union":
            if d.get("packed"):
                kargs["packed"] = True
            out[name] = UnionFactory(name, d["src"], **kargs)
        else:
            if d.get("packed"):
                kargs["packed"] = True
            out[name] = StructFactory(name, d["src"], **kargs)
    return out


def reflect_fields(cls):
    """[class, typename, name|subnames, order, count|subsizes|sign] per field of the real class"""
    out = []
    for f in cls.fields:
        cn = type(f).__name__
        if cn in ("BitField", "BitFieldEx"):
            out.append([cn, f.typename, list(f.subnames), f.order, list(f.subsizes)])
        elif cn == "Leb128Field":
            out.append([cn, None, f.name, f.order, f.sign < 0])
        else:
            out.append([cn, f.typename, f.name, f.order, f.count])
    return out


def num(x):
    if isinstance(x, float):
        if math.isinf(x) or math.isnan(x):
            return None
        if x == int(x):
            return int(x)
    return x


def offsets_canon(offs):
    """real offsets() → comparable list: [o, size|None] or ["bitf", float, float]"""
    out = []
    for o, s in offs:
        if isinstance(o, float) and not (math.isinf(o) or math.isnan(o)) and (o != int(o) or isinstance(s, float) and s < 1 and s > 0):
            out.append(["bitf", o, s])
        elif isinstance(s, float) and 0 < s < 1:
            out.append(["bitf", float(o), s])
        else:
            out.append([num(o), num(s)])
    return out


def offsets_cut(offs):
    """offsets after a member of infinite size are inf/nan in the code and not modelled: cut there"""
    out = []
    for e in offs:
        out.append(e)
        if e[0] != "bitf" and e[1] is None:
            break
    return out


def offsets_model(entries):
    """model entries → same form (bit entries through the code's own float formula)"""
    out = []
    for e in entries:
        if e and e[0] == "bit":
            _, o, oo, x = e
            out.append(["bitf", float("%d.%d" % (o, oo)), float(".%d" % x)])
        else:
            out.append([e[0], e[1]])
    return out


def canon_value(v, f, d, env, ps):
    """canonical form of the real value `v` of field `f` (of definition d)"""
    from amoco.system.structs.core import StructCore
    k = f["k"]
    if v is None:
        return None
    if isinstance(v, StructCore):
        return canon_inst(v, f["ty"], env, ps)
    if isinstance(v, (bytes, bytearray)):
        return {"b": bytes(v).hex()}
    if isinstance(v, (list, tuple)):
        if k == "nest":
            td = env[f["ty"]]
            return [canon_typed(x, f["ty"], env, ps) for x in v]
        return [canon_value(x, f, d, env, ps) for x in v]
    if k == "nest":
        # the value of a typedef chain
        return canon_typed(v, f["ty"], env, ps)
    if isinstance(v, float):
        o = O.order_of(f, d)
        return int.from_bytes(struct.pack(o + f["t"], v), "big" if o == ">" else "little")
    if isinstance(v, bool):
        return int(v)
    if isinstance(v, int):
        return v
    return repr(v)


def canon_typed(v, tyname, env, ps):
    """value of (one element of) a nested type"""
    from amoco.system.structs.core import StructCore
    td = env[tyname]
    if isinstance(v, StructCore):
        # the instance is of the aggregate a typedef chain ends in
        while env[tyname]["kind"] == "typedef" and env[tyname]["fields"][0]["k"] == "nest":
            tyname = env[tyname]["fields"][0]["ty"]
        return canon_inst(v, tyname, env, ps)
    if td["kind"] == "typedef":
        f = td["fields"][0]
        return canon_value(v, f, td, env, ps)
    return repr(v)


def canon_inst(inst, name, env, ps):
    d = env[name]
    ns = {}
    vals = dict(inst._v.__dict__)
    for f in d["fields"]:
        if f["k"] in ("bits", "bitsEx"):
            for nm, _ in f["subs"]:
                if nm in vals:
                    ns[nm] = vals[nm]
        else:
            nm = f["name"]
            if nm in vals:
                v = vals[nm]
                if f["k"] == "nest" and f["count"] == 0:
                    ns[nm] = canon_typed(v, f["ty"], env, ps)
                else:
                    ns[nm] = canon_value(v, f, d, env, ps)
    try:
        ln = len(inst)
    except Exception as e:
        ln = "raise:" + type(e).__name__
    return {"i": ns, "len": ln}


def run_layout(cls, ps):
    """size / align_value / offsets of a fresh instance"""
    out = {}
    for key, fn in (("size", lambda: num(cls.size(ps))), ("align", lambda: cls.align_value(ps)),
                    ("offsets", lambda: offsets_cut(offsets_canon(cls().offsets(ps))))):
        try:
            out[key] = fn()
        except Exception as e:
            out[key] = "raise:" + type(e).__name__
    return out


def run_unpack(cls, name, env, ps, data, off):
    """unpack + what the instance says afterwards + pack"""
    d = env[name]
    out = {}
    try:
        inst = cls()
        res = inst.unpack(data, off, ps)
    except Exception as e:
        return {"ok": False, "exc": type(e).__name__}
    out["ok"] = True
    if d["kind"] == "typedef":
        out["value"] = canon_value(res, d["fields"][0], d, env, ps)
        out["len"] = None
        out["offsets"] = None
        try:
            out["packed"] = cls().pack([res], ps).hex()
        except Exception as e:
            out["packed"] = None
            out["pack_exc"] = type(e).__name__
        return out
    out["value"] = canon_inst(inst, name, env, ps)
    out["len"] = out["value"]["len"]
    try:
        out["offsets"] = offsets_canon(inst.offsets(ps))
    except Exception as e:
        out["offsets"] = "raise:" + type(e).__name__
    oo = []
    for f in d["fields"]:
        if f["k"] in ("bits", "bitsEx"):
            continue
        try:
            oo.append([f["name"], num(inst.offset_of(f["name"], ps))])
        except Exception as e:
            oo.append([f["name"], None])
    out["offset_of"] = oo
    try:
        out["packed"] = inst.pack(None, ps).hex()
    except Exception as e:
        out["packed"] = None
        out["pack_exc"] = type(e).__name__
    return out
