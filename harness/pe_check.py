"""
pe_check.py — PE half of C14 and C20: the header stage of `amoco.system.pe.PE.__init__` (DOS header → NT
signature → COFF header → optional header + data directories → section table) and `locate`/`getfileoffset`
against the Lean model `Amoco/Model/Pe.lean` (driver `drv_pe`) and a struct-based by-the-book reader.

  run_c14(ck, tier, corr)   field-level correspondence real = model (= Lean reference reader on PeWF images)
                            and property oracle real = struct reader;
  run_c20(ck, tier, corr)   outcome classes: the full real constructor raises only PEError/StructureError, its
                            header stage raises exactly the class the model says, entries parsed are bounded.

The header stage of the real constructor is run as `PE` itself with the three body methods that follow the
section loop (`__functions`, `__variables`, `__tls`) stubbed in a subclass; the *full* constructor is run too.
Cases come from a grammar (PE32 / PE32+, 0..N sections, odd SizeOfOptionalHeader, e_lfanew at odd places,
NumberOfRvaAndSizes 0..16+, unknown magics), truncation at every structure boundary −1/0/+1, one field at a time
set to boundary values, the PE samples of /repo/tests/samples and corruptions of their first 4 KiB.
"""
import os, sys, struct, json, glob
from common import *
import fmt_real as R
import fmt_oracle as O
import fmt_gen as G

from amoco.system.core import DataIO
from amoco.system import pe as PEM
from amoco.system.structs import StructureError

TARGETS = ["Amoco.Props.C14Pe", "drv_pe"]
FORMAT = ("PEError", "StructureError")


class HdrPE(PEM.PE):
    """the real constructor with the stages after the section table stubbed"""
    def _PE__functions(self):
        return {}

    def _PE__variables(self):
        return {}

    def _PE__tls(self):
        return None


# ---------------------------------------------------------------------------------------
# real side
# ---------------------------------------------------------------------------------------

def _val(v):
    if isinstance(v, (bytes, bytearray)):
        return int.from_bytes(bytes(v), "big")
    if isinstance(v, tuple):
        return int.from_bytes(bytes((x & 0xff) for x in v), "big") if v else 0
    return v


def real_dump(p, addrs):
    nt = {f.name: _val(getattr(p.NT, f.name)) for f in p.NT.fields}
    opt = {f.name: _val(getattr(p.Opt, f.name)) for f in p.Opt.fields}
    names = ("ExportTable", "ImportTable", "ResourceTable", "ExceptionTable", "CertificateTable", "BaseRelocationTable", "Debug",
             "Architecture", "GlobalPtr", "TLSTable", "LoadConfigTable", "BoundImport", "IAT", "DelayImportDescriptor",
             "CLRRuntimeHeader", "Reserved")
    dd = p.Opt.DataDirectories
    dirs = [[dd[n].RVA, dd[n].Size] for n in names if n in dd]
    if len(dirs) != len(dd) or list(dd.keys()) != list(names[:len(dd)]):
        dirs = {"keys": list(dd.keys())}
    secs = [{f.name: _val(getattr(s, f.name)) for f in s.fields} for s in p.sections]
    q = []
    for a in addrs:
        row = [a]
        for absolute in (True, False):
            try:
                s, off = p.locate(a, absolute)
                if s is None:
                    row.append(None)
                elif isinstance(s, int):
                    row.append(["hdr", off])
                else:
                    row.append(["sec", [i for i, x in enumerate(p.sections) if x is s][0], off])
            except Exception as e:
                row.append({"exn": R.exn_name(e)})
        try:
            row.append(p.getfileoffset(a))
        except Exception as e:
            row.append({"exn": R.exn_name(e)})
        q.append(row)
    return {"e_lfanew": p.DOS.e_lfanew, "plus": opt.get("Magic") == 0x20b and "BaseOfData" not in opt, "NT": nt, "Opt": opt,
            "dirs": dirs, "sections": secs, "basemap": p.basemap, "entry": p.Opt.AddressOfEntryPoint + p.basemap, "queries": q}


def real_header(data, addrs=(), timeout=10.0):
    try:
        p = R.with_timeout(timeout, HdrPE, DataIO(data))
    except R.Timeout:
        return {"exn": "timeout", "site": "?"}
    except Exception as e:
        ctx = e.__context__
        return {"exn": R.exn_name(e), "site": R.raising_site(e), "inner": R.exn_name(ctx) if ctx is not None else None}
    return {"ok": real_dump(p, addrs)}


def real_full(data, timeout=3.0):
    try:
        p = R.with_timeout(timeout, PEM.PE, DataIO(data))
    except R.Timeout:
        return {"exn": "timeout", "site": "?"}
    except Exception as e:
        return {"exn": R.exn_name(e), "site": R.raising_site(e)}
    return {"ok": len(p.sections)}


# ---------------------------------------------------------------------------------------
# independent struct reader (extends fmt_oracle.read_pe with the RVA mapping)
# ---------------------------------------------------------------------------------------

def oracle(data, addrs=()):
    """("ok", dump) | ("format", why): what the file encodes at the specification's offsets"""
    try:
        d = O.read_pe(data)
    except (O.OracleError, struct.error) as e:
        return ("format", str(e))
    d["plus"] = d["Opt"]["Magic"] == 0x20b
    d["basemap"] = d["Opt"]["ImageBase"]
    for s in d["sections"]:
        s["Name"] = int(s["Name"], 16) if s["Name"] else 0
    q = []
    for a in addrs:
        rva = a - d["basemap"]
        hit = None
        for i, s in enumerate(d["sections"]):
            if s["Characteristics"] != 0x800 and s["RVA"] <= rva < s["RVA"] + s["VirtualSize"]:
                hit = (i, s)
                break
        q.append([a, None if hit is None else hit[1]["PointerToRawData"] + rva - hit[1]["RVA"]])
    d["fileoffsets"] = q
    return ("ok", d)


# ---------------------------------------------------------------------------------------
# generators
# ---------------------------------------------------------------------------------------

OPT32 = "<HBBIIIIIIIIIHHHHHHIIIIHHIIIIII"
OPT64 = "<HBBIIIIIQIIHHHHHHIIIIHHQQQQII"


def field_map(fmt, base):
    """[(offset, size)] of a little-endian struct format without padding"""
    out, o = [], base
    for c in fmt[1:]:
        n = struct.calcsize("<" + c)
        out.append((o, n))
        o += n
    return out


def gen_pe(r, big=False):
    """a PE image from the grammar; returns (bytes, meta) with meta["fields"] = [(label, off, size)] and
    meta["bounds"] = structure boundaries"""
    plus = r.random() < 0.5
    magic = 0x20b if plus else 0x10b
    if r.random() < 0.06:
        magic = r.choice([0x107, 0, 0x10c, 0x20a, 0x30b, 0x0b02, 0xffff])
        plus = False
    lfanew = r.choice([64, 64, 0x80, 0xe8, 0x100, 65, 67, 0x7d, 0x101, 0x3c, 0x40 + r.randrange(200)])
    nsec = r.choice([0, 1, 1, 2, 3, 5, 8, r.randrange(12)]) if not big else r.choice([16, 40, 96, 200])
    ndirs_field = r.choice([16, 16, 16, 16, 10, 2, 0, 1, 15, 17, 20, 255, r.randrange(17)])
    ndirs = min(ndirs_field, 16)
    fixed = 112 if plus else 96
    optpad = r.choice([0, 0, 0, 8, 16, 1, 3, 7, 40, -8, -4, -1])
    optsize = max(0, fixed + ndirs * 8 + optpad)
    base = r.choice([0x400000, 0x10000000, 0x140000000 if plus else 0x1000000, 0, 0xffff0000])
    falign, salign = 0x200, 0x1000
    dos = b"MZ" + bytes(r.getrandbits(8) for _ in range(58)) + struct.pack("<I", lfanew)
    if lfanew < 64:
        stub = b""
    else:
        stub = bytes(r.getrandbits(8) for _ in range(lfanew - 64))
    hdrs_end = lfanew + 24 + max(optsize, fixed + 8 * ndirs) + 40 * nsec
    sizeofheaders = (hdrs_end + falign - 1) // falign * falign
    secs, raw, rva = [], sizeofheaders, salign
    for i in range(nsec):
        vs = r.choice([1, 0x10, 0x234, 0x1000, 0x1800, 0])
        rs = (min(vs, 0x400) + falign - 1) // falign * falign if r.random() < 0.85 else 0
        name = r.choice([b".text", b".data", b".rdata", b".rsrc", b".reloc", b"UPX0", b".bss", b"\xff\xfe/4", b"12345678"]).ljust(8, b"\0")
        ch = r.choice([0x60000020, 0xC0000040, 0x40000040, 0xC0000080, 0x800, 0x800, 0x60000820])
        secs.append((name, vs, rva, rs, raw if rs else 0, 0, 0, r.choice([0, 0, 3]), 0, ch))
        raw += rs
        rva += (max(vs, 1) + salign - 1) // salign * salign if r.random() < 0.9 else 0x10      # sometimes overlapping sections
    entry = (secs[0][2] + r.randrange(max(secs[0][1], 1))) if secs else 0
    coff = struct.pack("<IHHIIIHH", 0x4550, 0x8664 if plus else 0x14c, nsec, r.getrandbits(32), 0, 0, optsize & 0xffff, r.choice([0x102, 0x22, 0x2102]))
    common_ = [14, r.getrandbits(8), 0x1000, 0x800, 0, entry, salign]
    tail = [salign, falign, 6, 0, 0, 0, 6, 0, 0, rva, sizeofheaders, r.getrandbits(32), r.choice([2, 3]), r.choice([0x8160, 0x140, 0])]
    if plus:
        o = struct.pack(OPT64, magic, *common_, base, *tail, 0x100000, 0x1000, 0x100000 + (r.getrandbits(8) << 32), 0x1000, 0, ndirs_field)
    else:
        o = struct.pack(OPT32, magic, *common_, 0x2000, base & 0xffffffff, *tail, 0x100000, 0x1000, 0x100000, 0x1000, 0, ndirs_field)
    dirs = b"".join(struct.pack("<II", r.choice([0, 0x1000 + 8 * i]), r.choice([0, 0x28])) for i in range(ndirs))
    body = o + dirs
    if optsize >= len(body):
        body = body + bytes(r.getrandbits(8) for _ in range(optsize - len(body)))
        st_at = lfanew + 24 + optsize
        pre = dos + stub + coff + body
    else:
        # SizeOfOptionalHeader smaller than what is parsed: the section table overlaps the optional header
        st_at = lfanew + 24 + optsize
        pre = dos + stub + coff + body
    st = b"".join(struct.pack("<8sIIIIIIHHI", *s) for s in secs)
    out = bytearray(pre)
    if len(out) < st_at + len(st):
        out += b"\0" * (st_at + len(st) - len(out))
    if optsize >= len(o + dirs):
        out[st_at:st_at + len(st)] = st
    if len(out) < sizeofheaders:
        out += b"\0" * (sizeofheaders - len(out))
    for s in secs:
        out += bytes(r.getrandbits(8) for _ in range(min(s[3], 0x200)))
    if lfanew < 64:
        # e_lfanew inside the DOS header: the NT headers overlap it; rewrite the pieces in order
        out = bytearray(out)
        out[lfanew:lfanew + 24] = coff
        out[0:2] = b"MZ"
        out[60:64] = struct.pack("<I", lfanew)
    ob = lfanew + 24
    fields = [("dos.e_lfanew", 60, 4), ("dos.e_magic", 0, 2)]
    fields += [("nt.%d" % i, off, n) for i, (off, n) in enumerate(field_map("<IHHIIIHH", lfanew))]
    fields += [("opt.%d" % i, off, n) for i, (off, n) in enumerate(field_map(OPT64 if plus else OPT32, ob))]
    fields += [("dir.%d" % i, ob + fixed + 4 * i, 4) for i in range(2 * ndirs)]
    for k in range(nsec):
        fields += [("sec%d.%d" % (k, i), off, n) for i, (off, n) in enumerate(field_map("<QIIIIIIHHI", st_at + 40 * k))]
    bounds = sorted(set([0, 2, 60, 64, lfanew, lfanew + 4, lfanew + 24, ob + 2, ob + fixed - 4, ob + fixed, ob + fixed + 8 * ndirs, st_at] +
                        [ob + fixed + 8 * i for i in range(ndirs)] + [st_at + 40 * k for k in range(nsec + 1)] + [len(out)]))
    meta = {"plus": plus, "magic": magic, "nsec": nsec, "lfanew": lfanew, "ndirs": ndirs_field, "optpad": optpad, "base": base,
            "fields": fields, "bounds": bounds,
            "valid": magic in (0x10b, 0x20b) and ndirs_field <= 16 and optpad >= 0 and lfanew >= 64}
    return bytes(out), meta


def addrs_for(r, data, k=6):
    """query addresses: around the section starts/ends (absolute), inside the headers, far away"""
    st, d = oracle(data)
    if st != "ok":
        return []
    base = d["basemap"]
    out = [base, base + 5, base - 1, 5]
    for s in d["sections"][:4]:
        out += [base + s["RVA"], base + s["RVA"] + s["VirtualSize"] - 1, base + s["RVA"] + s["VirtualSize"], base + s["RVA"] - 1,
                s["RVA"] + (s["VirtualSize"] // 2)]
    out.append(base + d["Opt"]["SizeOfImage"])
    out.append(base + d["Opt"]["SizeOfImage"] - 1)
    r.shuffle(out)
    return out[:k + 4]


def field_values(size, old, n):
    top = (1 << (8 * size)) - 1
    vals = [0, 1, 0xffff, 0xffffffff, top, old + 1, old - 1, n, n - 1, 0x10b, 0x20b, 16, 17, 0x800, 0x7fffffff, 0x80000000]
    out = []
    for v in vals:
        v &= top
        if v != old and v not in out:
            out.append(v)
    return out


def sample_files():
    out = []
    for f in sorted(glob.glob(os.path.join(REPO, "tests", "samples", "**", "*"), recursive=True)):
        if os.path.isfile(f):
            try:
                with open(f, "rb") as h:
                    if h.read(2) == b"MZ":
                        out.append(f)
            except OSError:
                pass
    return out


def sample_fields(b):
    try:
        lf = struct.unpack("<I", b[60:64])[0]
        if lf + 26 > len(b):
            return [("dos.e_lfanew", 60, 4)]
        plus = b[lf + 24:lf + 26] == b"\x0b\x02"
        nsec, soh = struct.unpack("<H", b[lf + 6:lf + 8])[0], struct.unpack("<H", b[lf + 20:lf + 22])[0]
        F = [("dos.e_lfanew", 60, 4)] + [("nt.%d" % i, o, n) for i, (o, n) in enumerate(field_map("<IHHIIIHH", lf))]
        F += [("opt.%d" % i, o, n) for i, (o, n) in enumerate(field_map(OPT64 if plus else OPT32, lf + 24))]
        F += [("dir.%d" % i, lf + 24 + (112 if plus else 96) + 4 * i, 4) for i in range(32)]
        for k in range(min(nsec, 8)):
            F += [("sec%d.%d" % (k, i), o, n) for i, (o, n) in enumerate(field_map("<QIIIIIIHHI", lf + 24 + soh + 40 * k))]
        return [f for f in F if f[1] + f[2] <= len(b)]
    except struct.error:
        return []


def corpus(r, quick):
    """yield (origin, bytes, meta)"""
    # thorough: bounded so that the whole corpus (kept in memory for the batched driver calls) stays around 1 GB:
    # every field of small images, a sample of 120 fields of the big (up to 200 sections) ones
    nbase = 22 if quick else 100
    per_field = 10 if quick else 30
    for i in range(nbase):
        b, m = gen_pe(r, big=(not quick and i % 25 == 0))
        fields, bounds = m.pop("fields"), m.pop("bounds")
        yield "synth", b, m
        for cut in bounds:
            for d in (-1, 0, 1):
                c = cut + d
                if 0 <= c < len(b):
                    yield "trunc", b[:c], dict(m, cut=c)
        fs = fields if len(fields) <= per_field * 4 else [fields[j] for j in sorted(r.sample(range(len(fields)), per_field * 4))]
        turn = r.randrange(64)
        for (lab, off, size) in fs:
            if off + size > len(b):
                continue
            old = int.from_bytes(b[off:off + size], "little")
            vals = field_values(size, old, len(b))
            if quick:
                vals = [vals[(turn + j) % len(vals)] for j in range(2)]
                turn += 2
            for v in vals:
                bb = bytearray(b)
                bb[off:off + size] = v.to_bytes(size, "little")
                yield "field", bytes(bb), dict(m, field=lab, off=off, value=v)
    for _ in range(5 if quick else 60):
        b, m = G.synth_pe(r)
        yield "synth-fmtgen", b, dict(m, valid=True)
    for f in sample_files():
        b = open(f, "rb").read()
        rel = os.path.relpath(f, REPO)
        yield "sample", b, {"file": rel}
        head = b[:4096]
        F = sample_fields(head)
        lf = struct.unpack("<I", head[60:64])[0] if len(head) >= 64 else 0
        for c in sorted(set([1, 2, 59, 60, 63, 64, 65, lf - 1, lf, lf + 1, lf + 3, lf + 4, lf + 23, lf + 24, lf + 25, lf + 26, lf + 119, lf + 120,
                             lf + 121, lf + 24 + 95, lf + 24 + 96, lf + 24 + 97, lf + 247, lf + 248, lf + 249])):
            if 0 <= c < len(head):
                yield "sample-trunc", head[:c], {"file": rel, "cut": c}
        k = 60 if quick else len(F)
        for (lab, off, size) in ([F[j] for j in sorted(r.sample(range(len(F)), min(k, len(F))))] if F else []):
            old = int.from_bytes(head[off:off + size], "little")
            vals = field_values(size, old, len(head))
            for v in (vals[:2] if quick else vals):
                bb = bytearray(head)
                bb[off:off + size] = v.to_bytes(size, "little")
                yield "sample-field", bytes(bb), {"file": rel, "field": lab, "off": off, "value": v}
    for _ in range(30 if quick else 600):
        n = r.choice([0, 1, 2, 3, 63, 64, 65, 100, 300])
        yield "random", (b"MZ" if r.random() < 0.8 else b"") + bytes(r.getrandbits(8) for _ in range(n)), {}


# ---------------------------------------------------------------------------------------
# build / driver
# ---------------------------------------------------------------------------------------

_state = {}


def build(ck):
    """lake build + axiom audit of the PE modules; returns a Driver or None (build broken)"""
    ok, out = lake_build(TARGETS)
    ck.oblige("lake build " + " ".join(TARGETS), ok, "" if ok else out[-3000:])
    bad = []
    if ok:
        thms, bad = audit("C14Pe")
        for t in thms:
            ck.oblige("theorem " + t, not any(t in b for b in bad))
        for b in bad:
            ck.oblige("audit C14Pe", False, b)
    _state["build"] = (ok, out, bad)
    if not ok:
        return None
    try:
        return Driver("drv_pe")
    except InternalError:
        return None


def first_diff(a, b, path=""):
    if type(a) != type(b) and not (isinstance(a, (int, bool)) and isinstance(b, (int, bool))):
        return path or "."
    if isinstance(a, dict):
        for k in sorted(set(a) | set(b)):
            if k not in a or k not in b:
                return "%s.%s" % (path, k)
            d = first_diff(a[k], b[k], "%s.%s" % (path, k))
            if d:
                return d
        return None
    if isinstance(a, list):
        if len(a) != len(b):
            return "%s.len" % path
        for i, (x, y) in enumerate(zip(a, b)):
            d = first_diff(x, y, "%s[%d]" % (path, i))
            if d:
                return d
        return None
    return None if a == b else (path or ".")


def field_of(at):
    p = [x for x in at.split(".") if x]
    p = [x.split("[")[0] for x in p]
    return ".".join(p[:2]) if p else "?"


KEYS = ("e_lfanew", "NT", "Opt", "dirs", "sections", "basemap", "entry")


def judged_valid(origin, meta, exp, n):
    """images the constructor has to accept: the generated valid ones and the samples, and a valid image cut at or
    after the end of its headers as long as every section's raw data is still inside the file"""
    if origin == "sample":
        return True
    if not meta.get("valid"):
        return False
    if origin in ("synth", "synth-fmtgen"):
        return True
    if origin == "trunc":
        return all(s["SizeOfRawData"] == 0 or s["PointerToRawData"] + s["SizeOfRawData"] <= n for s in exp["sections"])
    return False


def broken_build_report(ck, prop, found):
    ok, out, bad = _state.get("build", (True, "", []))
    if not ok or bad:
        ck.report("%s:pe:proof-obligation" % prop, "lake build / audit of %s failed: %s" % (" ".join(TARGETS), (out[-600:] if not ok else bad[:2])),
                  "proof-obligation", "lake build " + " ".join(TARGETS), failing_input_found=found)


# ---------------------------------------------------------------------------------------
# C14
# ---------------------------------------------------------------------------------------

def run_c14(ck, tier, corr):
    quick = tier == "quick"
    r = rng("C14pe")
    drv = build(ck)
    items = []
    for origin, b, meta in corpus(r, quick):
        addrs = addrs_for(r, b) if origin in ("synth", "synth-fmtgen", "sample", "field") else []
        items.append((origin, b, meta, addrs))
    ans = [None] * len(items)
    refs = [None] * len(items)
    if drv is not None:
        ans = drv.ask_many([{"op": "pe.parse", "hex": b.hex(), "addrs": a} for (_, b, _, a) in items])
        refs = drv.ask_many([{"op": "pe.ref", "hex": b.hex(), "addrs": a} for (_, b, _, a) in items])
    found = False
    nwf = 0
    for (origin, b, meta, addrs), mod, ref in zip(items, ans, refs):
        real = real_header(b, addrs)
        st, exp = oracle(b, addrs)
        okr = "ok" in real
        ck.case(("PE14", b), nontrivial=okr)
        ck.count("pe.%s" % origin)
        ck.count("pe.real-%s" % ("ok" if okr else real["exn"]))
        case = {"data": b[:8192].hex(), "len": len(b), "origin": origin, "meta": meta, "addrs": addrs}
        # -- property oracle (independent of the model): what the real code reports = what the file encodes
        if okr and st == "ok":
            rd = real["ok"]
            for k in KEYS:
                if first_diff(rd[k], exp[k]):
                    at = first_diff(rd[k], exp[k], k)
                    found = True
                    ck.report("C14:pe:%s" % field_of(at), "PE reports %s differently from what the file encodes at the specification's offset" % at,
                              "oracle", "pe_parse_eq_ref", case=dict(case, at=at), real=rd[k], expected=exp[k])
                    break
            for row, (a, fo) in zip(rd["queries"], exp["fileoffsets"]):
                if fo is not None and row[3] != fo:
                    found = True
                    ck.report("C14:pe:getfileoffset", "getfileoffset(%#x) = %r, the section table maps it to file offset %#x" % (a, row[3], fo),
                              "oracle", "pe_locate_sound", case=dict(case, addr=a), real=row, expected=fo)
                    break
        elif okr and st != "ok":
            found = True
            ck.report("C14:pe:accepts:%s" % exp.split(" at ")[0], "PE accepts an image the specification reader rejects (%s)" % exp, "oracle",
                      "pe_parse_eq_ref", case=case, real=real["ok"]["NT"], expected=exp)
        elif (not okr) and st == "ok" and judged_valid(origin, meta, exp, len(b)):
            found = True
            ck.report("C14:pe:rejects-valid:%s" % real["exn"], "PE rejects a valid image (%s at %s)" % (real["exn"], real.get("site")), "oracle",
                      "pe_parse_eq_ref", case=case, real=real, expected="object")
        # -- correspondence with the model
        if mod is None:
            continue
        if "err" in mod:
            raise InternalError("drv_pe: %s" % mod["err"])
        if okr != ("ok" in mod):
            corr.append(("pe-outcome", case, real if not okr else "ok", mod if "ok" not in mod else "ok"))
            continue
        if okr:
            md, rd = mod["ok"], real["ok"]
            d = first_diff({k: rd[k] for k in KEYS + ("plus",)}, {k: md[k] for k in KEYS + ("plus",)})
            if d:
                corr.append(("pe-fields", dict(case, at=d), {k: rd[k] for k in KEYS}, {k: md[k] for k in KEYS}))
                continue
            rq = [[row[0], row[1], row[2], row[3]] for row in rd["queries"]]
            if first_diff(rq, md["queries"]):
                corr.append(("pe-queries", dict(case, at=first_diff(rq, md["queries"])), rq, md["queries"]))
                continue
            if ref["wf"]:
                nwf += 1
                fd = ref["dump"]
                d = first_diff({k: fd[k] for k in KEYS}, {k: md[k] for k in KEYS}) or first_diff(fd["queries"], md["queries"])
                if d:
                    corr.append(("pe-ref", dict(case, at=d), "(theorem pe_parse_eq_ref)", fd))
        else:
            if real["exn"] != mod["exn"]:
                corr.append(("pe-exn", case, real, mod))
            if ref["wf"]:
                corr.append(("pe-wf-rejected", case, real, ref))
    ck.count("pe.PeWF", nwf)
    ck.sample({"PE": [items[0][0], items[0][2]]})
    ck.oblige("PE: generated valid images satisfy PeWF and parse (non-vacuity of pe_parse_eq_ref on the corpus)", drv is None or nwf > 0, "%d" % nwf)
    for c in corr[:3]:
        if c[0].startswith("pe-"):
            ck.report("C14:pe:model-disagrees:%s" % c[0], "the Lean model of PE.__init__ (header stage) and the real code disagree: %s at %s"
                      % (c[0], c[1].get("at")), "correspondence", "correspondence PE header stage", case=c[1], real=c[2], model=c[3],
                      failing_input_found=False)
    broken_build_report(ck, "C14", found)
    if drv is not None:
        drv.close()
    return len(items)


# ---------------------------------------------------------------------------------------
# C20
# ---------------------------------------------------------------------------------------

def run_c20(ck, tier, corr):
    quick = tier == "quick"
    r = rng("C20pe")
    drv = build(ck)
    items = list(corpus(r, quick))
    ans = [None] * len(items)
    if drv is not None:
        ans = drv.ask_many([{"op": "pe.parse", "hex": b.hex()} for (_, b, _) in items])
    found = False
    for (origin, b, meta), mod in zip(items, ans):
        case = {"data": b[:8192].hex(), "len": len(b), "origin": origin, "meta": meta}
        hdr = real_header(b)
        # the stages after the section table allocate VirtualSize bytes per section read (`ljust`): that part of the
        # constructor belongs to the body-level check of C20; here the full constructor runs when those sizes are small
        heavy = "ok" in hdr and any(s["VirtualSize"] > (1 << 20) or s["SizeOfRawData"] > (1 << 20) for s in hdr["ok"]["sections"])
        if heavy:
            ck.count("pe.full-skipped(section sizes > 1 MiB: body stage, not this check)")
            full = dict(hdr) if "exn" in hdr else {"ok": 0}
        else:
            full = real_full(b)
            if full.get("exn") == "timeout" and "ok" in hdr:
                ck.count("pe.full-timeout in the body stage (not judged here)")
                full = {"ok": 0}
        ck.case(("PE20", b), nontrivial="ok" not in full)
        ck.count("pe.%s" % origin)
        ck.count("pe.full-%s" % ("ok" if "ok" in full else full["exn"]))
        # property: only the format's own error types leave the constructor; no unbounded loop
        for what, res in (("PE()", full), ("PE() header stage", hdr)):
            if "exn" in res and res["exn"] not in FORMAT:
                found = True
                ck.report("C20:pe:%s:%s" % (res["exn"], res["site"]), "%s lets %s escape (raised in %s)" % (what, res["exn"], res["site"]),
                          "oracle", "pe_ctor_total", case=case, real=res, expected="PEError / StructureError or an object")
        # inside the header stage the catch-all must have nothing to catch (pe_ctor_total, raw part)
        if "exn" in hdr and hdr.get("inner") not in (None, "PEError", "StructureError", "struct.error", "AttributeError"):
            pass
        if "ok" in hdr:
            n = len(hdr["ok"]["sections"])
            if n != hdr["ok"]["NT"]["NumberOfSections"] or 40 * n > len(b) or len(hdr["ok"]["dirs"]) > 16:
                found = True
                ck.report("C20:pe:unbounded-table", "%d sections / %d directories parsed from %d bytes" % (n, len(hdr["ok"]["dirs"]), len(b)),
                          "oracle", "pe_sections_bounded", case=case, real=n, expected="≤ min(NumberOfSections, len/40), ≤ 16 directories")
        if "ok" in full and "ok" not in hdr:
            corr.append(("pe-stage", case, full, hdr))
        if mod is None:
            continue
        if "err" in mod:
            raise InternalError("drv_pe: %s" % mod["err"])
        mo = "ok" if "ok" in mod else mod["exn"]
        ro = "ok" if "ok" in hdr else hdr["exn"]
        if mo != ro:
            corr.append(("pe-class", case, hdr if ro != "ok" else "ok", mo))
        elif ro != "ok" and mod["raw"] != ro and hdr.get("inner") is None:
            # the model says the wrapper of __init__ converted the class, the real code raised it directly
            corr.append(("pe-raw-class", case, hdr, mod))
    for c in corr[:3]:
        if c[0].startswith("pe-"):
            ck.report("C20:pe:model-disagrees:%s" % c[0], "the Lean model of PE.__init__ (header stage) and the real code disagree on the outcome class: real %r, model %r"
                      % (c[2] if isinstance(c[2], str) else {k: c[2].get(k) for k in ("exn", "site", "inner")}, c[3] if isinstance(c[3], str) else c[3].get("exn")),
                      "correspondence", "correspondence PE outcome class", case=c[1], real=c[2], model=c[3], failing_input_found=False)
    broken_build_report(ck, "C20", found)
    ck.sample({"PE": [items[0][0], items[0][2]]})
    if drv is not None:
        drv.close()
    return len(items)
