"""
translate_riscv.py — translator (tie T of C06): amoco/arch/riscv/rv32i/asm.py and rv64i/asm.py
→ lean/Generated/RvSem.lean.

Each *final* module-level binding `i_XXX` (later `def`s and aliases such as `i_LH = i_LW = i_LB`
override earlier ones, exactly as Python does) is turned into a term of the semantics DSL of
lean/Amoco/Model/SemDsl.lean.  The `@__npc` decorator is recognised only if its own definition in
the file has the expected body.  Anything outside the subset becomes `Stmt.unsupported "<why>"`,
which makes the obligation `rv_generated_eq_expected` fail loudly (and the driver answer
"unmodelled").

Python subset understood (function `i_XXX(ins, fmap)`):
    a, b, c = ins.operands
    if <opnd> is not zero: <assignments>
    fmap[<opnd>|pc] = <expr>
    v = <expr>                      (with an fmap(..) call: evaluated now → Stmt.bind; else inlined)
    x.sf = y.sf = True|False        (declaration on an operand: later uses are wrapped)
    pass
  <expr> ::= name | pc | ins.length | int | fmap(e) | e op e (+ - & | ^ << >> //) | e cmp e
           | oper(OP_X, a, b) | tst(c, a, b) | cst(v, n) | e[a:b] | e.signextend(n) | e.zeroextend(n)
           | e.signed() | e.unsigned() | ~int | -int
  Every register/pc/memory leaf of a stored expression must be under at least one `fmap(...)`.
"""
import ast, os, sys, hashlib

MNEMONICS = ["LUI", "AUIPC", "JAL", "JALR", "BEQ", "BNE", "BLT", "BGE", "BLTU", "BGEU", "LB", "LH", "LW",
             "LBU", "LHU", "SB", "SH", "SW", "ADDI", "SLTI", "SLTIU", "XORI", "ORI", "ANDI", "SLLI", "SRLI",
             "SRAI", "ADD", "SUB", "SLL", "SLT", "SLTU", "XOR", "SRL", "SRA", "OR", "AND", "FENCE", "FENCE_I",
             "ECALL", "EBREAK", "LWU", "LD", "SD", "ADDIW", "SLLIW", "SRLIW", "SRAIW", "ADDW", "SUBW", "SLLW",
             "SRLW", "SRAW"]

BINOPS = {ast.Add: "add", ast.Sub: "sub", ast.BitAnd: "and", ast.BitOr: "or", ast.BitXor: "xor",
          ast.LShift: "shl", ast.RShift: "shr", ast.FloorDiv: "sar"}
CMPOPS = {ast.Eq: "eq", ast.NotEq: "ne", ast.Lt: "lt", ast.LtE: "le", ast.Gt: "gt", ast.GtE: "ge"}
OPER = {"OP_ADD": "add", "OP_MIN": "sub", "OP_AND": "and", "OP_OR": "or", "OP_XOR": "xor", "OP_LSL": "shl",
        "OP_LSR": "shr", "OP_ASR": "sar", "OP_EQ": "eq", "OP_NEQ": "ne", "OP_LT": "lt", "OP_LE": "le",
        "OP_GT": "gt", "OP_GE": "ge", "OP_LTU": "ltu", "OP_GEU": "geu"}


class Unsupported(Exception):
    pass


def lean_int(v):
    return "(%d)" % v if v < 0 else "%d" % v


# ---------------------------------------------------------------------------------------------
# DSL terms as nested tuples; printing to Lean and to JSON-able lists (for the Python twin)
# ---------------------------------------------------------------------------------------------

def e_lean(e):
    k = e[0]
    if k == "opnd":
        return "(.opnd %d)" % e[1]
    if k == "pc":
        return ".pc"
    if k == "loc":
        return "(.loc %d)" % e[1]
    if k == "cst":
        return "(.cst %s %d)" % (lean_int(e[1]), e[2])
    if k == "int":
        return "(.int %s)" % lean_int(e[1])
    if k == "ilen":
        return ".ilen"
    if k == "bin":
        return "(.bin .%s %s %s)" % (e[1], e_lean(e[2]), e_lean(e[3]))
    if k == "slc":
        return "(.slc %s %d %d)" % (e_lean(e[1]), e[2], e[3])
    if k in ("sext", "zext"):
        return "(.%s %s %d)" % (k, e_lean(e[1]), e[2])
    if k == "tst":
        return "(.tst %s %s %s)" % (e_lean(e[1]), e_lean(e[2]), e_lean(e[3]))
    if k in ("signed", "unsigned"):
        return "(.%s %s)" % (k, e_lean(e[1]))
    raise ValueError(e)


def s_lean(s):
    k = s[0]
    if k == "assign":
        loc = ".pc" if s[1] == ("pc",) else "(.opnd %d)" % s[1][1]
        return "(.assign %s %s)" % (loc, e_lean(s[2]))
    if k == "bind":
        return "(.bind %s)" % e_lean(s[1])
    if k == "guardNZ":
        return "(.guardNZ %d %s)" % (s[1], s_lean(s[2]))
    if k == "unsupported":
        return "(.unsupported %s)" % lean_str(s[1])
    raise ValueError(s)


def lean_str(t):
    return '"' + t.replace("\\", "\\\\").replace('"', '\\"').replace("\n", " ") + '"'


# ---------------------------------------------------------------------------------------------
# translation of one function
# ---------------------------------------------------------------------------------------------

class Fn(object):
    def __init__(self, fdef):
        self.fdef = fdef
        a = fdef.args
        if len(a.args) != 2 or a.vararg or a.kwarg or a.kwonlyargs or a.defaults:
            raise Unsupported("signature of %s" % fdef.name)
        self.ins, self.fmap = a.args[0].arg, a.args[1].arg
        self.env = {}          # name -> ("opnd", i, wrappers) | ("loc", k) | ("sym", node, env_snapshot, wrappers)
        self.nbind = 0
        self.out = []

    # -- expressions ---------------------------------------------------------------------------
    def is_ins_attr(self, n, attr):
        return isinstance(n, ast.Attribute) and isinstance(n.value, ast.Name) and n.value.id == self.ins and n.attr == attr

    def is_fmap_call(self, n):
        return isinstance(n, ast.Call) and isinstance(n.func, ast.Name) and n.func.id == self.fmap

    def has_fmap(self, n):
        return any(self.is_fmap_call(x) or (isinstance(x, ast.Subscript) and isinstance(x.value, ast.Name) and x.value.id == self.fmap)
                   for x in ast.walk(n))

    def const_int(self, n):
        if isinstance(n, ast.Constant) and isinstance(n.value, int) and not isinstance(n.value, bool):
            return n.value
        if isinstance(n, ast.UnaryOp) and isinstance(n.operand, ast.Constant) and isinstance(n.operand.value, int):
            if isinstance(n.op, ast.Invert):
                return ~n.operand.value
            if isinstance(n.op, ast.USub):
                return -n.operand.value
        return None

    def wrap(self, e, wrappers):
        for w in wrappers:
            e = (w, e)
        return e

    def expr(self, n, env, ev):
        """translate expression node `n` under environment `env`; `ev` = already under an fmap(..)."""
        if isinstance(n, ast.Name):
            if n.id == "pc":
                if not ev:
                    raise Unsupported("pc used without fmap(..)")
                return ("pc",)
            if n.id in env:
                b = env[n.id]
                if b[0] == "opnd":
                    if not ev:
                        raise Unsupported("operand %s stored without fmap(..)" % n.id)
                    return self.wrap(("opnd", b[1]), b[2])
                if b[0] == "loc":
                    return self.wrap(("loc", b[1]), b[2])
                if b[0] == "sym":
                    return self.wrap(self.expr(b[1], b[2], ev), b[3])
            raise Unsupported("name %s" % n.id)
        if self.is_ins_attr(n, "length"):
            raise Unsupported("ins.length outside a binary operation")
        if self.is_fmap_call(n):
            if len(n.args) != 1 or n.keywords:
                raise Unsupported("fmap call")
            return self.expr(n.args[0], env, True)
        if isinstance(n, ast.BinOp) and type(n.op) in BINOPS:
            return ("bin", BINOPS[type(n.op)], self.expr(n.left, env, ev), self.rhs(n.right, env, ev))
        if isinstance(n, ast.Compare) and len(n.ops) == 1 and type(n.ops[0]) in CMPOPS:
            return ("bin", CMPOPS[type(n.ops[0])], self.expr(n.left, env, ev), self.rhs(n.comparators[0], env, ev))
        if isinstance(n, ast.Subscript) and isinstance(n.slice, ast.Slice):
            sl = n.slice
            lo, hi = self.const_int(sl.lower) if sl.lower is not None else None, self.const_int(sl.upper) if sl.upper is not None else None
            if sl.step is not None or lo is None or hi is None or lo < 0 or hi < 0:
                raise Unsupported("slice bounds")
            if isinstance(n.value, ast.Name) and n.value.id == self.fmap:
                raise Unsupported("fmap[..] as an expression")
            return ("slc", self.expr(n.value, env, ev), lo, hi)
        if isinstance(n, ast.Call) and not n.keywords:
            f = n.func
            if isinstance(f, ast.Name) and f.id == "oper" and len(n.args) == 3 and isinstance(n.args[0], ast.Name) \
                    and n.args[0].id in OPER:
                return ("bin", OPER[n.args[0].id], self.expr(n.args[1], env, ev), self.rhs(n.args[2], env, ev))
            if isinstance(f, ast.Name) and f.id == "tst" and len(n.args) == 3:
                return ("tst",) + tuple(self.expr(a, env, ev) for a in n.args)
            if isinstance(f, ast.Name) and f.id == "cst" and len(n.args) == 2:
                v, s = self.const_int(n.args[0]), self.const_int(n.args[1])
                if v is None or s is None or s <= 0:
                    raise Unsupported("cst arguments")
                return ("cst", v, s)
            if isinstance(f, ast.Attribute) and f.attr in ("signextend", "zeroextend") and len(n.args) == 1:
                m = self.const_int(n.args[0])
                if m is None or m <= 0:
                    raise Unsupported("extend argument")
                return ("sext" if f.attr == "signextend" else "zext", self.expr(f.value, env, ev), m)
            if isinstance(f, ast.Attribute) and f.attr in ("signed", "unsigned") and len(n.args) == 0:
                return (f.attr, self.expr(f.value, env, ev))
        raise Unsupported("expression %s" % ast.dump(n)[:80])

    def rhs(self, n, env, ev):
        """right operand of a binary operation: bare ints and ins.length keep their Python-int nature"""
        c = self.const_int(n)
        if c is not None:
            return ("int", c)
        if self.is_ins_attr(n, "length"):
            return ("ilen",)
        return self.expr(n, env, ev)

    # -- statements ------------------------------------------------------------------------------
    def loc(self, n):
        if isinstance(n, ast.Name):
            if n.id == "pc":
                return ("pc",)
            b = self.env.get(n.id)
            if b and b[0] == "opnd":
                return ("opnd", b[1])
        raise Unsupported("left-value %s" % ast.dump(n)[:60])

    def is_store(self, s):
        return isinstance(s, ast.Assign) and any(isinstance(t, ast.Subscript) and isinstance(t.value, ast.Name)
                                                 and t.value.id == self.fmap for t in s.targets)

    def used_after_store(self, name, rest):
        """is local `name` read after some later `fmap[..] = ..` (then its value must be captured now)?"""
        stored = [False]

        def walk(stmts):
            for s in stmts:
                if isinstance(s, ast.If):
                    if stored[0] and any(isinstance(x, ast.Name) and x.id == name for x in ast.walk(s.test)):
                        return True
                    if walk(s.body) or walk(s.orelse):
                        return True
                    continue
                uses = any(isinstance(x, ast.Name) and x.id == name and isinstance(x.ctx, ast.Load) for x in ast.walk(s))
                if uses and stored[0]:
                    return True
                if self.is_store(s):
                    stored[0] = True
                elif not isinstance(s, (ast.Assign, ast.Pass, ast.Expr)):
                    stored[0] = True          # unknown statement kinds: assume the map may change
                elif isinstance(s, ast.Expr) and not isinstance(s.value, ast.Constant):
                    stored[0] = True
            return False
        return walk(rest)

    def stmt(self, s, guard=None, rest=()):
        def emit(x):
            self.out.append(("guardNZ", guard, x) if guard is not None else x)

        if isinstance(s, ast.Pass):
            return
        if isinstance(s, ast.Expr) and isinstance(s.value, ast.Constant) and isinstance(s.value.value, str):
            return
        if isinstance(s, ast.Assign):
            # a, b, c = ins.operands
            if len(s.targets) == 1 and isinstance(s.targets[0], ast.Tuple) and self.is_ins_attr(s.value, "operands"):
                for i, t in enumerate(s.targets[0].elts):
                    if not isinstance(t, ast.Name):
                        raise Unsupported("operand unpacking")
                    self.env[t.id] = ("opnd", i, ())
                return
            # x.sf = y.sf = True
            if all(isinstance(t, ast.Attribute) and t.attr == "sf" and isinstance(t.value, ast.Name) for t in s.targets) \
                    and isinstance(s.value, ast.Constant) and isinstance(s.value.value, bool):
                for t in s.targets:
                    b = self.env.get(t.value.id)
                    if b is None or b[0] == "loc":
                        raise Unsupported("sf declaration on %s" % t.value.id)
                    w = "signed" if s.value.value else "unsigned"
                    self.env[t.value.id] = b[:-1] + (b[-1] + (w,),)
                return
            if len(s.targets) != 1:
                raise Unsupported("multiple assignment")
            t = s.targets[0]
            # fmap[loc] = e
            if isinstance(t, ast.Subscript) and isinstance(t.value, ast.Name) and t.value.id == self.fmap:
                if isinstance(t.slice, ast.Slice):
                    raise Unsupported("fmap[a:b]")
                emit(("assign", self.loc(t.slice), self.expr(s.value, self.env, False)))
                return
            # local binding
            if isinstance(t, ast.Name):
                if t.id in (self.ins, self.fmap, "pc"):
                    raise Unsupported("rebinding %s" % t.id)
                if self.has_fmap(s.value) and self.used_after_store(t.id, rest):
                    # the value must be captured before the map changes
                    if guard is not None:
                        raise Unsupported("evaluated binding under a condition")
                    self.out.append(("bind", self.expr(s.value, self.env, False)))
                    self.env[t.id] = ("loc", self.nbind, ())
                    self.nbind += 1
                else:
                    # no store between this binding and its uses: evaluation commutes, inline it
                    self.env[t.id] = ("sym", s.value, dict(self.env), ())
                return
            raise Unsupported("assignment target")
        if isinstance(s, ast.If):
            c = s.test
            if guard is None and not s.orelse and isinstance(c, ast.Compare) and len(c.ops) == 1 \
                    and isinstance(c.ops[0], ast.IsNot) and isinstance(c.left, ast.Name) \
                    and isinstance(c.comparators[0], ast.Name) and c.comparators[0].id == "zero":
                b = self.env.get(c.left.id)
                if b and b[0] == "opnd":
                    for j, x in enumerate(s.body):
                        self.stmt(x, guard=b[1], rest=tuple(s.body[j + 1:]) + tuple(rest))
                    return
            raise Unsupported("condition %s" % ast.dump(c)[:80])
        raise Unsupported("statement %s" % type(s).__name__)

    def run(self):
        body = self.fdef.body
        for i, s in enumerate(body):
            self.stmt(s, rest=tuple(body[i + 1:]))
        return self.out


NPC = [("assign", ("pc",), ("bin", "add", ("pc",), ("ilen",)))]


def npc_shape_ok(fdef):
    """the decorator must be   def __npc(f): def npc(ins, fmap): fmap[pc] = fmap(pc) + ins.length; f(ins, fmap); return npc"""
    try:
        if len(fdef.args.args) != 1:
            return False
        fn = fdef.args.args[0].arg
        inner = [s for s in fdef.body if isinstance(s, ast.FunctionDef)]
        rest = [s for s in fdef.body if not isinstance(s, ast.FunctionDef)]
        if len(inner) != 1 or len(rest) != 1 or not isinstance(rest[0], ast.Return) or rest[0].value.id != inner[0].name:
            return False
        f = Fn(inner[0])
        body = inner[0].body
        if len(body) != 2:
            return False
        f.stmt(body[0])
        call = body[1]
        ok = isinstance(call, ast.Expr) and isinstance(call.value, ast.Call) and call.value.func.id == fn \
            and [a.id for a in call.value.args] == [f.ins, f.fmap] and not call.value.keywords
        return ok and f.out == NPC
    except Exception:
        return False


def translate_module(path):
    """returns (table: {name: [stmts]}, notes: [str])"""
    src = open(path).read()
    tree = ast.parse(src)
    binding = {}      # i_name -> ("def", FunctionDef) | previously resolved
    notes = []
    npc_ok = False
    for node in tree.body:
        if isinstance(node, ast.FunctionDef):
            if node.name == "__npc":
                npc_ok = npc_shape_ok(node)
                if not npc_ok:
                    notes.append("__npc decorator has an unexpected body")
            elif node.name.startswith("i_"):
                binding[node.name] = node
        elif isinstance(node, ast.Assign) and isinstance(node.value, ast.Name) \
                and all(isinstance(t, ast.Name) for t in node.targets):
            names = [t.id for t in node.targets]
            if any(n.startswith("i_") for n in names) or node.value.id.startswith("i_"):
                src_b = binding.get(node.value.id)
                for n in names:
                    if n.startswith("i_"):
                        if src_b is None:
                            binding[n] = ("unsupported", "alias of unknown %s" % node.value.id)
                        else:
                            binding[n] = src_b
        elif isinstance(node, (ast.Assign, ast.AugAssign, ast.Delete)):
            for t in ast.walk(node):
                if isinstance(t, ast.Name) and t.id.startswith("i_") and isinstance(t.ctx, (ast.Store, ast.Del)):
                    binding[t.id] = ("unsupported", "non-trivial rebinding of %s" % t.id)
    table = {}
    for name, b in binding.items():
        mn = name[2:]
        if isinstance(b, tuple):
            table[mn] = [("unsupported", b[1])]
            continue
        try:
            pre = []
            for d in b.decorator_list:
                if isinstance(d, ast.Name) and d.id == "__npc":
                    if not npc_ok:
                        raise Unsupported("__npc decorator not recognised")
                    pre = pre + NPC
                else:
                    raise Unsupported("decorator %s" % ast.dump(d)[:40])
            table[mn] = pre + Fn(b).run()
        except Unsupported as u:
            table[mn] = [("unsupported", "%s: %s" % (name, u))]
        except Exception as u:      # malformed source etc.
            table[mn] = [("unsupported", "%s: internal %s" % (name, type(u).__name__))]
    return table, notes, hashlib.sha256(src.encode()).hexdigest()


def emit(repo, out_path):
    parts = []
    info = {}
    for isa, sub in (("rv32", "rv32i"), ("rv64", "rv64i")):
        p = os.path.join(repo, "amoco", "arch", "riscv", sub, "asm.py")
        table, notes, h = translate_module(p)
        info[isa] = {"table": table, "notes": notes, "sha256": h}
        known = [m for m in MNEMONICS if m in table]
        extra = sorted(m for m in table if m not in MNEMONICS)
        lines = ["/-- from amoco/arch/riscv/%s/asm.py (sha256 %s) -/" % (sub, h[:16]),
                 "def %s_tab : List (Mn × Sem) := [" % isa]
        ents = []
        for m in known:
            ents.append("  (.%s, [%s])" % (m, ", ".join(s_lean(s) for s in table[m])))
        lines.append(",\n".join(ents))
        lines.append("]")
        lines.append("/-- `i_` functions that are not base-ISA mnemonics (not judged by C06) -/")
        lines.append("def %s_extra : List String := [%s]" % (isa, ", ".join(lean_str(x) for x in extra)))
        lines.append("def %s_notes : List String := [%s]" % (isa, ", ".join(lean_str(x) for x in notes)))
        parts.append("\n".join(lines))
    text = """/-
  Generated.RvSem — REGENERATED on every run by harness/translate_riscv.py from
  amoco/arch/riscv/rv32i/asm.py and rv64i/asm.py.  Do not edit.
-/
import Amoco.Model.SemDsl
namespace Generated.Rv
open Amoco.Rv

%s

def generated (isa : Isa) (m : Mn) : Option Sem :=
  (match isa with | .rv32 => rv32_tab | .rv64 => rv64_tab).lookup m

end Generated.Rv
""" % "\n\n".join(parts)
    old = None
    try:
        old = open(out_path).read()
    except OSError:
        pass
    if old != text:
        with open(out_path, "w") as f:
            f.write(text)
    return info


if __name__ == "__main__":
    repo = os.environ.get("AMOCO_REPO", "/repo")
    here = os.path.dirname(os.path.abspath(__file__))
    out = os.path.join(os.path.dirname(here), "lean", "Generated", "RvSem.lean")
    info = emit(repo, out)
    for isa, d in info.items():
        bad = {m: s for m, s in d["table"].items() if any(x[0] == "unsupported" for x in s)}
        print(isa, len(d["table"]), "bindings;", "unsupported:", bad, "notes:", d["notes"])
