"""
mem_real.py — runs a generated history (mem_gen vocabulary) on the real amoco MemoryMap / MemoryZone
in-process and dumps canonical results:
    value  : ["raw", [b,...]] | ["ex", [desc,...]]  (desc in value order: ["r",b] | ["s",id,k])
    item   : value | ["bot", n]
    zones  : [[key, [[vaddr, value, endian], ...], cache], ...]   in dict order
"""
from amoco.system.memory import MemoryMap, MemoryZone, mo
from amoco.cas.expressions import exp, cst, reg, ext, ptr, top, comp, composer, slc


class Unmodelled(Exception):
    pass


def reg_id(name):
    if name.startswith("r") and name[1:].isdigit():
        return int(name[1:])
    raise Unmodelled("register %s" % name)


def canon_exp(e):
    """per-byte descriptors in value order (LSB first)."""
    if not isinstance(e, exp):
        raise Unmodelled(type(e).__name__)
    if e.size % 8 != 0:
        raise Unmodelled("size %d" % e.size)
    n = e.size // 8
    if e._is_cst:
        return [["r", (e.v >> (8 * k)) & 0xff] for k in range(n)]
    if e._is_slc:
        x = e.x
        if not (x._is_reg and not x._is_slc) or e.pos % 8 != 0:
            raise Unmodelled("slc")
        return [["s", reg_id(x.ref), e.pos // 8 + k] for k in range(n)]
    if e._is_cmp:
        out, cur = [], 0
        for (lo, hi) in sorted(e.parts.keys()):
            if lo != cur:
                raise Unmodelled("comp hole")
            p = e.parts[(lo, hi)]
            if p.size != hi - lo:
                raise Unmodelled("comp part size")
            out += canon_exp(p)
            cur = hi
        if cur != e.size:
            raise Unmodelled("comp short")
        return out
    if e._is_reg:
        return [["s", reg_id(e.ref), k] for k in range(n)]
    raise Unmodelled(type(e).__name__)


def canon_val(v):
    if isinstance(v, (bytes, bytearray)):
        return ["raw", list(v)]
    return ["ex", canon_exp(v)]


def canon_item(p):
    if isinstance(p, (bytes, bytearray)):
        return ["raw", list(p)]
    if isinstance(p, exp) and p.etype == 0:
        return ["bot", p.size // 8] if p.size % 8 == 0 else ["bot-bits", p.size]
    return ["ex", canon_exp(p)]


def key_str(k):
    return None if k is None else str(k)


def dump_zone(z):
    return [[o.vaddr, canon_val(o.data.val), o.data.endian] for o in z._map], list(z._MemoryZone__cache)


def dump(M):
    out = []
    for k, z in M._zones.items():
        m, c = dump_zone(z)
        out.append([key_str(k), m, c])
    return out


def mk_value(vd):
    k = vd[0]
    if k == "raw":
        return bytes.fromhex(vd[1])
    if k == "cst":
        return cst(vd[1], 8 * vd[2])
    if k == "reg":
        return reg("r%d" % vd[1], 8 * vd[2])
    if k == "slc":
        x = reg("r%d" % vd[1], 8 * vd[2])
        return x[8 * vd[3]: 8 * (vd[3] + vd[4])]
    if k == "comp":
        return composer([mk_value(p) for p in vd[1]])
    raise ValueError(vd)


def mk_addr(ad):
    k = ad[0]
    if k == "int":
        return ad[1]
    if k == "cst":
        return cst(ad[1], ad[2])
    if k == "ext":
        return ext(ad[1], size=32)
    if k == "ptrc":
        return ptr(cst(ad[1], ad[2]), disp=ad[3])
    if k == "ptrs":
        return ptr(reg(ad[1], 32), disp=ad[2])
    if k == "ptrtop":
        return ptr(top(32), disp=ad[1])
    return reg("zz", 32)


def find_zone(M, key):
    for k, z in M._zones.items():
        if key_str(k) == key:
            return z
    return None


def step(M, op):
    """apply op to M; returns (M', result).  result: "ok" | "MemoryError" | "KeyError" |
    {"items":[...]} | "raise:<Type>:<msg>" """
    k = op["k"]
    try:
        if k == "write":
            M.write(mk_addr(op["addr"]), mk_value(op["val"]), op["en"])
            return M, "ok"
        if k == "read":
            res = M.read(mk_addr(op["addr"]), op["n"])
            return M, {"items": [canon_item(p) for p in res]}
        if k == "restruct":
            M.restruct()
            return M, "ok"
        if k == "copy":
            return M.copy(), "ok"
        if k == "shift":
            z = find_zone(M, op["zone"])
            if z is None:
                return M, "KeyError"
            z.shift(op["off"])
            return M, "ok"
        if k == "merge":
            other = MemoryMap()
            for o in op["ops"]:
                other, _ = step(other, o)
            M.merge(other)
            return M, "ok"
    except MemoryError:
        return M, "MemoryError"
    except Unmodelled as e:
        return M, "unmodelled:%s" % e
    except Exception as e:
        return M, "raise:%s" % type(e).__name__
    raise ValueError(op)


def safe_dump(M):
    try:
        return dump(M)
    except Unmodelled as e:
        return "unmodelled:%s" % e
    except Exception as e:
        return "raise:%s" % type(e).__name__


def ws_step(ws, op):
    """apply a (normalized, index-based) op to the workspace `ws` (list of live MemoryMaps, all kept
    alive); returns the result."""
    m = op.get("m", 0)
    if m >= len(ws):
        return "nomap"
    k = op["k"]
    try:
        if k == "fork":
            ws.append(ws[m].copy())
            return "ok"
        if k == "mergecopy":
            if op["src"] >= len(ws):
                return "nomap"
            ws[m].merge(ws[op["src"]].copy())
            return "ok"
    except Exception as e:
        return "raise:%s" % type(e).__name__
    ws[m], res = step(ws[m], op)
    return res


def run(ops):
    """ops: normalized history.  list of {"res":…, "maps":[zones of every live map]} after every op,
    and the final workspace."""
    ws = [MemoryMap()]
    out = []
    for op in ops:
        res = ws_step(ws, op)
        out.append({"res": res, "maps": [safe_dump(M) for M in ws]})
    return out, ws
