"""
C09 — Stores and loads through symbolic pointers stay correct under aliasing.

Theorems (lean/Amoco/Props/C09.lean, helpers in Amoco/Proofs/Mapper*.lean): alias_sound (aliasing not
assumed away: for every load/store program over pointer registers, every offset / whole-byte size /
operator, either byte order and *every* pointer assignment that does not wrap around the address space,
`σ >> symExec P` has the registers — each load read together with its mods — and the memory of the
byte-level sequential execution), alias_sound_loads / alias_sound_memory (the two halves spelled out),
noalias_sound (under the no-aliasing assumption, for assignments in which accesses through different
symbolic bases do not overlap).  The model is the pointer path of cas/mapper.py (`M`, `aliasing`,
`_Mem_read`, `_Mem_write`, `__setitem__`, `use`, `mem.eval`) over the C08 zone model.
Tie (correspondence, every run): IR programs (shaped store/load programs over 2–3 pointers and random
pointer programs, sizes 8..64, both byte orders) executed statement by statement on the real mapper under
noaliasing=False (memtrace on/off) and noaliasing=True vs the model: ordered map, lastw, mods lists and
byte orders after every statement, zones byte by byte at the end.
Oracle (property-level, independent of the model): bytearray execution of the program vs the real
`(concrete >> symbolic)` for pointer assignments chosen equal / overlapping by 1..7 bytes / disjoint;
registers that stay symbolic are interpreted by replaying their mods.
Second oracle, outside the theorems (which fix one byte order per program): a store in one byte order read
back wholly or partly in the other (`[p+d1] := v` little-endian, `load [p+d2]` big-endian and conversely),
as sh2 does (operands little-endian, stack helpers big-endian), against the byte-level execution.
"""
import sys, json
from common import *
import map_gen, map_ref, map_check
from map_check import (SETTINGS, setting_name, compare_run, oracle, shrink, shape, mixed_order_case, mixed_order_oracle,
                       mixed_order_shape)
from map_gen import Gen, shaped_alias_program, pointer_assignments, PTRS

THM = "Amoco.Mapper.Props.alias_sound"

# the counter-examples of DESIGN.md §12 and their relatives, replayed on every run
CORPUS = [
    ("wider load after a store through another base (p = q)", False, [
        ["store", [["reg", "q", 32], 0], 32, ["cst", 0xaabbccdd, 32]],
        ["store", [["reg", "p", 32], 0], 8, ["cst", 0x11, 8]],
        ["set", "a", 32, 0, 32, ["load", [["reg", "p", 32], 0], 32]]], {"p": 0x2000, "q": 0x2000, "s": 0x2800}),
    ("big-endian partial overwrite", True, [
        ["store", [["reg", "p", 32], 0], 32, ["cst", 0xaabbccdd, 32]],
        ["store", [["reg", "p", 32], 0], 8, ["cst", 0x11, 8]],
        ["set", "a", 32, 0, 32, ["load", [["reg", "p", 32], 0], 32]]], {"p": 0x2000, "q": 0x2100, "s": 0x2800}),
    ("narrower re-store after a store through another base (q = p + 1)", False, [
        ["store", [["reg", "p", 32], 0], 32, ["reg", "a", 32]],
        ["store", [["reg", "q", 32], 0], 32, ["reg", "b", 32]],
        ["store", [["reg", "p", 32], 0], 8, ["cst", 0x11, 8]]], {"p": 0x2000, "q": 0x2001, "s": 0x2800}),
    ("narrower re-store after a store into the old extent, same base", False, [
        ["store", [["reg", "p", 32], 0], 32, ["reg", "a", 32]],
        ["store", [["reg", "p", 32], 2], 8, ["slc", ["reg", "c", 32], 0, 8]],
        ["store", [["reg", "p", 32], 0], 8, ["cst", 0x11, 8]],
        ["set", "b", 32, 0, 32, ["load", [["reg", "p", 32], 0], 32]]], {"p": 0x2000, "q": 0x2100, "s": 0x2800}),
    ("big-endian store replayed by composition", True, [
        ["store", [["reg", "p", 32], 0], 32, ["reg", "a", 32]],
        ["set", "b", 32, 0, 32, ["cat", [["load", [["reg", "p", 32], 0], 16], ["cst", 0, 16]]]]], {"p": 0x2000, "q": 0x2100, "s": 0x2800}),
    ("big-endian load of unwritten memory on a non-empty map", True, [
        ["set", "b", 32, 0, 32, ["reg", "c", 32]],
        ["set", "a", 32, 0, 32, ["load", [["reg", "p", 32], 4], 32]]], {"p": 0x2000, "q": 0x2100, "s": 0x2800}),
]


def main(tier):
    ck = Check("C09", tier)
    quick = tier == "quick"
    r = rng("C09")
    broken = ck.build_and_audit(["Amoco.Props.C09", "drv_map"])
    drv = Driver("drv_map")
    ties = []
    modes = ((False, True), (False, False), (True, True))

    def report_fail(prog, noal, mt, vals, detail, origin):
        def fails(p):
            return oracle(p, noal, mt, vals)[0] == "fail"
        small = shrink(prog, fails)
        st, d = oracle(small, noal, mt, vals)
        d = d or detail
        sig = "C09:%s:%s" % ("noaliasing" if noal else "aliasing", shape(small))
        what = "%s: %s under %s with pointers %s: %s %s is %#x, byte-level execution gives %#x" % (
            origin, shape(small), setting_name(noal, mt), {k: hex(v) for k, v in vals.items()},
            d["where"], d["loc"] if d["where"] == "reg" else hex(d["loc"]), d["got"], d["expected"])
        ck.report(sig, what, "oracle", THM if not noal else "Amoco.Mapper.Props.noalias_sound",
                  case={"prog": small, "noaliasing": noal, "memtrace": mt, "pointers": vals, "from": prog},
                  real=d, expected=d["expected"])

    # ---- corpus ---------------------------------------------------------------------------------------
    for what, be, stmts, vals in CORPUS:
        prog = {"be": be, "stmts": stmts}
        for noal, mt in modes:
            res = compare_run(drv, prog, noal, mt, r, lambda k: ck.count("tie." + k))
            if res not in (None, "unmodelled") and res[0] == "diff":
                ties.append((prog, noal, mt) + tuple(res[1:]))
            st, d = oracle(prog, noal, mt, vals)
            ck.case(("corpus", what, noal, mt), nontrivial=True)
            ck.count("corpus." + st)
            if st == "fail":
                report_fail(prog, noal, mt, vals, d, "corpus (%s)" % what)

    # ---- generated programs ----------------------------------------------------------------------------
    n = 700 if quick else 12000
    nassign = 4 if quick else 8
    for t in range(n):
        be = r.random() < 0.4
        prog = shaped_alias_program(r, be) if r.random() < 0.6 else Gen(r, "ptr", be).program()
        ck.count("programs.%s" % ("be" if be else "le"))
        ck.count("length.%d" % len(prog["stmts"]))
        for noal, mt in modes:
            res = compare_run(drv, prog, noal, mt, r, lambda k: ck.count("tie." + k))
            if res == "unmodelled":
                ck.count("tie.unmodelled")
            elif res is not None and res[0] == "raise":
                ck.count("tie.real-raises-" + res[1])
            elif res is not None:
                ties.append((prog, noal, mt) + tuple(res[1:]))
            else:
                ck.count("tie.agree." + setting_name(noal, mt))
            for kind, vals in pointer_assignments(r, PTRS[:3], nassign):
                st, d = oracle(prog, noal, mt, vals)
                ck.case((json.dumps(prog), noal, mt, sorted(vals.items())), nontrivial=(st in ("ok", "fail")))
                ck.count("oracle.%s.%s" % ("noaliasing" if noal else "aliasing", st))
                ck.count("assignment." + kind)
                if st == "fail":
                    report_fail(prog, noal, mt, vals, d, "generated")
        if t < 2:
            ck.sample({"prog": prog, "shape": shape(prog)})
    drv.close()

    # ---- mixed byte orders (outside the theorems) -------------------------------------------------------
    for t in range(150 if quick else 3000):
        case = mixed_order_case(r)
        for noal, mt in modes:
            st, d = mixed_order_oracle(case, noal, mt, t % 3)
            ck.case(("mixed", json.dumps(case, sort_keys=True), noal, mt, t % 3), nontrivial=(st in ("ok", "fail")))
            ck.count("mixed-order.%s" % st)
            if st == "fail":
                sh = mixed_order_shape(case)
                (d1, s1, e1), (d2, s2, e2) = case["store"], case["load"]
                ck.report("C09:mixed-byte-order:" + sh,
                          "a %d-bit %s store at [p%+d] read back by a %d-bit %s load at [p%+d] under %s: y is %#x, byte-level execution gives %#x (symbolic value: %s)"
                          % (s1, "big-endian" if e1 < 0 else "little-endian", d1, s2, "big-endian" if e2 < 0 else "little-endian", d2,
                             setting_name(noal, mt), d["got"], d["expected"], d["symbolic"]),
                          "oracle", "outside Amoco.Mapper.Props.alias_sound (one byte order per program)",
                          case={"mixed": case, "noaliasing": noal, "memtrace": mt, "k": t % 3}, real=d, expected=d["expected"])

    for b in broken:
        ck.report("C09:proof-obligation", "proof obligation broken: %s" % b[:300], "proof-obligation", b[:2000],
                  failing_input_found=False)
    if ties:
        prog, noal, mt, where, real, mod = ties[0]
        ck.report("C09:correspondence", "%d disagreements between the mapper model and the code without a property failure (first: %s, %s)"
                  % (len(ties), shape(prog), where), "correspondence",
                  "correspondence Amoco.Mapper (M / aliasing / _Mem_read / _Mem_write / __setitem__) ~ cas/mapper.py: " + where,
                  case={"prog": prog, "noaliasing": noal, "memtrace": mt}, real=real, model=mod, failing_input_found=False)
    ck.oblige("correspondence mapper pointer path", not ties, "%d" % len(ties))
    ck.assumptions += [
        "pointer assignments do not wrap around the address space (hypothesis Access.noWrap; the generator keeps pointers far from 0 and 2^32)",
        "one byte order per program in the theorems and the correspondence (sh2 mixes them: the mixed case is covered by the second oracle only)",
        "operators are uninterpreted in the theorems (any meaning `sem`); the algebra's own rewriting is C01's business and is compared up to value on probe states",
    ]
    ck.trusted += ["harness/map_real.py canonical dumps (flattening of slices/compositions), harness/map_ref.py reference semantics",
                   "compiled Lean driver drv_map", "C08 zone model and its theorems (read_refines, abs_write, abs_copy)"]
    return ck.finish("shaped store/load programs over 2-3 pointer registers (wide store, narrower re-store at the same or a shifted address, "
                     "store through another base in between, loads wider/narrower than the last store) and random pointer programs with pointer "
                     "arithmetic, sizes 8..64, both byte orders; 3 settings; pointer assignments equal / overlapping / disjoint / mixed; "
                     "non-trivial = the oracle compared a composed state with the byte-level execution")


def replay(path):
    """./check C09 --replay <file>: re-runs the recorded IR case on the current tree and prints what the real
       mapper gives (`concrete >> symbolic`), what the model gives and what the reference execution expects"""
    rec = json.load(open(path))
    case = rec.get("case") or {}
    if "mixed" in case:
        noal, mt = case.get("noaliasing", False), case.get("memtrace", True)
        st, d = mixed_order_oracle(case["mixed"], noal, mt, case.get("k", 0))
        print("mixed byte orders:", mixed_order_shape(case["mixed"]), json.dumps(case["mixed"]), "| setting:", setting_name(noal, mt))
        print("oracle on the real code:", st, d if d else "")
        return 1 if st == "fail" else 0
    prog = case.get("prog")
    if not prog or any(s == ["--then--"] for s in prog.get("stmts", [])) or "isa" in case:
        print(json.dumps(rec, indent=1)[:20000])
        print("(recorded case is not a single IR program: shown as recorded)")
        return 0
    noal, mt = case.get("noaliasing", False), case.get("memtrace", True)
    vals = {k: int(v) for k, v in (case.get("pointers") or {}).items()}
    from map_real import Settings, run as run_real
    from map_check import base_state
    print("program:", json.dumps(prog))
    print("shape:", shape(prog), "| setting:", setting_name(noal, mt), "| pointers:", {k: hex(v) for k, v in vals.items()})
    with Settings(noal, mt):
        m, _ = run_real(prog)
        print("real symbolic map:")
        for line in str(m).split("\n"):
            print("   ", line)
    st, d = oracle(prog, noal, mt, vals)
    print("oracle on the real code:", st, d if d else "")
    drv = Driver("drv_map")
    st0 = base_state(vals)
    ref = st0.copy()
    map_ref.run(prog, ref)
    regs = [[nm, map_gen.REGSIZE[nm], st0.reg(nm)] for nm in map_gen.REGSIZE]
    probe = sorted(ref.mem)[:64]
    ap = drv.ask({"op": "map.apply", "prog": prog, "noaliasing": noal, "memtrace": mt, "regs": regs, "probe": probe})
    drv.close()
    names = list(map_gen.REGSIZE)
    print("model  applyMap(symExec):", {n: hex(v) for n, v in zip(names, ap["sym"]["regs"])} if isinstance(ap, dict) else ap)
    print("expected (sequential)   :", {n: hex(ref.reg(n)) for n in names})
    print("expected memory         :", {hex(a): hex(ref.byte(a)) for a in probe})
    if isinstance(ap, dict):
        print("model memory            :", {hex(a): hex(b) for a, b in zip(probe, ap["sym"]["mem"])})
    return 1 if st == "fail" else 0


if __name__ == "__main__":
    sys.exit(main(sys.argv[1] if len(sys.argv) > 1 else "quick"))
