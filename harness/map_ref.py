"""
map_ref.py — reference semantics of IR programs (see map_gen.py), independent of amoco and of the Lean model:
sequential execution on a register file (dict name -> int) and a byte memory (dict address -> byte over an
initial-content function).  Addresses are (base + disp) mod 2^32; a multi-byte access touches consecutive
addresses; little endian = least significant byte first.
"""

OPSEM = {
    "+": lambda a, b, m: (a + b) & m,
    "-": lambda a, b, m: (a - b) & m,
    "^": lambda a, b, m: a ^ b,
    "&": lambda a, b, m: a & b,
    "|": lambda a, b, m: a | b,
}


def init_byte(a):
    """initial content of memory (a fixed, address-dependent pattern)"""
    return (a * 131 + 89 + (a >> 8) * 7) & 0xFF


class State(object):
    def __init__(self, regs, regsize, mem=None, init=init_byte):
        self.regs = dict(regs)
        self.regsize = regsize
        self.mem = dict(mem or {})
        self.init = init
        self.accesses = []         # (kind, concrete address, nbytes) in program order

    def copy(self):
        s = State(self.regs, self.regsize, self.mem, self.init)
        return s

    def byte(self, a):
        v = self.mem.get(a)
        return self.init(a) if v is None else v

    def read(self, a, n, be):
        bs = [self.byte(a + k) for k in range(n)]
        if be:
            bs.reverse()
        v = 0
        for k, b in enumerate(bs):
            v |= b << (8 * k)
        return v

    def write(self, a, n, v, be):
        bs = [(v >> (8 * k)) & 0xFF for k in range(n)]
        if be:
            bs.reverse()
        for k, b in enumerate(bs):
            self.mem[a + k] = b

    def reg(self, name):
        return self.regs.get(name, 0) & ((1 << self.regsize[name]) - 1)


def size_of(e):
    from map_gen import size_of as so
    return so(e)


def ev(st, e, be):
    k = e[0]
    if k == "cst":
        return e[1] & ((1 << e[2]) - 1)
    if k == "reg":
        return st.reg(e[1])
    if k == "slc":
        return (ev(st, e[1], be) >> e[2]) & ((1 << e[3]) - 1)
    if k == "cat":
        v, pos = 0, 0
        for x in e[1]:
            v |= ev(st, x, be) << pos
            pos += size_of(x)
        return v
    if k == "addc":
        m = (1 << size_of(e[1])) - 1
        return (ev(st, e[1], be) + e[2]) & m
    if k == "op":
        m = (1 << size_of(e[2])) - 1
        return OPSEM[e[1]](ev(st, e[2], be), ev(st, e[3], be), m)
    if k == "load":
        a = address(st, e[1], be)
        n = e[2] // 8
        st.accesses.append(("load", a, n))
        return st.read(a, n, be)
    raise ValueError(e)


def address(st, addr, be):
    base, disp = addr
    return (ev(st, base, be) + disp) & 0xFFFFFFFF


def step(st, stmt, be):
    if stmt[0] == "set":
        _, name, rs, pos, size, e = stmt
        v = ev(st, e, be)
        old = st.reg(name)
        mask = ((1 << size) - 1) << pos
        st.regs[name] = (old & ~mask & ((1 << rs) - 1)) | ((v << pos) & mask)
    elif stmt[0] == "store":
        _, addr, size, e = stmt
        v = ev(st, e, be)                 # right-hand side first, as `fmap[loc] = fmap(e)` does
        a = address(st, addr, be)
        st.accesses.append(("store", a, size // 8))
        st.write(a, size // 8, v, be)
    else:
        raise ValueError(stmt)


def run(prog, st):
    """executes the program in place on st; returns st"""
    for s in prog["stmts"]:
        step(st, s, prog["be"])
    return st
