"""
map_ref.py — reference semantics of IR programs (see map_gen.py), independent of amoco and of the Lean model:
sequential execution on a register file (dict name -> int) and a byte memory (dict address -> byte over an
initial-content function).  Addresses are (base + disp) mod 2^32; a multi-byte access touches consecutive
addresses; little endian = least significant byte first.
"""

OPSEM = {
    "+": lambda a, b, m: (a + b) & m,
    "-": lambda a, b, m: (a - b) & m,
    "^": lambda a, b, m: a ^ b,
    "&": lambda a, b, m: a & b,
    "|": lambda a, b, m: a | b,
}


UOPSEM = {
    "-": lambda a, m: (-a) & m,
    "~": lambda a, m: (~a) & m,
}


def init_byte(a):
    """initial content of memory (a fixed, address-dependent pattern)"""
    return (a * 131 + 89 + (a >> 8) * 7) & 0xFF


class State(object):
    def __init__(self, regs, regsize, mem=None, init=init_byte):
        self.regs = dict(regs)
        self.regsize = regsize
        self.mem = dict(mem or {})
        self.init = init
        self.accesses = []         # (kind, concrete address, nbytes) in program order

    def copy(self):
        s = State(self.regs, self.regsize, self.mem, self.init)
        return s

    def byte(self, a):
        v = self.mem.get(a)
        return self.init(a) if v is None else v

    def read(self, a, n, be):
        bs = [self.byte(a + k) for k in range(n)]
        if be:
            bs.reverse()
        v = 0
        for k, b in enumerate(bs):
            v |= b << (8 * k)
        return v

    def write(self, a, n, v, be):
        bs = [(v >> (8 * k)) & 0xFF for k in range(n)]
        if be:
            bs.reverse()
        for k, b in enumerate(bs):
            self.mem[a + k] = b

    def reg(self, name):
        return self.regs.get(name, 0) & ((1 << self.regsize[name]) - 1)


def size_of(e):
    from map_gen import size_of as so
    return so(e)


def ev(st, e, be):
    k = e[0]
    if k == "cst":
        return e[1] & ((1 << e[2]) - 1)
    if k == "reg":
        return st.reg(e[1])
    if k == "slc":
        return (ev(st, e[1], be) >> e[2]) & ((1 << e[3]) - 1)
    if k == "cat":
        v, pos = 0, 0
        for x in e[1]:
            v |= ev(st, x, be) << pos
            pos += size_of(x)
        return v
    if k == "addc":
        m = (1 << size_of(e[1])) - 1
        return (ev(st, e[1], be) + e[2]) & m
    if k == "op":
        m = (1 << size_of(e[2])) - 1
        return OPSEM[e[1]](ev(st, e[2], be), ev(st, e[3], be), m)
    if k == "load":
        a = address(st, e[1], be)
        n = e[2] // 8
        st.accesses.append(("load", a, n))
        return st.read(a, n, be)
    raise ValueError(e)


def address(st, addr, be):
    base, disp = addr
    return (ev(st, base, be) + disp) & 0xFFFFFFFF


def step(st, stmt, be):
    if stmt[0] == "set":
        _, name, rs, pos, size, e = stmt
        v = ev(st, e, be)
        old = st.reg(name)
        mask = ((1 << size) - 1) << pos
        st.regs[name] = (old & ~mask & ((1 << rs) - 1)) | ((v << pos) & mask)
    elif stmt[0] == "store":
        _, addr, size, e = stmt
        v = ev(st, e, be)                 # right-hand side first, as `fmap[loc] = fmap(e)` does
        a = address(st, addr, be)
        st.accesses.append(("store", a, size // 8))
        st.write(a, size // 8, v, be)
    else:
        raise ValueError(stmt)


def run(prog, st):
    """executes the program in place on st; returns st"""
    for s in prog["stmts"]:
        step(st, s, prog["be"])
    return st


# ---------------------------------------------------------------------------------------------------
# canonical expressions (the common dump format of map_real.canon and of the Lean driver)
# ---------------------------------------------------------------------------------------------------

COMMUTATIVE = ("+", "^", "&", "|")


def norm_canon(c):
    """canonical parts with the operands of commutative operators sorted (amoco orders them lexically)"""
    import json
    out = []
    for p in c:
        if p[0] == "c":
            out.append(["c", p[1], p[2]])
        else:
            out.append(["s", _norm_leaf(p[1]), p[2], p[3]])
    return out


def _norm_leaf(l):
    import json
    k = l[0]
    if k == "r" or k == "?":
        return list(l)
    if k == "l":
        return ["l", norm_canon(l[1]), l[2], l[3], l[4], [_norm_mod(m) for m in l[5]]]
    if k == "a":
        return ["a", norm_canon(l[1]), l[2], l[3]]
    if k == "o":
        a, b = norm_canon(l[2]), norm_canon(l[3])
        if l[1] in COMMUTATIVE and json.dumps(b, sort_keys=True) < json.dumps(a, sort_keys=True):
            a, b = b, a
        return ["o", l[1], a, b, l[4]]
    if k == "u":
        return ["u", l[1], norm_canon(l[2]), l[3]]
    return list(l)


def _norm_mod(m):
    if m and m[0] == "reg-mod":
        return list(m)
    return [norm_canon(m[0]), m[1], norm_canon(m[2]), m[3]]


class CanonUnknown(Exception):
    pass


def eval_canon(c, st):
    """value of a canonical expression under the state st (loads replay their mods on a private copy)"""
    v, pos = 0, 0
    for p in c:
        if p[0] == "c":
            v |= (p[1] & ((1 << p[2]) - 1)) << pos
            pos += p[2]
        else:
            x = _eval_leaf(p[1], st)
            v |= ((x >> p[2]) & ((1 << p[3]) - 1)) << pos
            pos += p[3]
    return v


def width_canon(c):
    return sum(p[2] if p[0] == "c" else p[3] for p in c)


def _eval_leaf(l, st):
    k = l[0]
    if k == "r":
        return st.reg(l[1]) & ((1 << l[2]) - 1)
    if k == "a":
        return (eval_canon(l[1], st) + l[2]) & ((1 << l[3]) - 1)
    if k == "o":
        f = OPSEM.get(l[1])
        if f is None:
            raise CanonUnknown(l[1])
        return f(eval_canon(l[2], st), eval_canon(l[3], st), (1 << l[4]) - 1)
    if k == "u":
        f = UOPSEM.get(l[1])
        if f is None:
            raise CanonUnknown(l[1])
        return f(eval_canon(l[2], st), (1 << l[3]) - 1)
    if k == "l":
        s2 = st
        if l[5]:
            s2 = st.copy()
            for m in l[5]:
                if m[0] == "reg-mod":
                    raise CanonUnknown("reg-mod")
                w = width_canon(m[0])
                a = (eval_canon(m[0], st) + m[1]) & ((1 << w) - 1)
                s2.write(a, width_canon(m[2]) // 8, eval_canon(m[2], st), m[3])
        w = width_canon(l[1])
        a = (eval_canon(l[1], st) + l[2]) & ((1 << w) - 1)
        return s2.read(a, l[3] // 8, l[4])
    raise CanonUnknown(k)


def probe_states(regsize, r, k=3):
    """a few states for semantic comparison of canonical expressions"""
    out = []
    for i in range(k):
        regs = {}
        for n, s in regsize.items():
            regs[n] = r.getrandbits(s) if s > 32 else (0x2000 + 0x40 * r.randrange(0, 4) + r.randrange(0, 8) if i % 2 == 0 else r.getrandbits(s))
        out.append(State(regs, regsize))
    return out


def load_leaves(c, out=None):
    """every load leaf of a (normalised) canonical expression, with its mods, as strings"""
    import json
    if out is None:
        out = []
    for p in c:
        if p[0] != "s":
            continue
        l = p[1]
        if l[0] == "l":
            out.append(json.dumps(["l", l[1], l[2] - 0, l[4], l[5]], sort_keys=True))
            load_leaves(l[1], out)
            for m in l[5]:
                if m and m[0] != "reg-mod":
                    load_leaves(m[0], out)
                    load_leaves(m[2], out)
        elif l[0] == "o":
            load_leaves(l[2], out)
            load_leaves(l[3], out)
        elif l[0] in ("a", "u"):
            load_leaves(l[1] if l[0] == "a" else l[2], out)
    return out


def same_canon(a, b, states):
    """structurally equal (modulo operand order of commutative operators), or — when they differ only by
       the algebra's rewriting — equal in value on the probe states.  returns "equal" | "semantic" | "different" """
    import json
    na, nb = norm_canon(a), norm_canon(b)
    if json.dumps(na, sort_keys=True) == json.dumps(nb, sort_keys=True):
        return "equal"
    if width_canon(a) != width_canon(b):
        return "different"
    try:
        for st in states:
            if eval_canon(a, st) != eval_canon(b, st):
                return "different"
    except CanonUnknown:
        return "different"
    # equal in value; the algebra may have reordered / folded operators, but the loads (base, mods, byte order)
    # the two sides mention should be the same ones — reported apart when they are not
    def sig(leaves):
        out = set()
        for x in leaves:
            l = json.loads(x)
            out.add(json.dumps([l[1], l[2], l[3], [[m[0], m[1], m[3]] for m in l[4] if m and m[0] != "reg-mod"]], sort_keys=True))
        return out
    sa, sb = sig(load_leaves(na)), sig(load_leaves(nb))
    if sa != sb and not (sa <= sb or sb <= sa):
        return "semantic-mods-differ"
    return "semantic"
