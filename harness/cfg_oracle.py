"""
cfg_oracle.py — property-level oracles for C18, written in plain Python over instruction dumps
`[addr, bytes|len, cf, delayed]`; nothing here imports amoco.
"""


def ilen(d):
    return d[1] if isinstance(d[1], int) else len(d[1])


# ---------------------------------------------------------------------------------------
# sweep
# ---------------------------------------------------------------------------------------

def check_sequence(table, loc, mod, seq, limit):
    """seq: list of dumps yielded by the sweep from `loc` (at most `limit`).  Each instruction must be
    what the reader gives at its address, start where the previous one ends, and the sweep must stop
    only where the reader gives nothing.  returns list of problems."""
    bad = []
    a = loc if mod is None else loc % mod
    for k, d in enumerate(seq):
        if d[0] != a:
            bad.append("not-consecutive@%d" % k)
            break
        t = table.get(a)
        if not isinstance(t, list):
            bad.append("not-readable@%d" % k)
            break
        if t[1:] != d[1:]:
            bad.append("differs-from-reader@%d" % k)
            break
        a = a + ilen(d)
        if mod is not None:
            a %= mod
    else:
        if len(seq) < limit and isinstance(table.get(a, "none"), list):
            bad.append("stopped-early")
    return bad


def ends_block(prev_delayed, d):
    return (not d[3]) and (d[2] or prev_delayed)


def check_blocks(seq, blocks, complete):
    """blocks: list of lists of dumps.  They must concatenate to (a prefix of) seq, be non-empty, have
    no block end strictly inside, and end at a block end (except the trailing block of a complete
    sweep)."""
    bad = []
    flat = [d for b in blocks for d in b]
    if complete:
        if flat != seq:
            bad.append("concat!=stream")
    elif flat != seq[: len(flat)]:
        bad.append("concat-not-prefix")
    for k, b in enumerate(blocks):
        if not b:
            bad.append("empty-block")
            continue
        for j, d in enumerate(b):
            e = ends_block(j > 0 and b[j - 1][3], d)
            last = j == len(b) - 1
            if e and not last:
                bad.append("end-inside-block")
            if last and not e and not (complete and k == len(blocks) - 1):
                bad.append("block-not-ended")
    return bad


# ---------------------------------------------------------------------------------------
# block
# ---------------------------------------------------------------------------------------

def blk_support(b):
    if not b:
        return None
    return [b[0][0], b[0][0] + sum(ilen(d) for d in b)]


def blk_raw(b):
    out = []
    for d in b:
        out += list(d[1])
    return out


def blk_getitem(b, sta, sto):
    """expected result of block[sta:sto]: list of dumps or None"""
    total = sum(ilen(d) for d in b)
    rg = range(total)[slice(sta, sto)]
    a, o = rg.start, rg.stop
    bounds = [0]
    for d in b:
        bounds.append(bounds[-1] + ilen(d))
    if a not in bounds or o not in bounds:
        return None
    sel = [d for d, off in zip(b, bounds) if a <= off < o]
    return sel or None


def blk_cut(b, addr):
    """(remaining, nl)"""
    for k, d in enumerate(b):
        if d[0] == addr:
            return b[:k], len(b) - k
    return b, 0


# ---------------------------------------------------------------------------------------
# cfg
# ---------------------------------------------------------------------------------------

def check_partition(stream_addrs, hist, support, edges):
    """stream_addrs: addresses of the stream's instructions + end address (len n+1).
    hist: list of (s, e) inserted so far.  support: [[vaddr, len, [instr addrs]]...], edges: [[a,b]...].
    returns the list of violated aspects of the property."""
    A = stream_addrs
    idx = {a: k for k, a in enumerate(A)}
    bad = []
    want = set()
    for s, e in hist:
        want |= set(A[s:e])
    got = [x for (_, _, l) in support for x in l]
    if len(got) != len(set(got)):
        bad.append("instruction-twice")
    if set(got) - want:
        bad.append("instruction-not-inserted")
    if want - set(got):
        bad.append("instruction-lost")
    prev_end = None
    for (a, l, il) in support:
        if not il or il[0] != a or a not in idx:
            bad.append("entry-shape")
            continue
        k = idx[a]
        if k + len(il) > len(A) - 1 or il != A[k:k + len(il)] or l != A[k + len(il)] - a:
            bad.append("entry-not-a-run")
        if prev_end is not None and prev_end > a:
            bad.append("overlap")
        prev_end = a + l
    es = set((x, y) for x, y in edges)
    for (a1, l1, il1), (a2, l2, il2) in zip(support, support[1:]):
        if a1 + l1 == a2 and a2 in idx:
            p = idx[a2]
            if any(s < p < e for s, e in hist) and (a1, a2) not in es:
                bad.append("no-fallthrough-edge")
    return sorted(set(bad))


def expected_get(support, a):
    for (va, l, il) in support:
        if va <= a < va + l:
            return va
    return None


# ---------------------------------------------------------------------------------------
# histories on one sweep object (getblock / iterblocks interleaved with graph insertions)
# ---------------------------------------------------------------------------------------

def expected_runs(path, k0, complete):
    """the basic blocks of the sweep started at path[k0]: maximal runs ending at a block end; the
    trailing run without a block end only counts when the stream is known to stop there.
    returns list of (s, e) index pairs."""
    runs, s, prev = [], k0, False
    for j in range(k0, len(path)):
        d = path[j]
        if ends_block(prev, d):
            runs.append((s, j + 1))
            s, prev = j + 1, False
        else:
            prev = prev or d[3]
    if complete and s < len(path):
        runs.append((s, len(path)))
    return runs


def check_handed(path, complete, loc, blocks, props, exhausted, asked):
    """blocks (lists of dumps) handed out by one getblock/iterblocks call started at address `loc`,
    judged against the instruction stream `path` (independent reader walk).  `asked`: number of
    blocks requested.  returns list of problems (first = the aspect)."""
    idx = {d[0]: k for k, d in enumerate(path)}
    if loc not in idx:
        return [] if not blocks or not complete else ["block-off-stream"]
    exp = expected_runs(path, idx[loc], complete)
    bad = []
    for k, b in enumerate(blocks):
        if k >= len(exp):
            if complete:
                bad.append("block-beyond-stream")
            break
        s, e = exp[k]
        want = path[s:e]
        if b != want:
            if b == want[: len(b)]:
                bad.append("block-too-short" if b else "empty-block")
            elif b[: len(want)] == want:
                bad.append("block-too-long")
            elif b and b[0][0] != want[0][0]:
                bad.append("block-wrong-start")
            else:
                bad.append("block-differs-from-stream")
            break
        sup, length, raw = props[k]
        if sup != blk_support(want):
            bad.append("bad-support")
        if length != sum(ilen(d) for d in want):
            bad.append("bad-length")
        if raw != blk_raw(want):
            bad.append("bad-raw")
        if bad:
            break
    if not bad:
        if complete and len(blocks) < min(asked, len(exp)):
            bad.append("blocks-missing")
        if complete and exhausted and len(blocks) != len(exp):
            bad.append("blocks-missing")
    return bad


def judge_sweep_history(path, complete, ops, steps):
    """property oracle for one history.  returns None or (aspect, context, op index, detail)."""
    A = [d[0] for d in path] + [path[-1][0] + ilen(path[-1])]
    idx = {a: k for k, a in enumerate(A)}
    hists, off = {}, set()
    for k, st in enumerate(steps):
        op = ops[k]
        call = "iterblocks" if op[0] == "ib" else "getblock"
        if st["res"] == "unmodelled":
            return None
        if st["res"] != "ok":
            return ("%s:raise:%s" % (call, st["exc"]), "", k, st.get("msg", ""))
        ctx = "repeat-after-cut" if st["cut_before"] else ("repeat" if st["repeat"] else "first-call")
        asked = op[3] if op[0] == "ib" else 1
        bad = check_handed(path, complete, op[1], st["blocks"], st["props"], st["exhausted"], asked)
        if bad:
            return ("%s:%s" % (call, bad[0]), ctx, k, ",".join(bad))
        for rec in st["ins"]:
            g = rec["g"]
            if g in off or rec["first"] not in idx or idx[rec["first"]] + rec["n"] > len(A) - 1:
                off.add(g)           # a block beyond the known part of the stream went in: this graph is not judged any more
                continue
            s = idx[rec["first"]]
            h = hists.setdefault(g, [])
            h.append((s, s + rec["n"]))
            bad = check_partition(A, h, rec["support"], rec["edges"])
            if rec["overlay"]:
                bad.append("overlay-used")
            if rec["vertices"] != [x[0] for x in rec["support"]]:
                bad.append("vertex-not-in-support")
            if bad:
                return ("add_vertex:%s" % bad[0], "graph-%s" % ("own" if g == "G" else "fresh"), k, ",".join(bad))
    return None
