"""
C14 — Executable-format parsers report what the file encodes.

Theorems (lean/Amoco/Props/C14.lean) are about the models `Amoco.Fmt` (HexSrec.lean, Elf.lean); this
harness ties them to /repo on every run:
  T  reflection of the *patched* struct instances of elf.py (all class × byte-order combinations) →
     lean/Generated/FmtStructs.lean (theorems `generated_eq_model`, `elf_layouts` re-checked by the
     build) and, evaluated, against the driver's field lists / layouts / specification tables and an
     independent `struct.calcsize` layout;
  H  Intel-HEX / S-record lines and streams (valid, corrupted checksum / length / characters):
     real `HEXline/SRECline/HEX/SREC` (+ `pack`) vs model vs strict by-the-book parsers;
  E  synthesised ELF images (4 class × order combinations, arbitrary numbers / positions of program
     headers, sections, symbols), the shipped samples and field-level variations of them:
     real `Elf` attribute dump (+ getinfo / getfileoffset / readsegment) vs model vs a `struct`
     reader; `llvm-readobj` validates the reader on the corpus in the thorough tier;
  P  PE / Mach-O: generated header sets, the samples and variations: real attribute dump vs a
     `struct` reader; header-level acceptance vs the model's magic predicates.
"""
import sys, os, json, glob, struct, tempfile
from common import *
import fmt_real as R, fmt_gen as G, fmt_oracle as O, fmt_reflect


def js(x):
    return json.dumps(x, sort_keys=True)


def first_diff(a, b):
    """path of the first difference between two JSON-like values"""
    if type(a) != type(b):
        return ""
    if isinstance(a, dict):
        for k in sorted(set(a) | set(b)):
            if a.get(k) != b.get(k):
                return "%s.%s" % (k, first_diff(a.get(k), b.get(k)))
    if isinstance(a, list):
        if len(a) != len(b):
            return "len"
        for i, (x, y) in enumerate(zip(a, b)):
            if x != y:
                return "[%d]%s" % (i, first_diff(x, y))
    return ""


def sample_files():
    root = os.path.join(REPO, "tests", "samples")
    return sorted(f for f in glob.glob(os.path.join(root, "**", "*"), recursive=True) if os.path.isfile(f))


# ---------------------------------------------------------------------------------------

def check_structs(ck, drv, structs, corr):
    m = drv.ask({"op": "fmt.structs"})
    lay = O.oracle_layouts()
    for key in sorted(structs):
        ck.count("T.structs")
        base = key[:-2] if key[-2:] in ("le", "be") else key            # Phdr64le → Phdr64
        order = ">" if key.endswith("be") else "<"
        refl = structs[key]["fields"]
        mod = m.get(base)
        ck.case(("T", key), nontrivial=True)
        if mod is None:
            corr.append(("structs:" + key, {"struct": key}, refl, None))
            continue
        want = [[f[0], f[1], f[2]] for f in refl]
        if want != mod["fields"] or any(f[4] != order for f in refl) or any(f[3] not in "BHIQcb" for f in refl):
            # the patched instances no longer are what the model assumes: does the real layout still match the specification?
            corr.append(("structs:" + key, {"struct": key}, refl, mod["fields"]))
        if mod["layout"] != mod["spec"]:
            corr.append(("layout:" + key, {"struct": key}, mod["layout"], mod["spec"]))
        if lay.get(base) != mod["spec"]:
            corr.append(("spec-table:" + key, {"struct": key}, lay.get(base), mod["spec"]))
        # property oracle on the real instances: walk the reflected fields like StructCore.unpack and compare with the specification
        off, real_lay = (16 if base.startswith("Ehdr") else 0), []
        for (name, sz, cnt, tn, od) in refl:
            if sz is None or not isinstance(cnt, int):
                real_lay = None
                break
            if not base.startswith("Ehdr") and sz:
                off += (-off) % sz
            n = sz * (cnt or 1)
            real_lay.append([name, off, n])
            off += n
        if real_lay != lay.get(base) or any(f[4] != order for f in refl):
            ck.report("C14:elf:layout:" + key, "patched %s instance lays its fields out at %r, the ELF specification says %r"
                      % (key, real_lay, lay.get(base)), "oracle", "Amoco.Fmt.Props.elf_layouts / generated_eq_model",
                      case={"struct": key}, real=refl, model=mod["fields"], expected=lay.get(base))
    ck.sample({"T": ["Phdr64le", structs["Phdr64le"]["fields"], m["Phdr64"]["layout"]]})


# ---------------------------------------------------------------------------------------

def check_pyint(ck, drv, r, n, corr):
    alpha = b"0123456789abcdefABCDEFxX_+- \t\n\x00gz\xff"
    cases = []
    for _ in range(n):
        ln = r.choice([0, 1, 2, 2, 3, 4, 4, 5, 8])
        s = bytes(r.choice(alpha) if r.random() < 0.5 else r.choice(b"0123456789ABCDEF") for _ in range(ln))
        cases.append((s, r.choice([16, 16, 16, 10])))
    ans = drv.ask_many([{"op": "fmt.pyint", "s": s.hex(), "base": b} for s, b in cases])
    for (s, b), a in zip(cases, ans):
        try:
            real = {"ok": int(s, b)}
        except ValueError:
            real = {"exn": "ValueError"}
        ck.case(("I", s, b), nontrivial="ok" in real)
        ck.count("I.int()." + ("value" if "ok" in real else "ValueError"))
        if real != a:
            corr.append(("pyint", {"s": s.hex(), "base": b}, real, a))


def srec_cksum_differs(line, parsed):
    """the last two characters are not the checksum of the bytes before them (independent of amoco)"""
    l = line.strip(b" \t\r\n\x0b\x0c")
    try:
        body = bytes.fromhex(l[2:-2].decode("ascii"))
        last = int(l[-2:], 16)
    except (ValueError, UnicodeDecodeError):
        return False
    return ((sum(body) & 0xff) ^ 0xff) != last


def check_hexsrec(ck, drv, r, quick, corr):
    nrec = 600 if quick else 8000
    # ---- single lines ------------------------------------------------------------------
    lines = []       # (fmt, kind, line, rec)
    for _ in range(nrec):
        if r.random() < 0.5:
            recs = G.gen_hex_records(r)
            c, a, t, d = r.choice(recs)
            up = r.random() < 0.8
            line = G.hex_line(c, a, t, d, upper=up)
            lines.append(("hex", "valid", line, (c, a, t, d)))
            k, bad = G.corrupt_line(r, line, "hex")
            lines.append(("hex", k, bad, None))
        else:
            recs = G.gen_srec_records(r) or [(1, 0, b"")]
            t, a, d = r.choice(recs)
            line = G.srec_line(t, a, d, upper=r.random() < 0.8)
            lines.append(("srec", "valid", line, (t, a, d)))
            k, bad = G.corrupt_line(r, line, "srec")
            lines.append(("srec", k, bad, None))
    # every wrong checksum byte for a few records (the quantifier of *_bad_checksum_rejected)
    for fmt in ("hex", "srec"):
        for _ in range(2 if quick else 12):
            if fmt == "hex":
                line = G.hex_line(3, r.getrandbits(16), 0, bytes(r.getrandbits(8) for _ in range(3)))
            else:
                line = G.srec_line(r.choice([1, 2, 3]), r.getrandbits(16), bytes(r.getrandbits(8) for _ in range(3)))
            good = int(line[-2:], 16)
            for ckb in range(256):
                if ckb != good:
                    lines.append((fmt, "cksum", line[:-2] + b"%02X" % ckb, None))
    reqs = [{"op": "fmt.hexline" if f == "hex" else "fmt.srecline", "line": l.hex()} for (f, k, l, rec) in lines]
    ans = drv.ask_many(reqs)
    for (f, kind, line, rec), mod in zip(lines, ans):
        real = R.real_hexline(line) if f == "hex" else R.real_srecline(line)
        site = real.pop("site", None)
        verdict, orec = (O.hex_record(line) if f == "hex" else O.srec_record(line))
        ck.case(("L", f, line), nontrivial="ok" in real)
        ck.count("L.%s.%s" % (f, kind))
        ck.count("L.%s.real-%s" % (f, "accept" if "ok" in real else real["exn"]))
        errname = "HEXError" if f == "hex" else "SRECError"
        flagged = False
        # property oracle
        if verdict == "ok":
            if "ok" not in real:
                flagged = ck.report("C14:%s:rejects-valid-record" % f, "%s rejects the well-formed record %r (%s)" % (f.upper(), line, real["exn"]),
                                    "oracle", "Amoco.Fmt.Props.%s_roundtrip" % f, case={"line": line.hex()}, real=real, model=mod, expected=orec) or True
            else:
                got = {k: real["ok"][k] for k in orec}
                if got != orec:
                    flagged = ck.report("C14:%s:record-fields" % f, "%s record %r decodes to %r, the format says %r" % (f.upper(), line, got, orec),
                                        "oracle", "Amoco.Fmt.Props.%s_roundtrip" % f, case={"line": line.hex()}, real=real, model=mod, expected=orec) or True
        elif verdict == "cksum":
            if real.get("exn") != errname:
                flagged = ck.report("C14:%s:bad-checksum-accepted" % f,
                                    "%s line %r has a wrong checksum byte but is %s" % (f.upper(), line, "accepted" if "ok" in real else "answered with " + real["exn"]),
                                    "oracle", "Amoco.Fmt.Props.%s_bad_checksum_rejected" % f, case={"line": line.hex()}, real=real, model=mod,
                                    expected={"exn": errname}) or True
        elif "exn" in real and real["exn"] != errname:
            # malformed line: whatever the verdict, it must come as the format's own error (C20 shares this; reported there too)
            ck.count("L.%s.escapes-%s" % (f, real["exn"]))
        # correspondence
        if not flagged and real != mod:
            if "exn" in real and "exn" in mod and real["exn"] != errname and mod["exn"] == errname:
                ck.count("L.%s.unrepaired-exception-class" % f)      # judged by C20
            elif f == "srec" and "ok" in real and mod.get("exn") == "SRECError" and srec_cksum_differs(line, real["ok"]):
                ck.report("C14:srec:bad-checksum-accepted", "SREC line %r does not end with its checksum byte but is accepted" % line, "oracle",
                          "Amoco.Fmt.Props.srec_bad_checksum_rejected", case={"line": line.hex()}, real=real, model=mod, expected={"exn": "SRECError"})
            else:
                corr.append(("%sline" % f, {"line": line.hex(), "kind": kind}, real, mod))
        # print direction: pack() of the parsed record reproduces the model's printer
        if rec is not None and "ok" in real and verdict == "ok":
            if f == "hex":
                c, a, t, d = rec
                pm = drv.ask({"op": "fmt.hexprint", "count": c, "address": a, "code": t, "data": bytes(d).hex(), "ck": real["ok"]["cksum"]})
                packed = R.HEXline(line).pack()
            else:
                t, a, d = rec
                pm = drv.ask({"op": "fmt.srecprint", "type": t, "address": a, "data": bytes(d).hex(), "ck": real["ok"]["cksum"]})
                packed = R.SRECline(line).pack()
            if packed.hex() != pm["line"] or pm["cksum"] != real["ok"]["cksum"]:
                corr.append(("%sprint" % f, {"line": line.hex()}, packed.hex(), pm))
            if packed.upper() != line.strip().upper():
                ck.report("C14:%s:pack-roundtrip" % f, "%s pack() of the parsed record gives %r for %r" % (f.upper(), packed, line), "oracle",
                          "Amoco.Fmt.Props.%s_roundtrip" % f, case={"line": line.hex()}, real=packed.hex(), model=pm, expected=line.hex())
    ck.sample({"L": [lines[0][2].decode("latin1"), ans[0]]})
    # ---- streams -----------------------------------------------------------------------
    nstream = 200 if quick else 3000
    files = []
    for _ in range(nstream):
        if r.random() < 0.5:
            mix = r.random() < 0.15
            recs = G.gen_hex_records(r, mix=mix)
            data = G.hex_stream(r, recs)
            files.append(("hex", "mixed" if mix else "valid", data))
            if r.random() < 0.3:
                ls = data.split(b"\n")
                i = r.randrange(len(ls))
                if ls[i].strip():
                    k, ls[i] = G.corrupt_line(r, ls[i].rstrip(b"\r"), "hex")
                    files.append(("hex", "corrupt-" + k, b"\n".join(ls)))
        else:
            recs = G.gen_srec_records(r)
            data = G.srec_stream(r, recs)
            files.append(("srec", "valid", data))
            if r.random() < 0.3:
                ls = data.split(b"\n")
                i = r.randrange(len(ls))
                if ls[i].strip():
                    k, ls[i] = G.corrupt_line(r, ls[i].rstrip(b"\r"), "srec")
                    files.append(("srec", "corrupt-" + k, b"\n".join(ls)))
    for f in sample_files():
        if f.endswith(".hex"):
            files.append(("hex", "sample", open(f, "rb").read()))
    ans = drv.ask_many([{"op": "fmt.hex" if f == "hex" else "fmt.srec", "data": d.hex()} for (f, k, d) in files])
    for (f, kind, data), mod in zip(files, ans):
        real = R.real_hexfile(data) if f == "hex" else R.real_srecfile(data)
        real.pop("site", None)
        ck.case(("F", f, data), nontrivial="ok" in real)
        ck.count("F.%s.%s" % (f, kind))
        flagged = False
        # by-the-book reading of the stream
        verd = [(O.hex_record(l) if f == "hex" else O.srec_record(l)) for l in data.split(b"\n") if l.strip() or f == "hex"]
        if f == "hex" and data.endswith(b"\n"):
            verd = verd[:-1]
        if verd and all(v[0] == "ok" for v in verd):
            recs = [v[1] for v in verd]
            if "ok" not in real:
                flagged = ck.report("C14:%s:rejects-valid-stream" % f, "valid %s stream rejected (%s)" % (f.upper(), real.get("exn")), "oracle",
                                    "Amoco.Fmt.Props.%s_roundtrip" % f, case={"data": data.hex()}, real=real, model=mod) or True
            else:
                got = [{k: l[k] for k in recs[0]} for l in real["ok"]["lines"]]
                exp_addr = O.hex_addresses(recs) if f == "hex" else [[x["address"], x["data"]] for x in recs if x["type"] in (1, 2, 3)]
                if got != recs:
                    flagged = ck.report("C14:%s:stream-records" % f, "%s stream decodes to other records than it encodes" % f.upper(), "oracle",
                                        "Amoco.Fmt.Props.%s_roundtrip" % f, case={"data": data.hex()}, real=got, model=mod, expected=recs) or True
                elif real["ok"]["decode"] != exp_addr:
                    kinds = set(x["code"] for x in recs) if f == "hex" else set()
                    sig = "C14:hex:address-composition:mixed-02-04" if {2, 4} <= kinds else "C14:%s:address-composition" % f
                    flagged = ck.report(sig, "%s data records are placed at %r, the format says %r" % (f.upper(), [a for a, _ in real["ok"]["decode"]][:6], [a for a, _ in exp_addr][:6]), "oracle",
                                        "Amoco.Fmt.Props.hex_address_composition", case={"data": data.hex()}, real=real["ok"]["decode"],
                                        model=mod.get("ok", {}).get("decode") if isinstance(mod, dict) else None, expected=exp_addr) or True
        elif any(v[0] == "cksum" for v in verd) and all(v[0] in ("ok", "cksum") for v in verd):
            errname = "HEXError" if f == "hex" else "SRECError"
            if real.get("exn") != errname:
                flagged = ck.report("C14:%s:bad-checksum-accepted" % f, "%s stream with a wrong checksum is %s" % (f.upper(), "accepted" if "ok" in real else real["exn"]),
                                    "oracle", "Amoco.Fmt.Props.%s_bad_checksum_rejected" % f, case={"data": data.hex()}, real=real, model=mod,
                                    expected={"exn": errname}) or True
        # correspondence (model's own extra keys `ref`/`nomix` are theorem instances, checked below)
        m2 = mod
        if isinstance(mod, dict) and "ok" in mod:
            m2 = {"ok": {k: v for k, v in mod["ok"].items() if k not in ("ref", "nomix")}}
            if mod["ok"].get("nomix") and mod["ok"]["decode"] != mod["ok"]["ref"]:
                corr.append(("hex-composition-theorem-instance", {"data": data.hex()}, mod["ok"]["decode"], mod["ok"]["ref"]))
        if not flagged and real != m2:
            errname = "HEXError" if f == "hex" else "SRECError"
            if "exn" in real and isinstance(m2, dict) and m2.get("exn") == errname and real["exn"] != errname:
                ck.count("F.%s.unrepaired-exception-class" % f)
            elif f == "srec" and "ok" in real and isinstance(m2, dict) and m2.get("exn") == "SRECError" and \
                    any(srec_cksum_differs(l, None) for l in data.split(b"\n") if l.strip()):
                ck.report("C14:srec:bad-checksum-accepted", "SREC stream with a line that does not end with its checksum byte is accepted", "oracle",
                          "Amoco.Fmt.Props.srec_bad_checksum_rejected", case={"data": data.hex()}, real=real, model=m2, expected={"exn": "SRECError"})
            else:
                corr.append(("%sfile" % f, {"data": data.hex(), "kind": kind, "at": first_diff(real, m2)}, real, m2))
    ck.sample({"F": [files[0][2].decode("latin1")[:120], str(ans[0])[:300]]})


# ---------------------------------------------------------------------------------------

def elf_addrs(E, extra=()):
    a = list(extra) + [E["ehdr"]["e_entry"], 0]
    for s in E["shdr"][:30]:
        a += [s["sh_addr"], s["sh_addr"] + max(s["sh_size"], 1) - 1, s["sh_addr"] + s["sh_size"]]
    for p in E["phdr"][:12]:
        a += [p["p_vaddr"], p["p_vaddr"] + max(p["p_filesz"], 1) - 1, p["p_vaddr"] + p["p_filesz"]]
    return sorted(set(x for x in a if 0 <= x < (1 << 64)))[:48]


def vary_elf(r, data):
    """field-level variation of a valid image: one header / table field gets another plausible value"""
    try:
        E = O.read_elf(data)
    except O.OracleError:
        return None, None
    b = bytearray(data)
    o, x64 = E["o"], E["x64"]
    kind = r.choice(["e_entry", "e_machine", "e_type", "sh_addr", "sh_size", "p_vaddr", "p_filesz", "sh_type", "p_type", "e_shstrndx", "sym"])
    A = "Q" if x64 else "I"
    asz = 8 if x64 else 4
    def put(off, fmt, v):
        b[off:off + struct.calcsize(fmt)] = struct.pack(o + fmt, v)
    if kind == "e_entry":
        put(24, A, r.getrandbits(8 * asz))
    elif kind == "e_machine":
        put(18, "H", r.choice([3, 62, 40, 8, 2, 243, 183, 20, 0xffff]))
    elif kind == "e_type":
        put(16, "H", r.choice([0, 1, 2, 3, 4]))
    elif kind in ("sh_addr", "sh_size", "sh_type") and E["shdr"]:
        i = r.randrange(len(E["shdr"]))
        base = E["ehdr"]["e_shoff"] + i * E["ehdr"]["e_shentsize"]
        if kind == "sh_type":
            put(base + 4, "I", r.choice([1, 1, 7, 8, 14] + G.UNKNOWN_SHT[:1]))
        elif kind == "sh_addr":
            put(base + (16 if x64 else 12), A, r.choice([0, E["shdr"][i]["sh_addr"] + 0x1000, r.getrandbits(31)]))
        else:
            put(base + (32 if x64 else 20), A, r.choice([0, 1, E["shdr"][i]["sh_size"] + 1, 0x10]))
    elif kind in ("p_vaddr", "p_filesz", "p_type") and E["phdr"]:
        i = r.randrange(len(E["phdr"]))
        base = E["ehdr"]["e_phoff"] + i * E["ehdr"]["e_phentsize"]
        if kind == "p_type":
            put(base, "I", r.choice([0, 1, 4, 6, 0x6474e551] + G.UNKNOWN_PT[:1]))
        elif kind == "p_vaddr":
            put(base + (16 if x64 else 8), A, r.getrandbits(31))
        else:
            put(base + (32 if x64 else 16), A, r.choice([0, 1, 0x100]))
    elif kind == "e_shstrndx":
        put(62 if x64 else 50, "H", r.choice([0, 1, max(0, len(E["shdr"]) - 1), len(E["shdr"]), 0xffff]))
    elif kind == "sym":
        st = [s for s in E["shdr"] if s["sh_type"] == 2 and s["sh_entsize"] and s["sh_size"] >= s["sh_entsize"]]
        if st:
            s = st[0]
            i = r.randrange(s["sh_size"] // s["sh_entsize"])
            base = s["sh_offset"] + i * s["sh_entsize"]
            if x64:
                put(base + 8, "Q", r.getrandbits(32))
                put(base + 4, "B", r.choice([0x12, 0x11, 0x02, 0x01, 0x10]))
            else:
                put(base + 4, "I", r.getrandbits(31))
                put(base + 12, "B", r.choice([0x12, 0x11, 0x02, 0x01, 0x10]))
    return bytes(b), kind


def judge_elf(ck, data, real, env, meta):
    """property oracle: compare what amoco reports with a by-the-book reading. returns True when a
    deviation was reported (known finding or violation)."""
    try:
        E = O.read_elf(data)
    except O.OracleError:
        return False            # not a well-formed image: not judged
    sigs = meta.setdefault("_sigs", set())
    case = {"data": data.hex(), "meta": {k: v for k, v in meta.items() if k != "_sigs"}}
    rep = False
    _report = ck.report
    def report(sig, *a, **k):
        sigs.add(sig)
        return _report(sig, *a, **k)
    class _CK(object):
        pass
    ckr = _CK()
    ckr.report = report
    if real["init"] != "ok":
        # symbols the file gets wrong (unterminated names, bad entsize…) make rejection legitimate
        try:
            O.expected_symbols(data, E)
            names_ok = E["names"] is None or all(is_utf8(n) for n in E["names"])
        except Exception:
            return False
        if not names_ok or real["init"] in ("ElfError", "StructureError"):
            # a format error on an image whose tables read fine: only judged when the generator made it
            if meta.get("origin") == "synth" and names_ok:
                return ckr.report("C14:elf:rejects-valid:" + real["init"], "Elf() rejects a well-formed synthesised image (%s at %s)" % (real["init"], real.get("site")),
                                 "oracle", "Amoco.Fmt.Props.elf_parse_eq_ref_partial", case=case, real=real, expected="object") or True
            return False
        return False            # other exception classes are C20's business
    t = real["tables"]
    if t["ehdr"] != E["ehdr"] or t["ident"] != E["ident"]:
        rep = ckr.report("C14:elf:ehdr", "ELF header fields differ from the file: %s" % first_diff(t["ehdr"], E["ehdr"]), "oracle",
                        "Amoco.Fmt.Props.elf_parse_eq_ref_partial", case=case, real=t["ehdr"], expected=E["ehdr"]) or True
    if t["phdr"] != E["phdr"]:
        kept = [p for p in E["phdr"] if p["p_type"] in env["pt"]]
        if t["phdr"] == kept:
            rep = ckr.report("C14:elf:phdr-dropped:p_type-not-in-Consts", "program headers of a type outside amoco's p_type table are dropped from Elf.Phdr (%s)"
                            % sorted(set(hex(p["p_type"]) for p in E["phdr"] if p["p_type"] not in env["pt"])), "oracle",
                            "Amoco.Fmt.Props.elf_parse_eq_ref_partial (hypothesis ph_known)", case=case, real=t["phdr"], expected=E["phdr"]) or True
        else:
            rep = ckr.report("C14:elf:phdr", "program header table differs from the file: %s" % first_diff(t["phdr"], E["phdr"]), "oracle",
                            "Amoco.Fmt.Props.elf_parse_eq_ref_partial", case=case, real=t["phdr"], expected=E["phdr"]) or True
    rsh = [s["hdr"] for s in t["shdr"]]
    sh_ok = rsh == E["shdr"]
    if not sh_ok:
        kept = [s for s in E["shdr"] if s["sh_type"] in env["sht"]]
        if rsh == kept:
            rep = ckr.report("C14:elf:shdr-dropped:sh_type-not-in-Consts", "section headers of a type outside amoco's sh_type table are dropped from Elf.Shdr, "
                            "shifting every index into the table (e_shstrndx, sh_link, st_shndx)", "oracle", "Amoco.Fmt.Props.elf_parse_eq_ref_partial",
                            case=case, real=rsh, expected=E["shdr"]) or True
        else:
            rep = ckr.report("C14:elf:shdr", "section header table differs from the file: %s" % first_diff(rsh, E["shdr"]), "oracle",
                            "Amoco.Fmt.Props.elf_parse_eq_ref_partial", case=case, real=rsh, expected=E["shdr"]) or True
    if sh_ok and E["names"] is not None:
        rn = [s["name"] for s in t["shdr"]]
        en = [n.hex() for n in E["names"]]
        if rn != en:
            rep = ckr.report("C14:elf:section-names", "section names differ from the string table: %s" % first_diff(rn, en), "oracle",
                            "Amoco.Fmt.Props.elf_parse_eq_ref_partial", case=case, real=rn, expected=en) or True
    if real["entrypoints"] != [E["ehdr"]["e_entry"]]:
        rep = ckr.report("C14:elf:entry", "entry point %r, file says %r" % (real["entrypoints"], E["ehdr"]["e_entry"]), "oracle",
                        "Amoco.Fmt.Props.elf_object_eq_ref_partial", case=case, real=real["entrypoints"], expected=[E["ehdr"]["e_entry"]]) or True
    if sh_ok and t["phdr"] == E["phdr"]:
        try:
            fx, ox = O.expected_symbols(data, E)
            fx = sorted([[k, v] for k, v in fx.items()])
            ox = sorted([[k, v] for k, v in ox.items()])
            if real["functions"] != fx or real["variables"] != ox:
                rep = ckr.report("C14:elf:symbols", "symbol dictionaries differ from the symbol tables: %s"
                                % (first_diff(real["functions"], fx) or first_diff(real["variables"], ox)), "oracle",
                                "Amoco.Fmt.Props.elf_symtab_entries", case=case, real=[real["functions"], real["variables"]], expected=[fx, ox]) or True
        except Exception:
            pass
        for (a, w, off, base, fo) in real["queries"]:
            ew, eoff, ebase, efo = O.expected_query(E, a)
            if isinstance(fo, dict):
                rep = ckr.report("C14:elf:getfileoffset:" + fo["exn"], "getfileoffset(%#x) raises %s; the address lies at file offset %r" % (a, fo["exn"], efo),
                                "oracle", "Amoco.Fmt.Props.elf_getinfo_follows_mapping", case=dict(case, addr=a), real=fo, expected=efo) or True
            elif fo != efo:
                rep = ckr.report("C14:elf:getfileoffset", "getfileoffset(%#x) = %r, the mapping says %r" % (a, fo, efo), "oracle",
                                "Amoco.Fmt.Props.elf_getinfo_follows_mapping", case=dict(case, addr=a), real=fo, expected=efo) or True
            if [w, off, base] != [ew, eoff, ebase]:
                rep = ckr.report("C14:elf:getinfo", "getinfo(%#x) = %r, the mapping says %r" % (a, [w, off, base], [ew, eoff, ebase]), "oracle",
                                "Amoco.Fmt.Props.elf_getinfo_follows_mapping", case=dict(case, addr=a), real=[w, off, base], expected=[ew, eoff, ebase]) or True
    return rep


def is_utf8(b):
    try:
        b.decode("utf-8")
        return True
    except UnicodeDecodeError:
        return False


def check_elf(ck, drv, r, quick, env, corr):
    corpus = []          # (data, meta)
    nsyn = 400 if quick else 4000
    for i in range(nsyn):
        q = G.pick_quirks(r)
        x64, be = [(False, False), (False, True), (True, False), (True, True)][i % 4]
        data, meta = G.synth_elf(r, x64=x64, be=be, quirks=q)
        meta["origin"] = "synth"
        corpus.append((data, meta))
        if r.random() < 0.25:
            v, kind = vary_elf(r, data)
            if v is not None:
                corpus.append((v, dict(meta, origin="synth-var", var=kind)))
    samples = [f for f in sample_files() if open(f, "rb").read(4) == b"\x7fELF"]
    for f in samples:
        data = open(f, "rb").read()
        corpus.append((data, {"origin": "sample", "file": os.path.relpath(f, REPO)}))
        for _ in range(2 if quick else 25):
            v, kind = vary_elf(r, data)
            if v is not None:
                corpus.append((v, {"origin": "sample-var", "file": os.path.relpath(f, REPO), "var": kind}))
    reqs, addrs_l = [], []
    for data, meta in corpus:
        try:
            addrs = elf_addrs(O.read_elf(data), meta.get("addrs", ()))
        except O.OracleError:
            addrs = [0]
        addrs_l.append(addrs)
        reqs.append({"op": "fmt.elf", "data": data.hex(), "pt": env["pt"], "sht": env["sht"], "addrs": addrs, "ref": True})
    ans = drv.ask_many(reqs)
    wf_ref_mismatch = 0
    for (data, meta), addrs, mod in zip(corpus, addrs_l, ans):
        real = R.real_elf(data, addrs)
        site = real.pop("site", None)
        ck.case(("E", data), nontrivial=real["init"] == "ok")
        ck.count("E.%s" % meta["origin"])
        ck.count("E.class%s%s" % ("64" if data[4:5] == b"\x02" else "32", "be" if data[5:6] == b"\x02" else "le"))
        for q in meta.get("quirks", ()):
            ck.count("E.quirk." + q)
        ck.count("E.real-" + real["init"])
        flagged = judge_elf(ck, data, dict(real, site=site), env, meta)
        if mod.get("unmodelled"):
            ck.count("E.model-unmodelled")
            continue
        ref = mod.pop("ref", None)
        raw = mod.pop("raw", None)
        if "tables" in mod:
            mod["tables"]["ident"].pop("unused", None)
        for k in ("functions", "variables"):
            if k in mod:
                mod[k] = sorted(mod[k])
        # theorem instance, evaluated: on images the model accepts with all program-header types known, model tables == reference reader
        if mod["init"] == "ok" and ref is not None:
            t = mod["tables"]
            eh = t["ehdr"]
            inb = (not eh["e_phoff"] or eh["e_phoff"] + eh["e_phnum"] * eh["e_phentsize"] <= len(data)) and \
                  (not eh["e_shoff"] or eh["e_shoff"] + eh["e_shnum"] * eh["e_shentsize"] <= len(data))
            known = True       # program headers of unknown type are kept since the repair (keepPhdr = true)
            named = 0 < eh["e_shstrndx"] < len(ref["shdr"]) and ref["shdr"][eh["e_shstrndx"]]["sh_type"] == 3
            if inb and known and named:
                ck.count("E.ElfWF-instances")
                if ref["ehdr"] != eh or ref["phdr"] != t["phdr"] or ref["shdr"] != [s["hdr"] for s in t["shdr"]] or \
                        ref["names"] != [s["name"] for s in t["shdr"]]:
                    wf_ref_mismatch += 1
                    corr.append(("elf-theorem-instance", {"data": data.hex(), "meta": meta}, ref, t))
        if real["init"] != "ok" and mod["init"] != "ok":
            if real["init"] != mod["init"] and not (mod["init"] == "ElfError" and real["init"] not in ("ElfError", "StructureError")):
                corr.append(("elf-init-class", {"data": data.hex(), "meta": meta}, real["init"], mod["init"]))
            elif real["init"] != mod["init"]:
                ck.count("E.unrepaired-exception-class")       # C20 reports these
                if raw != real["init"]:
                    ck.count("E.raw-class-differs")
            continue
        m2 = {k: v for k, v in mod.items()}
        if real != m2 and not flagged:
            # images the by-the-book oracle does not judge (unaligned tables, unreadable by it): a deviation that is
            # one of the defects already judged elsewhere is filed under that defect's signature
            case = {"data": data.hex(), "meta": {k: v for k, v in meta.items() if k != "_sigs"}}
            if any(isinstance(q[4], dict) for q in real.get("queries", [])):
                q = [q for q in real["queries"] if isinstance(q[4], dict)][0]
                ck.report("C14:elf:getfileoffset:" + q[4]["exn"], "getfileoffset(%#x) raises %s" % (q[0], q[4]["exn"]), "oracle",
                          "Amoco.Fmt.Props.elf_getinfo_follows_mapping", case=dict(case, addr=q[0]), real=q[4], model=None)
                continue
            if "tables" in real and "tables" in m2:
                msh = [x["hdr"] for x in m2["tables"]["shdr"]]
                rsh = [x["hdr"] for x in real["tables"]["shdr"]]
                if rsh != msh and rsh == [x for x in msh if x["sh_type"] in env["sht"]]:
                    ck.report("C14:elf:shdr-dropped:sh_type-not-in-Consts", "section headers of a type outside amoco's sh_type table are dropped from Elf.Shdr",
                              "oracle", "Amoco.Fmt.Props.elf_parse_eq_ref_partial", case=case, real=rsh, model=msh)
                    continue
            at = first_diff(real, m2)
            # the only deviations tolerated without a report are the ones the oracle already turned into findings
            corr.append(("elf:" + at.split(".")[0], {"data": data.hex(), "meta": meta, "at": at}, {"init": real["init"], "at": at, "site": site},
                         {"init": m2["init"]}))
        elif real != m2 and flagged:
            # the model mirrors the dropped program headers (known finding); every other reported deviation is a defect
            # the model does not have (it follows the repaired code), so the dumps legitimately differ
            if any(isinstance(q[4], dict) for q in real.get("queries", [])):
                q = [q for q in real["queries"] if isinstance(q[4], dict)][0]
                ck.report("C14:elf:getfileoffset:" + q[4]["exn"], "getfileoffset(%#x) raises %s" % (q[0], q[4]["exn"]), "oracle",
                          "Amoco.Fmt.Props.elf_getinfo_follows_mapping", case={"data": data.hex(), "addr": q[0]}, real=q[4], model=None)
            elif meta.get("_sigs", set()) <= {"C14:elf:phdr-dropped:p_type-not-in-Consts"}:
                at = first_diff(real, m2)
                corr.append(("elf:" + at.split(".")[0], {"data": data.hex(), "meta": {k: v for k, v in meta.items() if k != "_sigs"}, "at": at},
                             {"init": real["init"], "at": at}, {"init": m2["init"]}))
    ck.sample({"E": [corpus[0][1], {k: ans[0].get(k) for k in ("init", "entrypoints")}]})
    return corpus


def check_readobj(ck, corpus, r, n):
    """thorough: llvm-readobj validates the struct reader (hence the specification tables) on the synthesised corpus"""
    bad = 0
    done = 0
    tmp = tempfile.mkdtemp(prefix="c14-")
    for data, meta in corpus:
        if done >= n:
            break
        if meta.get("origin") not in ("synth", "sample") or "unaligned" in meta.get("quirks", ()) or "bigent" in meta.get("quirks", ()):
            continue
        try:
            E = O.read_elf(data)
        except O.OracleError:
            continue
        path = os.path.join(tmp, "x.elf")
        open(path, "wb").write(data)
        d = O.readobj(path)
        if d is None:
            ck.count("X.readobj-refused")
            continue
        done += 1
        ck.count("X.readobj-compared")
        df = O.compare_readobj(E, d)
        if df:
            bad += 1
            ck.cov.setdefault("readobj_disagreements", [])
            if len(ck.cov["readobj_disagreements"]) < 10:
                ck.cov["readobj_disagreements"].append([meta, df[:8]])
    ck.oblige("reference validation: llvm-readobj agrees with the struct reader", bad == 0, "%d of %d images" % (bad, done))
    return bad


# ---------------------------------------------------------------------------------------

def check_pe_macho(ck, drv, r, quick, corr):
    n = 40 if quick else 800
    items = []
    for _ in range(n):
        b, m = G.synth_pe(r)
        items.append(("pe", b, dict(m, origin="synth")))
        b, m = G.synth_macho(r)
        items.append(("macho", b, dict(m, origin="synth")))
    for f in sample_files():
        b = open(f, "rb").read()
        if b[:2] == b"MZ":
            items.append(("pe", b, {"origin": "sample", "file": os.path.relpath(f, REPO)}))
            for _ in range(3 if quick else 40):
                # field-level variation inside the NT/optional headers (never the signature bytes)
                bb = bytearray(b)
                lf = struct.unpack("<I", b[60:64])[0]
                pos = lf + r.choice([4, 6, 8, 22, 24 + 16, 24 + 20, 24 + 28, 24 + 56, 24 + 60, 24 + 64, 24 + 68])
                bb[pos] = r.getrandbits(8)
                items.append(("pe", bytes(bb), {"origin": "sample-var", "file": os.path.relpath(f, REPO), "pos": pos}))
        elif b[:4] in (b"\xcf\xfa\xed\xfe", b"\xce\xfa\xed\xfe"):
            items.append(("macho", b, {"origin": "sample", "file": os.path.relpath(f, REPO)}))
            for _ in range(3 if quick else 40):
                bb = bytearray(b)
                pos = r.choice([4, 8, 12, 24])
                bb[pos] = r.getrandbits(8)
                items.append(("macho", bytes(bb), {"origin": "sample-var", "file": os.path.relpath(f, REPO), "pos": pos}))
    ans = drv.ask_many([{"op": "fmt.readprogram", "data": b[:4096].hex() if len(b) > (1 << 16) else b.hex(), "pt": [], "sht": []} for (k, b, m) in items])
    for (kind, b, meta), mod in zip(items, ans):
        real = R.real_pe(b) if kind == "pe" else R.real_macho(b)
        site = real.pop("site", None)
        ck.case(("P", kind, b), nontrivial=real["init"] == "ok")
        ck.count("P.%s.%s" % (kind, meta["origin"]))
        ck.count("P.%s.real-%s" % (kind, real["init"]))
        # header-level acceptance vs the model's magic predicate (only decidable direction: accepted ⇒ predicate holds)
        if len(b) <= (1 << 16):
            pred = mod["pe"] if kind == "pe" else mod["macho"]
            if real["init"] == "ok" and not pred:
                corr.append(("%s-magic" % kind, {"data": b[:256].hex(), "meta": meta}, real["init"], pred))
        try:
            exp = O.read_pe(b) if kind == "pe" else O.read_macho(b)
        except (O.OracleError, struct.error):
            continue
        if real["init"] != "ok":
            if meta["origin"] in ("synth", "sample"):
                ck.report("C14:%s:rejects-valid:%s" % (kind, real["init"]), "%s rejects a valid image (%s at %s)" % (kind, real["init"], site), "oracle",
                          "correspondence %s header chain" % kind, case={"data": b[:8192].hex(), "meta": meta}, real=real, expected="object")
            continue
        real.pop("init")
        if js(real) != js(exp):
            at = first_diff(real, exp)
            ck.report("C14:%s:%s" % (kind, at.split(".")[0].split("[")[0]), "%s reports %s differently from the file's headers" % (kind, at), "oracle",
                      "correspondence %s header chain" % kind, case={"data": b[:8192].hex(), "meta": meta, "at": at}, real=real, expected=exp)
    ck.sample({"P": [items[0][0], items[0][2]]})


# ---------------------------------------------------------------------------------------

def audit_extra(ck, mod):
    """#print axioms audit of an additional property module (its build is an obligation of the caller)"""
    try:
        thms, bad = audit(mod)
    except Exception as e:
        thms, bad = [], ["audit of %s could not run: %r" % (mod, e)]
    for t in thms:
        ck.oblige("theorem " + t, not any(t in b for b in bad))
    for b in bad:
        ck.oblige("audit " + mod, False, b)
        ck.report("%s:proof-obligation:%s" % (ck.id, mod), "audit of %s: %s" % (mod, b[:300]), "proof-obligation", b[:2000], failing_input_found=False)


def main(tier):
    ck = Check("C14", tier)
    quick = tier == "quick"
    r = rng("C14")
    structs, genpath = fmt_reflect.regenerate()
    broken = ck.build_and_audit(["Amoco.Props.C14", "drv_struct"])
    if tier != "quick":
        # independent kernel re-check of the compiled property modules
        import subprocess
        p = subprocess.run(["lake", "env", "leanchecker"] + ["Amoco.Props.C14", "Amoco.Proofs.Fmt"], cwd=LEAN, stdout=subprocess.PIPE, stderr=subprocess.STDOUT, text=True)
        ck.oblige("leanchecker " + " ".join(["Amoco.Props.C14", "Amoco.Proofs.Fmt"]), p.returncode == 0, p.stdout[-1500:])
        if p.returncode != 0:
            broken.append("leanchecker failed: " + p.stdout[-1500:])
    corr = []
    if os.path.exists(os.path.join(LEAN, ".lake", "build", "bin", "drv_struct")):
        drv = Driver("drv_struct")
        env = R.elf_env()
        check_structs(ck, drv, structs, corr)
        check_pyint(ck, drv, r, 1500 if quick else 40000, corr)
        check_hexsrec(ck, drv, r, quick, corr)
        corpus = check_elf(ck, drv, r, quick, env, corr)
        check_pe_macho(ck, drv, r, quick, corr)
        if not quick:
            check_readobj(ck, corpus, r, 1500)
        drv.close()
    # PE and Mach-O readers: Lean models (Model/Pe.lean, Model/Macho.lean), theorems of Props/C14Pe.lean / C14Macho.lean,
    # each tied by its own three-way correspondence (real reader / compiled model / independent struct reader)
    import pe_check, macho_check
    corr_pe, corr_macho = [], []
    pe_check.run_c14(ck, tier, corr_pe)
    macho_check.run_c14(ck, tier, corr_macho)
    audit_extra(ck, "C14Macho")
    for name, cl in (("pe", corr_pe), ("macho", corr_macho)):
        ck.oblige("correspondence %s reader ~ Lean model" % name, not cl, "%d disagreements" % len(cl))
    for b in broken:
        ck.report("C14:proof-obligation", "proof obligation broken: %s" % b[:300], "proof-obligation", b[:2000], failing_input_found=False)
    if corr:
        names = {}
        for c in corr:
            names[c[0]] = names.get(c[0], 0) + 1
        name, case, real, mod = corr[0]
        ck.cov["correspondence_breaks"] = names
        ck.report("C14:correspondence:" + name.split(":")[0], "model and code disagree on %d cases %r (first: %s) and the by-the-book oracle does not side against the code"
                  % (len(corr), names, name), "correspondence", "correspondence Amoco.Fmt ~ amoco/system (%s)" % name, case=case, real=real, model=mod,
                  failing_input_found=False)
    ck.oblige("correspondence structs/int()/HEX/SREC/ELF/PE/Mach-O", not corr, "%d disagreements" % len(corr))
    ck.assumptions += ["CPython int(bytes, base), binascii.unhexlify, bytes.strip, BytesIO.readlines, struct and utf-8 decoding are modelled, not verified",
                       "PE import/TLS tables and Mach-O non-segment commands are outside the model (dump compared with a struct reader only)"]
    ck.trusted += ["harness/fmt_real.py dumps of the real objects; harness/fmt_reflect.py reflection of patched struct instances",
                   "harness/fmt_oracle.py (struct-based ELF/PE/Mach-O reader, strict HEX/SREC parsers) for failing-input search; validated by llvm-readobj in the thorough tier",
                   "compiled Lean driver drv_struct (evaluation of the model definitions)"]
    return ck.finish("T: every patched struct instance (7 structs × class × order); I: random short byte strings through int(); "
                     "L/F: generated HEX/SREC records and streams, each also corrupted (checksum, length, characters, truncation) — non-trivial = accepted by the real parser; "
                     "E: synthesised ELF images in the 4 class/order combinations with quirks, shipped samples and field-level variations — non-trivial = real Elf() returns; "
                     "P: generated PE / Mach-O header sets, samples and variations")


if __name__ == "__main__":
    sys.exit(main(sys.argv[1] if len(sys.argv) > 1 else "quick"))
