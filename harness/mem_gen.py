"""
mem_gen.py — generator of memory histories for C08, in its own vocabulary (independent of amoco).

value description (what is written):
    ["raw", hex]                      raw bytes
    ["cst", v, n]                     constant expression of n bytes
    ["reg", id, n]                    register r<id> of n bytes
    ["slc", id, regbytes, lo, n]      r<id>[8*lo : 8*(lo+n)]  (r<id> is regbytes wide)
    ["comp", [part, ...]]             composer(parts), parts (LSB first) are cst / reg / slc
address description:
    ["int", a] | ["cst", v, size] | ["ext", name] | ["ptrc", v, size, disp] | ["ptrs", name, disp]
    | ["ptrtop", disp] | ["other"]
op:
    {"k":"write","addr":A,"val":V,"en":1|-1} | {"k":"read","addr":A,"n":N} | {"k":"restruct"} | {"k":"copy"}
    | {"k":"shift","zone":key,"off":d} | {"k":"merge","ops":[write ops]}
    | {"k":"fork","m":src,"to":id}        a copy of live map src becomes live map id (src stays alive)
    | {"k":"mergecopy","m":i,"src":j}     map i .merge( map j .copy() )
  every op may carry "m": the id of the live map it addresses (default 0; map 0 exists from the start).
  `normalize(ops)` drops operations that address a map that is not live (this keeps any sub-sequence of a
  history meaningful, which the shrinker relies on) and renames ids to indices in creation order.
The meaning of a value description, used by the model encoding and by the byte-store oracle alike:
`value_bytes(vd)` = list of per-byte descriptors in VALUE order (least significant byte first),
["r", b] a concrete byte, ["s", id, k] byte k of register r<id>.
"""

SYMS = ["esp", "ebx", "rsi"]
EXTS = ["errno", "stdin"]


def value_bytes(vd):
    k = vd[0]
    if k == "raw":
        raise ValueError("raw bytes have no value order")
    if k == "cst":
        return [["r", (vd[1] >> (8 * i)) & 0xff] for i in range(vd[2])]
    if k == "reg":
        return [["s", vd[1], i] for i in range(vd[2])]
    if k == "slc":
        return [["s", vd[1], vd[3] + i] for i in range(vd[4])]
    if k == "comp":
        out = []
        for p in vd[1]:
            out += value_bytes(p)
        return out
    raise ValueError(vd)


def value_len(vd):
    if vd[0] == "raw":
        return len(bytes.fromhex(vd[1]))
    return len(value_bytes(vd))


def mem_bytes(vd, en):
    """per-byte descriptors in MEMORY order of a write of vd with endianness en."""
    if vd[0] == "raw":
        return [["r", b] for b in bytes.fromhex(vd[1])]
    vb = value_bytes(vd)
    return vb if en == 1 else vb[::-1]


def model_value(vd):
    if vd[0] == "raw":
        return ["raw", list(bytes.fromhex(vd[1]))]
    return ["ex", value_bytes(vd)]


def model_addr(ad):
    k = ad[0]
    if k == "int":
        return ["int", ad[1]]
    if k == "cst":
        return ["cst", ad[1] & ((1 << ad[2]) - 1)]
    if k == "ext":
        return ["ext", "@" + ad[1]]
    if k == "ptrc":
        return ["ptrc", ad[1] & ((1 << ad[2]) - 1), ad[2], ad[3]]
    if k == "ptrs":
        return ["ptrs", ad[1], True, ad[2]]
    if k == "ptrtop":
        return ["ptrs", "<top>", False, ad[1]]
    return ["other"]


def model_op(op):
    k = op["k"]
    m = op.get("m", 0)
    if k == "write":
        return {"k": "write", "m": m, "addr": model_addr(op["addr"]), "val": model_value(op["val"]), "en": op["en"]}
    if k == "read":
        return {"k": "read", "m": m, "addr": model_addr(op["addr"]), "n": op["n"]}
    if k == "merge":
        return {"k": "merge", "m": m, "ops": [model_op(o) for o in op["ops"]]}
    return dict(op)


def normalize(ops):
    """(index-based ops, positions of the surviving ops in `ops`)."""
    live = {0: 0}
    out, pos = [], []
    for n, op in enumerate(ops):
        m = op.get("m", 0)
        if m not in live:
            continue
        o = dict(op)
        o["m"] = live[m]
        if op["k"] == "fork":
            if op["to"] in live:
                continue
            live[op["to"]] = len(live)
            del o["to"]
        elif op["k"] == "mergecopy":
            if op["src"] not in live:
                continue
            o["src"] = live[op["src"]]
        out.append(o)
        pos.append(n)
    return out, pos


def resolve(ad):
    """(zone key, offset) an address description denotes, or None when it denotes no location
    (MemoryError).  Zone keys: None or a string."""
    k = ad[0]
    if k == "int":
        return (None, ad[1])
    if k == "cst":
        return (None, ad[1] & ((1 << ad[2]) - 1))
    if k == "ext":
        return ("@" + ad[1], 0)
    if k == "ptrc":
        return (None, (ad[1] + ad[3]) & ((1 << ad[2]) - 1))
    if k == "ptrs":
        return (ad[1], ad[2])
    return None


class Gen(object):
    """history generator; keeps a private picture (segments per zone) only to steer overlap classes."""

    def __init__(self, r, ck=None):
        self.r = r
        self.ck = ck
        self.nreg = 0
        self.seg = {}       # zone key -> list of (start, end, symbolic?) of the writes so far (not trimmed)
        self.maps = {0: self.seg}   # live map id -> its picture; self.seg is the picture of the current map
        self.cur = 0

    def count(self, k):
        if self.ck is not None:
            self.ck.count(k)

    def fresh(self):
        self.nreg += 1
        return self.nreg

    # -- values -------------------------------------------------------------------------
    def part(self, n, allow_cst=True):
        r = self.r
        c = r.random()
        if allow_cst and c < 0.3:
            return ["cst", r.getrandbits(8 * n), n]
        if c < 0.65:
            return ["reg", self.fresh(), n]
        rb = n + r.randint(1, 4)
        lo = r.randint(0, rb - n)
        if lo == 0 and n == rb:
            return ["reg", self.fresh(), n]
        return ["slc", self.fresh(), rb, lo, n]

    def value(self, n=None):
        r = self.r
        if n is None:
            n = r.choice([1, 1, 2, 2, 3, 4, 4, 4, 5, 6, 7, 8, 8, 9, 12, 15, 16])
        c = r.random()
        if c < 0.30:
            self.count("val.raw")
            return ["raw", bytes(r.getrandbits(8) for _ in range(n)).hex()]
        if c < 0.42:
            self.count("val.cst")
            return ["cst", r.getrandbits(8 * n), n]
        if c < 0.67:
            self.count("val.reg")
            return ["reg", self.fresh(), n]
        if c < 0.80:
            self.count("val.slc")
            rb = n + r.randint(1, 4)
            lo = r.randint(0, rb - n)
            return ["slc", self.fresh(), rb, lo, n]
        # comp: split n into 2..4 parts
        if n < 2:
            self.count("val.reg")
            return ["reg", self.fresh(), n]
        self.count("val.comp")
        k = min(n, r.randint(2, 4))
        cuts = sorted(r.sample(range(1, n), k - 1))
        sizes = [b - a for a, b in zip([0] + cuts, cuts + [n])]
        parts = [self.part(s) for s in sizes]
        if all(p[0] == "cst" for p in parts):
            self.count("val.comp-allcst")
        return ["comp", parts]

    # -- addresses ----------------------------------------------------------------------
    def zone(self):
        r = self.r
        if self.seg and r.random() < 0.6:
            # stay in a zone that already has content (overlaps need neighbours)
            ks = [k for k in self.seg if not (k is not None and k.startswith("@"))]
            if ks:
                return r.choice(ks)
        c = r.random()
        if c < 0.5:
            return None
        if c < 0.95:
            return r.choice(SYMS)
        return "@" + r.choice(EXTS)

    def base(self, key):
        return 0x1000 if key is None else 0

    def addr_desc(self, key, off):
        r = self.r
        if key is None:
            c = r.random()
            if off < 0 or c < 0.5:
                return ["int", off]
            if c < 0.75:
                return ["cst", off, 32]
            b = r.choice([0, 0x1000, off, off - 7, 0xfffffff0, 0x80000000])
            return ["ptrc", b & 0xffffffff, 32, off - (b & 0xffffffff)]
        if key.startswith("@"):
            return ["ext", key[1:]]     # offset is always 0
        return ["ptrs", key, off]

    def place(self, key, n):
        """choose the start offset of an n-byte write in zone key, by overlap class."""
        r = self.r
        segs = self.seg.get(key, [])
        base = self.base(key)
        if key is not None and key.startswith("@"):
            self.count("place.ext")
            return 0
        if not segs:
            self.count("place.first")
            return base + r.randint(-8, 40)
        lo = min(s[0] for s in segs)
        hi = max(s[1] for s in segs)
        cls = r.choice(["inside", "span", "touch-after", "touch-before", "before-first", "after-last",
                        "partial-head", "partial-tail", "exact", "random", "partial-expr"])
        s = r.choice(segs)
        if cls == "partial-expr":
            sy = [x for x in segs if x[2]]
            if sy:
                s = r.choice(sy)
                cls = r.choice(["partial-head", "partial-tail", "inside"])
            else:
                cls = "random"
        self.count("place." + cls)
        if cls == "inside":
            if s[1] - s[0] > n:
                return r.randint(s[0], s[1] - n)
            return s[0]
        if cls == "span":
            t = r.choice(segs)
            a, b = min(s[0], t[0]), max(s[1], t[1])
            return r.randint(a - 1, max(a - 1, b - n + 1))
        if cls == "touch-after":
            return s[1]
        if cls == "touch-before":
            return s[0] - n
        if cls == "before-first":
            return lo - n - r.choice([0, 0, 1, 3])
        if cls == "after-last":
            return hi + r.choice([0, 0, 1, 3])
        if cls == "partial-head":
            return s[0] - r.randint(1, max(1, n - 1))
        if cls == "partial-tail":
            return s[1] - r.randint(1, max(1, min(n - 1, s[1] - s[0])))
        if cls == "exact":
            return s[0]
        return r.randint(lo - 4, hi + 4)

    def write_op(self, key=None, fixed_zone=False):
        r = self.r
        if not fixed_zone:
            key = self.zone()
        cls_exact = None
        segs = self.seg.get(key, [])
        if segs and r.random() < 0.08:
            s = r.choice(segs)
            n = min(16, s[1] - s[0])
            v = self.value(n)
            off = s[0]
            self.count("place.exact-size")
        else:
            v = self.value()
            n = value_len(v)
            off = self.place(key, n)
        en = r.choice([1, -1])
        self.count("en.%d" % en)
        self.count("zone.%s" % ("concrete" if key is None else "ext" if key.startswith("@") else "symbolic"))
        self.seg.setdefault(key, []).append((off, off + n, v[0] not in ("raw", "cst")))
        if len(self.seg[key]) > 12:
            self.seg[key].pop(0)
        return {"k": "write", "addr": self.addr_desc(key, off), "val": v, "en": en}

    def read_op(self):
        r = self.r
        keys = list(self.seg.keys())
        c = r.random()
        if c < 0.04:
            self.count("read.bad-address")
            return {"k": "read", "addr": r.choice([["other"], ["ptrtop", 4]]), "n": r.randint(1, 8)}
        if not keys or c < 0.08:
            key = self.zone()
        else:
            key = r.choice(keys)
        segs = self.seg.get(key, [])
        if not segs:
            self.count("read.empty-zone")
            off, n = self.base(key) + r.randint(-4, 4), r.randint(0, 8)
        else:
            lo = min(s[0] for s in segs)
            hi = max(s[1] for s in segs)
            c = r.random()
            if c < 0.25:
                self.count("read.whole")
                off, n = lo - r.randint(0, 3), hi - lo + r.randint(0, 6)
            elif c < 0.5:
                s = r.choice(segs)
                self.count("read.around-segment")
                off = s[0] + r.randint(-3, 3)
                n = max(0, s[1] - off + r.randint(-3, 3))
            elif c < 0.6:
                self.count("read.outside")
                off, n = r.choice([lo - 20, hi, hi + 5, lo - 3]), r.randint(1, 6)
            else:
                self.count("read.random")
                off = r.randint(lo - 4, hi + 2)
                n = r.randint(0, min(24, hi - lo + 8))
        if key is not None and key.startswith("@"):
            off = 0
        return {"k": "read", "addr": self.addr_desc(key, off), "n": n}

    def select(self):
        """choose the live map the next operation addresses."""
        r = self.r
        ids = list(self.maps)
        if len(ids) > 1 and r.random() < 0.5:
            self.cur = r.choice(ids)
        self.seg = self.maps[self.cur]
        return self.cur

    def history(self, nops):
        ops = []
        for _ in range(nops):
            n0 = len(ops)
            m = self.select()
            self.history_step(ops)
            for o in ops[n0:]:
                o.setdefault("m", m)
        return ops

    def history_step(self, ops):
        r = self.r
        if True:
            c = r.random()
            if self.seg and c < 0.07 and len(self.maps) < 4:
                # keep the original alive next to its copy
                self.count("op.fork")
                to = max(self.maps) + 1
                self.maps[to] = {k: list(v) for k, v in self.seg.items()}
                ops.append({"k": "fork", "m": self.cur, "to": to})
                return
            if c < 0.10 and len(self.maps) > 1:
                src = r.choice([i for i in self.maps if i != self.cur])
                self.count("op.mergecopy")
                for k, v in self.maps[src].items():
                    self.seg.setdefault(k, []).extend(v)
                    del self.seg[k][:-12]
                ops.append({"k": "mergecopy", "m": self.cur, "src": src})
                return
            c = r.random()
            if c < 0.55 or not self.seg:
                c2 = r.random()
                if c2 < 0.02:
                    self.count("write.bad-address")
                    ops.append({"k": "write", "addr": r.choice([["other"], ["ptrtop", 0]]), "val": self.value(), "en": 1})
                else:
                    ops.append(self.write_op())
            elif c < 0.80:
                ops.append(self.read_op())
            elif c < 0.85:
                self.count("op.restruct")
                ops.append({"k": "restruct"})
            elif c < 0.90:
                self.count("op.copy")
                ops.append({"k": "copy"})
            elif c < 0.94:
                key = r.choice(list(self.seg.keys()))
                off = r.choice([-8, -3, -1, 1, 2, 5, 16])
                self.count("op.shift")
                self.seg[key] = [(a + off, b + off, s) for (a, b, s) in self.seg[key]]
                ops.append({"k": "shift", "zone": key, "off": off})
            else:
                self.count("op.merge")
                sub = Gen(r, self.ck)
                sub.nreg = self.nreg + 1000 * (1 + len(ops))
                # steer the other map onto the same ranges
                sub.seg = {k: list(v) for k, v in self.seg.items()}
                n = r.randint(1, 6)
                wops = []
                for _ in range(n):
                    if r.random() < 0.7:
                        wops.append(sub.write_op(r.choice(list(self.seg.keys())), fixed_zone=True))
                    else:
                        wops.append(sub.write_op())
                for k, v in sub.seg.items():
                    self.seg[k] = v
                ops.append({"k": "merge", "ops": wops})
