"""
x86len_table.py — (re)generate the vendored reference table corpus/c07_table.json.

    PYTHONPATH=harness:/repo /venv/bin/python harness/x86len_table.py

Needs objdump and llvm-mc.  The table holds, for a fixed seed, byte strings generated from every shipped
x86/x64 spec, random strings, a ModRM sweep, hand-written boundary cases and the minimised inputs of past
disagreements, each with what objdump and llvm-mc answer for the first instruction:
    [mode, hex, objdump, llvm-mc]     with an answer  null | [length, null | relative displacement]
c07.py runs the table first and uses nothing else when a tool is missing.
"""
import sys, os, json, random
from common import *
import x86len_refs as R
import x86len_gen as G
import c07

HAND = {
    32: ["90", "f390", "6690", "e8fbffffff", "66e8fbff", "ebfe", "7405", "0f8400010000", "660f840001", "e30a", "67e30a",
         "a101020304", "67a10102", "66a101020304", "b801020304", "66b80102", "6801020304", "66680102", "6a01",
         "c8010203", "c20100", "9a010203040506", "669a01020304", "ea010203040506", "8b0425010203049090", "8b042501020304",
         "8b0501020304", "678b060102", "678b4401", "8b4424048b", "8b842401020304", "c7042501020304050607 08".replace(" ", ""),
         "66c70425010203040506", "f7042501020304050607 08".replace(" ", ""), "f6042501020304 05".replace(" ", ""), "f71c25 01020304".replace(" ", ""),
         "6901020304 05".replace(" ", "")[:12], "6b0105", "0fba2001", "0fa4c105", "0f20c0", "0f22d8", "0f1f440000", "660f1f440000",
         "0f3800c1", "660f3a0fc105", "f20f38f0c1", "0f38f000", "f30f1efb", "f30fb8c1", "d9e8", "d80425 01020304".replace(" ", ""),
         "9bdbe2", "c3", "cc", "cd80", "0f0b", "0f05", "62042501020304", "c40425 01020304".replace(" ", ""), "8f0425 01020304".replace(" ", ""),
         "fe0425 01020304".replace(" ", ""), "ff2425 01020304".replace(" ", ""), "ff15 01020304".replace(" ", ""), "2e8b00", "f0010490"],
    64: ["90", "f390", "6690", "4890", "e8fbffffff", "66e8fbff", "48e8fbffffff", "6648e8fbffffff", "ebfe", "7405", "0f8400010000",
         "e30a", "67e30a", "48a10102030405060708", "a10102030405060708", "67a101020304", "48b80102030405060708", "49b80102030405060708",
         "b801020304", "66b80102", "6648b80102030405060708", "6801020304", "66680102", "486801020304", "66486801020304",
         "0501020304", "66050102", "480501020304", "66480501020304", "664f0501020304", "483d01020304", "66483d01020304",
         "48a901020304", "6648a901020304", "8b0425010203049090", "678b0425 01020304".replace(" ", ""), "678b042c", "678b442c01",
         "67418b0425 01020304".replace(" ", ""), "678b0501020304", "8b0501020304", "428b042501020304", "488b842401020304",
         "48c7042501020304 05060708".replace(" ", ""), "6648c70425 01020304 05060708".replace(" ", ""), "48c7c001020304",
         "48f7042501020304 05060708".replace(" ", ""), "486901 02030405".replace(" ", ""), "48690425 01020304 05060708".replace(" ", ""),
         "4881042501020304 05060708".replace(" ", ""), "48830425 01020304 05".replace(" ", ""), "480fba2001", "0f20c0", "440f20c0", "0f1f440000",
         "66480f6ec0", "660f3a0fc105", "f2480f38f1c1", "480f38f000", "f30f1efa", "f3480fb8c1", "0f05", "0f07", "4863c1", "63c1",
         "ff2425 01020304".replace(" ", ""), "ff15 01020304".replace(" ", ""), "41ff5500", "c3", "cc", "cd80", "c8010203", "f0480fb10c25 01020304".replace(" ", "")],
}


def main():
    tools = R.have_tools()
    if not all(tools.values()):
        print("need both tools:", tools); return 2
    os.environ["VERIF_SEED"] = "0"
    r = rng("C07-table")
    entries = []
    for mode in (32, 64):
        cpu = G.Cpu(mode)
        strs = [bytes.fromhex(h) for h in HAND[mode]]
        for s in cpu.insn_specs:
            for _ in range(3):
                strs.append(G.gen_from_spec(s, r, mode))
        for _ in range(600):
            strs.append(G.gen_random(r, mode))
        for a67 in (b"", b"\x67"):
            for modrm in range(256):
                for sib in (0x05, 0x64):
                    strs.append((a67 + bytes([0x8B, modrm, sib]) + bytes(r.getrandbits(8) for _ in range(6))))
        seen, uniq = set(), []
        for b in strs:
            if b and b not in seen:
                seen.add(b); uniq.append(b)
        od, _ = R.run_objdump(mode, uniq)
        ll, _ = R.run_llvm(mode, uniq)
        lin = R.llvm_length_linear(mode, uniq)
        for k, b in enumerate(uniq):
            lk = ll[k]
            if (lk is None) != (lin[k] is None) or (lk is not None and lk[0] != lin[k][0]):
                lk = lin[k]          # exhaustive search wins over bisection
            entries.append([mode, b.hex(), c07.canon_ref(mode, k, od[k]), c07.canon_ref(mode, k, lk)])
    out = {"made_by": "harness/x86len_table.py", "tools": R.tool_versions(),
           "format": "[mode, hex, objdump, llvm-mc]; answer = null | [length, null | relative displacement] for the first instruction",
           "entries": entries}
    with open(c07.TABLE, "w") as f:
        f.write('{"made_by": %s, "tools": %s, "format": %s, "entries": [\n' % (json.dumps(out["made_by"]), json.dumps(out["tools"]), json.dumps(out["format"])))
        f.write(",\n".join(json.dumps(e, separators=(",", ":")) for e in entries))
        f.write("\n]}\n")
    print("wrote", c07.TABLE, len(entries), "entries")
    return 0


if __name__ == "__main__":
    sys.exit(main())
