"""
load_oracle.py — independent readers of executable formats for C15 (Python `struct` only, no amoco).

Each reader returns the *mapping the file declares*: a list of facts
    ("bytes", vaddr, bytes)      file-backed bytes that must be present at vaddr
    ("zero",  vaddr, n)          bytes of a segment/section beyond its file-backed part: read as zero
    ("slot",  vaddr, n, name)    pointer-sized slot named by a dynamic relocation / import: holds that symbol
plus the entry point, and the raw tables (program headers, sections …) used to feed the Lean model.
`Image` turns the facts into the expected byte at every address and judges what the real memory returns.
"""
import struct

PT_LOAD, PT_DYNAMIC, PT_INTERP = 1, 2, 3
SHT_SYMTAB, SHT_STRTAB, SHT_RELA, SHT_DYNAMIC, SHT_REL, SHT_DYNSYM = 2, 3, 4, 6, 9, 11
KNOWN_PT = set(range(0, 8)) | {0x6474e550, 0x6474e551, 0x6474e552, 0x60000000, 0x6fffffff, 0x70000000, 0x7fffffff,
                               0x6ffffffa, 0x6ffffffb}


class NotThisFormat(Exception):
    pass


def cstr(b, i):
    j = b.find(b"\0", i)
    return b[i:j if j >= 0 else len(b)]


# ------------------------------------------------------------------------------------------------
# ELF
# ------------------------------------------------------------------------------------------------

class ElfInfo(object):
    pass


def elf_read(data):
    """program headers, section headers and relocation tables of an ELF file, from the gABI layouts."""
    if len(data) < 52 or data[:4] != b"\x7fELF":
        raise NotThisFormat("elf")
    e = ElfInfo()
    e.x64 = data[4] == 2
    e.be = data[5] == 2
    o = ">" if e.be else "<"
    e.o = o
    if e.x64:
        (e.type, e.machine, e.version, e.entry, e.phoff, e.shoff, e.flags, e.ehsize, e.phentsize, e.phnum,
         e.shentsize, e.shnum, e.shstrndx) = struct.unpack_from(o + "HHIQQQIHHHHHH", data, 16)
    else:
        (e.type, e.machine, e.version, e.entry, e.phoff, e.shoff, e.flags, e.ehsize, e.phentsize, e.phnum,
         e.shentsize, e.shnum, e.shstrndx) = struct.unpack_from(o + "HHIIIIIHHHHHH", data, 16)
    e.phdrs = []
    if e.phoff:
        for n in range(e.phnum):
            off = e.phoff + n * e.phentsize
            if e.x64:
                t, fl, po, va, pa, fs, ms, al = struct.unpack_from(o + "IIQQQQQQ", data, off)
            else:
                t, po, va, pa, fs, ms, fl, al = struct.unpack_from(o + "IIIIIIII", data, off)
            e.phdrs.append(dict(type=t, offset=po, vaddr=va, paddr=pa, filesz=fs, memsz=ms, flags=fl, align=al))
    e.shdrs = []
    if e.shoff:
        for n in range(e.shnum):
            off = e.shoff + n * e.shentsize
            try:
                if e.x64:
                    nm, t, fl, ad, so, sz, lk, inf, aa, es = struct.unpack_from(o + "IIQQQQIIQQ", data, off)
                else:
                    nm, t, fl, ad, so, sz, lk, inf, aa, es = struct.unpack_from(o + "IIIIIIIIII", data, off)
            except struct.error:
                break
            e.shdrs.append(dict(name_off=nm, type=t, flags=fl, addr=ad, offset=so, size=sz, link=lk, info=inf,
                                align=aa, entsize=es, name=b""))
        if 0 < e.shstrndx < len(e.shdrs):
            st = e.shdrs[e.shstrndx]
            tab = data[st["offset"]:st["offset"] + st["size"]]
            for s in e.shdrs:
                s["name"] = cstr(tab, s["name_off"])
    return e


def elf_symname(data, e, symtab, strtab, idx):
    ssz = 24 if e.x64 else 16
    off = symtab["offset"] + idx * ssz
    if off + ssz > symtab["offset"] + symtab["size"]:
        raise IndexError("symbol index")
    (st_name,) = struct.unpack_from(e.o + "I", data, off)
    tab = data[strtab["offset"]:strtab["offset"] + strtab["size"]]
    return cstr(tab, st_name)


def elf_relocs_by_sections(data, e):
    """[(r_offset, symbol name)] of every SHT_REL/SHT_RELA section in section order (entries with
    r_offset != 0), symbols through the sections named .dynsym / .dynstr."""
    by = {}
    for s in e.shdrs:
        by.setdefault(s["name"], s)
    dynsym, dynstr = by.get(b".dynsym"), by.get(b".dynstr")
    out = []
    if dynstr is None or dynstr["type"] != SHT_STRTAB:
        return out
    for s in e.shdrs:
        if s["type"] in (SHT_REL, SHT_RELA):
            esz = s["entsize"]
            if not esz:
                continue
            for n in range(s["size"] // esz):
                off = s["offset"] + n * esz
                if e.x64:
                    r_off, r_info = struct.unpack_from(e.o + "QQ", data, off)
                    sym = r_info >> 32
                else:
                    r_off, r_info = struct.unpack_from(e.o + "II", data, off)
                    sym = r_info >> 8
                if r_off:
                    out.append((r_off, elf_symname(data, e, dynsym, dynstr, sym).decode("latin1")))
    return out


def elf_vaddr_to_off(e, va):
    for p in e.phdrs:
        if p["type"] == PT_LOAD and p["vaddr"] <= va < p["vaddr"] + p["filesz"]:
            return p["offset"] + va - p["vaddr"]
    return None


def elf_relocs_by_dynamic(data, e):
    """the dynamic relocations as a dynamic linker finds them: PT_DYNAMIC → DT_REL/DT_RELA/DT_JMPREL +
    DT_SYMTAB/DT_STRTAB.  Returns None when the file has no dynamic segment."""
    dyn = [p for p in e.phdrs if p["type"] == PT_DYNAMIC]
    if not dyn:
        return None
    p = dyn[0]
    tags = {}
    wsz = 8 if e.x64 else 4
    fmt = e.o + ("QQ" if e.x64 else "II")
    for n in range(p["filesz"] // (2 * wsz)):
        t, v = struct.unpack_from(fmt, data, p["offset"] + n * 2 * wsz)
        if t == 0:
            break
        tags.setdefault(t, v)
    DT_PLTRELSZ, DT_STRTAB, DT_SYMTAB, DT_RELA, DT_RELASZ, DT_RELAENT = 2, 5, 6, 7, 8, 9
    DT_REL, DT_RELSZ, DT_RELENT, DT_PLTREL, DT_JMPREL = 17, 18, 19, 20, 23
    if DT_SYMTAB not in tags or DT_STRTAB not in tags:
        return []
    symoff, stroff = elf_vaddr_to_off(e, tags[DT_SYMTAB]), elf_vaddr_to_off(e, tags[DT_STRTAB])
    if symoff is None or stroff is None:
        return []
    ssz = 24 if e.x64 else 16

    def name(idx):
        (st_name,) = struct.unpack_from(e.o + "I", data, symoff + idx * ssz)
        return cstr(data, stroff + st_name).decode("latin1")
    out = []

    def table(va, size, rela):
        off = elf_vaddr_to_off(e, va)
        if off is None:
            return
        esz = (3 if rela else 2) * wsz
        for n in range(size // esz):
            r_off, r_info = struct.unpack_from(fmt, data, off + n * esz)
            sym = (r_info >> 32) if e.x64 else (r_info >> 8)
            if r_off:
                out.append((r_off, name(sym)))
    if DT_REL in tags:
        table(tags[DT_REL], tags.get(DT_RELSZ, 0), False)
    if DT_RELA in tags:
        table(tags[DT_RELA], tags.get(DT_RELASZ, 0), True)
    if DT_JMPREL in tags:
        table(tags[DT_JMPREL], tags.get(DT_PLTRELSZ, 0), tags.get(DT_PLTREL, DT_REL) == DT_RELA)
    return out


def elf_binds(data, e):
    """does the program ask for a dynamic linker (non-empty PT_INTERP path)?"""
    it = [p for p in e.phdrs if p["type"] == PT_INTERP]
    if not it:
        return False
    p = it[-1]
    return any(data[p["offset"]:p["offset"] + p["filesz"]])


def is_pow2(n):
    return n > 0 and n & (n - 1) == 0


def elf_loadable(data, e, ps, stack=None):
    """the hypothesis `LoadableOK` of the theorem, written independently: every PT_LOAD is accepted by the loader
    (in-page offset of the address <= file offset — true of every page-congruent segment, and of unaligned ones),
    filesz <= memsz, non-empty, file part inside the file; segments ascending and disjoint; a later segment's first
    page either lies behind the earlier segment or shows the same file bytes where the earlier segment has no
    zero-filled part; the stack pages lie apart."""
    if ps < 1:
        return False
    m = ps - 1
    L = [p for p in e.phdrs if p["type"] == PT_LOAD]
    for p in L:
        if (p["vaddr"] & m) > p["offset"] or p["filesz"] > p["memsz"] or p["memsz"] == 0:
            return False
        if p["offset"] + p["filesz"] > len(data):
            return False
    for i in range(len(L)):
        for j in range(i + 1, len(L)):
            s, t = L[i], L[j]
            if s["vaddr"] + s["memsz"] > t["vaddr"]:
                return False
            tstart = t["vaddr"] - (t["vaddr"] & m)
            if s["vaddr"] + s["memsz"] > tstart:
                if not (t["offset"] - t["vaddr"] == s["offset"] - s["vaddr"] and s["memsz"] == s["filesz"]):
                    return False
    if stack is not None:
        lo, hi = stack
        if lo < 0:
            return False
        for p in L:
            if not (p["vaddr"] + p["memsz"] <= lo or hi <= p["vaddr"]):
                return False
    return True


def elf_isolated(data, e, ps, stack=None):
    """the PT_LOAD segments whose expected content is unambiguous from the file alone, whatever the rest of the
    image looks like: a well-formed segment (filesz <= memsz, file part inside the file) whose byte range
    [vaddr, vaddr+memsz) is touched by no *later* segment's page-rounded block and not by the stack pages.
    (Earlier blocks do not matter: the segment's own block is written over them.)"""
    m = ps - 1
    L = [p for p in e.phdrs if p["type"] == PT_LOAD]
    out = []
    for i, s in enumerate(L):
        if s["filesz"] > s["memsz"] or s["memsz"] == 0 or s["offset"] + s["filesz"] > len(data):
            continue
        lo, hi = s["vaddr"], s["vaddr"] + s["memsz"]
        ok = True
        for t in L[i + 1:]:
            b0 = t["vaddr"] - (t["vaddr"] & m)
            b1 = b0 + (t["vaddr"] & m) + max(t["filesz"], t["memsz"]) + m + 1
            if b0 < hi and lo < b1:
                ok = False
        if stack is not None and stack[0] < hi and lo < stack[1]:
            ok = False
        if ok:
            out.append(s)
    return out


def elf_facts(data, e, ptr, slots, only=None):
    """the mapping the file declares. `slots`: [(addr, name)] bound relocation slots (or []);
    `only`: restrict to these PT_LOAD segments."""
    F = []
    for p in (e.phdrs if only is None else only):
        if p["type"] != PT_LOAD:
            continue
        F.append(("bytes", p["vaddr"], data[p["offset"]:p["offset"] + p["filesz"]]))
        if p["memsz"] > p["filesz"]:
            F.append(("zero", p["vaddr"] + p["filesz"], p["memsz"] - p["filesz"]))
    for a, nm in slots:
        F.append(("slot", a, ptr, nm))
    return F


# ------------------------------------------------------------------------------------------------
# PE
# ------------------------------------------------------------------------------------------------

class PeInfo(object):
    pass


def pe_read(data):
    if len(data) < 0x40 or data[:2] != b"MZ":
        raise NotThisFormat("pe")
    p = PeInfo()
    (lfanew,) = struct.unpack_from("<I", data, 0x3c)
    if data[lfanew:lfanew + 4] != b"PE\0\0":
        raise NotThisFormat("pe")
    (p.machine, nsec, _, _, _, optsz, _) = struct.unpack_from("<HHIIIHH", data, lfanew + 4)
    opt = lfanew + 24
    (magic,) = struct.unpack_from("<H", data, opt)
    p.plus = magic == 0x20b
    (p.entry_rva,) = struct.unpack_from("<I", data, opt + 16)
    if p.plus:
        (p.base,) = struct.unpack_from("<Q", data, opt + 24)
    else:
        (p.base,) = struct.unpack_from("<I", data, opt + 28)
    p.salign, p.falign = struct.unpack_from("<II", data, opt + 32)
    (p.size_image, p.size_headers) = struct.unpack_from("<II", data, opt + 56)
    if p.plus:
        (p.stack_reserve,) = struct.unpack_from("<Q", data, opt + 72)
        ndir_off = opt + 108
    else:
        (p.stack_reserve,) = struct.unpack_from("<I", data, opt + 72)
        ndir_off = opt + 92
    (ndir,) = struct.unpack_from("<I", data, ndir_off)
    p.dirs = [struct.unpack_from("<II", data, ndir_off + 4 + 8 * i) for i in range(min(ndir, 16))]
    p.sections = []
    so = opt + optsz
    for i in range(nsec):
        name, vsize, rva, rawsize, rawptr, _, _, _, _, ch = struct.unpack_from("<8sIIIIIIHHI", data, so + 40 * i)
        p.sections.append(dict(name=name, vsize=vsize, rva=rva, rawsize=rawsize, rawptr=rawptr, ch=ch))
    return p


def pe_rva_bytes(data, p, rva):
    """file bytes from rva to the end of the raw data of the section holding it."""
    for s in p.sections:
        if s["rva"] <= rva < s["rva"] + max(s["vsize"], s["rawsize"]):
            o = rva - s["rva"]
            raw = data[s["rawptr"]:s["rawptr"] + s["rawsize"]]
            return raw[o:]
    if rva < p.size_headers:
        return data[rva:p.size_headers]
    return b""


def pe_imports(data, p):
    """[(slot address, "dll::symbol")] of the import directory (IAT slots in table order)."""
    out = []
    if len(p.dirs) < 2 or p.dirs[1][0] == 0:
        return out
    rva, size = p.dirs[1]
    wsz = 8 if p.plus else 4
    n = 0
    while True:
        d = pe_rva_bytes(data, p, rva + 20 * n)
        if len(d) < 20:
            break
        ilt, _, _, name_rva, iat = struct.unpack_from("<IIIII", d, 0)
        if ilt == 0 and name_rva == 0 and iat == 0:
            break
        dll = cstr(pe_rva_bytes(data, p, name_rva), 0).decode("latin1")
        look = pe_rva_bytes(data, p, ilt if ilt else iat)
        k = 0
        while (k + 1) * wsz <= len(look):
            (v,) = struct.unpack_from("<Q" if p.plus else "<I", look, k * wsz)
            if v == 0:
                break
            if v >> (8 * wsz - 1):
                sym = "#%d" % (v & 0xffff)
            else:
                sym = cstr(pe_rva_bytes(data, p, v & 0x7fffffff), 2).decode("latin1")
            out.append((p.base + iat + k * wsz, "%s::%s" % (dll, sym)))
            k += 1
        n += 1
    return out


def pe_facts(data, p, ptr, slots):
    F = []
    for s in p.sections:
        if s["ch"] == 0x800:
            continue
        a = p.base + s["rva"]
        raw = data[s["rawptr"]:s["rawptr"] + s["rawsize"]]
        F.append(("bytes", a, raw))
        if s["vsize"] > len(raw):
            F.append(("zero", a + len(raw), s["vsize"] - len(raw)))
    for a, nm in slots:
        F.append(("slot", a, ptr, nm))
    return F


# ------------------------------------------------------------------------------------------------
# Mach-O (64-bit, little endian: what osx/x64.py loads)
# ------------------------------------------------------------------------------------------------

class MachInfo(object):
    pass


def macho_read(data):
    if len(data) < 32 or struct.unpack_from("<I", data, 0)[0] != 0xfeedfacf:
        raise NotThisFormat("macho")
    m = MachInfo()
    (_, m.cputype, _, m.filetype, ncmds, sizeofcmds, m.flags, _) = struct.unpack_from("<IIIIIIII", data, 0)
    off = 32
    m.segs, m.cmds = [], []
    m.entryoff = m.stacksize = None
    m.thread_rip = None
    m.unixthread = False
    m.dylinker = False
    for n in range(ncmds):
        cmd, size = struct.unpack_from("<II", data, off)
        m.cmds.append(cmd)
        if cmd == 0x19:                                          # LC_SEGMENT_64
            name, vmaddr, vmsize, fileoff, filesize, _, _, nsects, _ = struct.unpack_from("<16sQQQQIIII", data, off + 8)
            sects = []
            for k in range(nsects):
                so = off + 72 + 80 * k
                sn, sg, addr, ssz, soff, al, _, _, fl = struct.unpack_from("<16s16sQQIIIII", data, so)
                sects.append(dict(name=sn.rstrip(b"\0"), addr=addr, size=ssz, offset=soff, flags=fl))
            m.segs.append(dict(name=name, vmaddr=vmaddr, vmsize=vmsize, fileoff=fileoff, filesize=filesize, sects=sects))
        elif cmd == 0x80000028:                                  # LC_MAIN
            m.entryoff, m.stacksize = struct.unpack_from("<QQ", data, off + 8)
        elif cmd in (0x4, 0x5):                                  # LC_THREAD / LC_UNIXTHREAD
            flavor, count = struct.unpack_from("<II", data, off + 8)
            if flavor == 4:                                      # x86_THREAD_STATE64: rip is register 16
                m.thread_rip = struct.unpack_from("<Q", data, off + 16 + 8 * 16)[0]
            if cmd == 0x5:
                m.unixthread = True
        elif cmd == 0xe:                                         # LC_LOAD_DYLINKER
            m.dylinker = True
        off += size
    return m


def macho_entry(m):
    if m.entryoff is not None:
        base = None
        for s in m.segs:
            if s["fileoff"] == 0 and s["filesize"] > 0:
                base = s["vmaddr"]
        return None if base is None else base + m.entryoff
    return m.thread_rip


def macho_lazy_slots(m):
    """addresses of the 8-byte slots of the sections of type S_LAZY_SYMBOL_POINTERS (7)."""
    out = []
    for s in m.segs:
        for c in s["sects"]:
            if c["flags"] & 0xff == 7:
                out += list(range(c["addr"], c["addr"] + c["size"], 8))
    return out


def macho_facts(data, m):
    F = []
    for s in m.segs:
        if s["name"].startswith(b"__PAGEZERO\0"):
            continue
        raw = data[s["fileoff"]:s["fileoff"] + s["filesize"]]
        F.append(("bytes", s["vmaddr"], raw))
        if s["vmsize"] > len(raw):
            F.append(("zero", s["vmaddr"] + len(raw), s["vmsize"] - len(raw)))
    return F


# ------------------------------------------------------------------------------------------------
# Intel HEX / Motorola S-record
# ------------------------------------------------------------------------------------------------

def hex_read(text):
    """[(address, bytes)] data records and the entry point of an Intel-HEX stream (the record type most
    recently seen among 02 / 04 decides the base)."""
    base = 0
    recs, entry = [], None
    for line in text.splitlines():
        line = line.strip()
        if not line:
            continue
        if line[:1] != b":":
            raise NotThisFormat("hex")
        raw = bytes.fromhex(line[1:].decode("ascii"))
        n, addr, typ = raw[0], (raw[1] << 8) | raw[2], raw[3]
        body = raw[4:4 + n]
        if sum(raw) & 0xff:
            raise NotThisFormat("hex checksum")
        if typ == 0:
            recs.append((base + addr, body))
        elif typ == 2:
            base = int.from_bytes(body, "big") * 16
        elif typ == 4:
            base = int.from_bytes(body, "big") << 16
        elif typ == 3:
            entry = ("seg", int.from_bytes(body[:2], "big"), int.from_bytes(body[2:], "big"))
        elif typ == 5:
            entry = ("lin", int.from_bytes(body, "big"))
    return recs, entry


def srec_read(text):
    recs, entry = [], None
    for line in text.splitlines():
        line = line.strip()
        if not line:
            continue
        if line[:1] != b"S":
            raise NotThisFormat("srec")
        t = int(line[1:2])
        raw = bytes.fromhex(line[2:].decode("ascii"))
        if (sum(raw) & 0xff) != 0xff:
            raise NotThisFormat("srec checksum")
        alen = {0: 2, 1: 2, 2: 3, 3: 4, 5: 2, 6: 3, 7: 4, 8: 3, 9: 2}[t]
        addr = int.from_bytes(raw[1:1 + alen], "big")
        body = raw[1 + alen:-1]
        if t in (1, 2, 3):
            recs.append((addr, body))
        elif t in (7, 8, 9):
            entry = addr
    return recs, entry


# ------------------------------------------------------------------------------------------------
# expected image
# ------------------------------------------------------------------------------------------------

class Image(object):
    """expected content per address from the facts.  For "records" (HEX / SREC / raw) later facts
    override earlier ones; for the other formats a loadable image has no conflicting facts."""

    def __init__(self, facts):
        self.facts = facts

    def extents(self):
        """[(vaddr, n, kind)] of everything declared."""
        out = []
        for f in self.facts:
            if f[0] == "bytes" and len(f[2]):
                out.append((f[1], len(f[2]), "bytes"))
            elif f[0] == "zero" and f[2]:
                out.append((f[1], f[2], "zero"))
            elif f[0] == "slot":
                out.append((f[1], f[2], "slot"))
        return out

    def expected(self, a, n):
        """per byte of [a, a+n): ("b", v) file byte | ("z", 0) zero fill | ("slot", name, k) |
        ("?",) covered by several slots (not judged) | None (nothing declared)."""
        out = [None] * n
        nslot = [0] * n
        for f in self.facts:
            if f[0] == "bytes":
                va, bs = f[1], f[2]
                for x in range(max(a, va), min(a + n, va + len(bs))):
                    out[x - a] = ("b", bs[x - va])
            elif f[0] == "zero":
                for x in range(max(a, f[1]), min(a + n, f[1] + f[2])):
                    out[x - a] = ("z", 0)
        for f in self.facts:
            if f[0] == "slot":
                s, m, nm = f[1], f[2], f[3]
                for x in range(max(a, s), min(a + n, s + m)):
                    nslot[x - a] += 1
                    out[x - a] = ("slot", nm, x - s) if nslot[x - a] == 1 else ("?",)
        return out


def judge(expected, real, names):
    """compare what the real memory returns (per byte: int | None | ("s", id, k)) with the expectation.
    → None when every judged byte agrees, else (index, aspect, expected, got)."""
    for i, (e, g) in enumerate(zip(expected, real)):
        if e is None or e == ("?",):
            continue
        if e[0] == "b":
            if g != e[1]:
                return (i, "file-bytes", e[1], g)
        elif e[0] == "z":
            if g != 0:
                return (i, "zero-fill", 0, g)
        elif e[0] == "slot":
            if not (isinstance(g, tuple) and names.name(g[1]) == e[1] and g[2] == e[2]):
                return (i, "slot", list(e), g)
    return None


def pe_loadable(p, ps_stack=None):
    """sections ascending on SectionAlignment boundaries, each behind the rounded end of the previous one."""
    sa = p.salign
    if sa < 1:
        return False
    end = 0
    for s in p.sections:
        if s["ch"] == 0x800:
            continue
        if s["rva"] % sa or s["rva"] < end:
            return False
        end = s["rva"] + -(-max(s["vsize"], s["rawsize"], 1) // sa) * sa
    if ps_stack is not None:
        lo, hi = ps_stack
        for s in p.sections:
            a = p.base + s["rva"]
            if not (a + max(s["vsize"], s["rawsize"], sa) <= lo or hi <= a):
                return False
    return True


def macho_loadable(m):
    end = 0
    for s in m.segs:
        if s["name"].startswith(b"__PAGEZERO\0"):
            continue
        if s["vmaddr"] < end or s["filesize"] > s["vmsize"]:
            return False
        end = s["vmaddr"] + s["vmsize"]
    return True


def records_facts(recs):
    return [("bytes", a, b) for a, b in recs]


def readelf_loads(path):
    """[(offset, vaddr, filesz, memsz)] of the PT_LOAD entries as printed by `readelf -lW` (binutils), or None."""
    import subprocess, re
    try:
        out = subprocess.run(["readelf", "-lW", path], stdout=subprocess.PIPE, stderr=subprocess.DEVNULL, text=True, timeout=30).stdout
    except Exception:
        return None
    res = []
    for line in out.split("\n"):
        m = re.match(r"\s+LOAD\s+0x([0-9a-f]+)\s+0x([0-9a-f]+)\s+0x([0-9a-f]+)\s+0x([0-9a-f]+)\s+0x([0-9a-f]+)", line)
        if m:
            off, va, pa, fs, ms = (int(x, 16) for x in m.groups())
            res.append((off, va, fs, ms))
    return res
