"""
C12 — Every expression has the width its construction dictates.   ./check C12 [--tier quick|thorough]

Theorems: lean/Amoco/Props/C12.lean (width_* and CompWF preservation) about the same model as C01;
tie and oracle: harness/expr_check.py (same generated population as C01; K-tie: Lean CompWF checker on
every comp of every real result).
"""
import sys
import expr_check

if __name__ == "__main__":
    sys.exit(expr_check.run_check("C12", sys.argv[1] if len(sys.argv) > 1 else "quick"))
