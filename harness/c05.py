"""
C05 — A decoded instruction is determined by the bytes it consumes.

Theorems (lean/Amoco/Props/C05.lean): consumes_prefix, length_pos (byte accounting of
ispec.decode/__call__), index_adds_no_tail_dependence (through a checked tree, if every spec gives the
same outcome on two inputs the call gives the same result, although the search keys differ), and
fixed_spec_ignores_tail (fixed-length specs never look past their own bytes).  The remaining premise —
hooks of variable-length specs (ModRM/SIB, immediates, LEB128 …) depend only on the bytes they
consume — is Python code: it is checked on every generated case (partial, see DESIGN.md §8 C05).
Ties: K (checkTree on every real tree, shared with C04) and the per-case comparison of attempt traces
on `b`, `b[:n]`, `b[:n]+t`, `b[:maxlen]`.
Oracle = the property itself on the real code.
"""
import sys
from common import *
import isa
import c05_extra


def main(tier):
    ck = Check("C05", tier)
    quick = tier == "quick"
    r = rng("C05")
    broken = ck.build_and_audit(["Amoco.Props.C05", "amoco_driver"])
    drv = Driver()
    isas, bad = isa.load_all()
    ck.cov["isa_modules"] = sorted(isas)
    ck.cov["isa_modules_not_importable"] = bad
    ties_broken = []
    ndir, nrand = (150, 30) if quick else (4000, 800)
    for name in sorted(isas):
        I = isas[name]
        d = I.dis
        pools = {}
        hlog = []        # every call made on this ISA's disassembler object, in order: (mode, hex)
        for idx in range(I.nsets):
            I.set_mode(idx)
            label = "%s/%d" % (name, idx)
            specs = isa.module_specs(I, idx)
            index = {id(s): k for k, s in enumerate(specs)}
            ans = drv.ask({"op": "dis.check", "be": I.be, "maxlen": I.maxlen, "specs": [isa.speck(k, s) for k, s in enumerate(specs)],
                           "tree": isa.dump_tree(d.specs[idx], index)})
            if not (isinstance(ans, dict) and ans.get("check") is True):
                ties_broken.append(("checkTree fails on the real tree of %s" % label, {"isa": label}, ans, None))
            if any(s.mask.size < 8 for s in specs):
                ties_broken.append(("a spec of %s has no bytes (hypothesis of length_pos)" % label, {"isa": label}, None, None))
            # longer specs by their leading fixed byte(s) as they appear in the byte stream: a decoded
            # instruction is also tried with the continuation of every longer spec that starts like it
            e_ = -1 if I.be else 1
            longer = {}
            for s_ in specs:
                if s_.pfx is True or s_.mask.size < 16:
                    continue
                try:
                    probe = isa.directed_bytes(s_, e_, r, tail=0)
                    other = isa.directed_bytes(s_, e_, r, tail=0)
                except Exception:
                    continue
                if probe[:1] == other[:1]:
                    longer.setdefault(probe[:1], []).append(s_)
            for kind, bs in isa.gen_inputs(I, specs, r, ndir, nrand):
                pools.setdefault(idx, []).append(bs)
                hlog.append((idx, bs.hex()))
                with isa.AttemptTrace() as tr0:
                    res = isa.real_decode(d, bs)
                if res[0] != "ok":
                    ck.case((label, bs), nontrivial=False)
                    ck.count("no-instruction" if res[0] == "none" else "raises")
                    continue
                i = res[1]
                fp = isa.fingerprint(i)
                n = len(i.bytes)
                ck.case((label, bs), nontrivial=True)
                ck.count("instr.len%d" % min(n, 16))
                var = i.spec.size == 0
                ck.count("variable-length-spec" if var else "fixed-length-spec")
                where = {"isa": name, "mode": idx, "bytes": bs.hex()}
                # `exhausted`: the instruction consumed the whole input (a hook that wanted more bytes got a short tail)
                sig = "C05:%s:%s:%s%s" % (label, i.mnemonic, i.spec.format, ":input-exhausted" if n == len(bs) else "")
                if not (1 <= n <= len(bs)) or bytes(i.bytes) != bs[:n]:
                    ck.report(sig + ":bytes", "%s: decode(%s): instruction bytes %s (length %d) are not the first bytes of the input" % (label, bs.hex(), bytes(i.bytes).hex(), n),
                              "oracle", "Amoco.Dis.Props05.consumes_prefix / length_pos", case=where, real=fp)
                    continue
                variants = [("exact", bs[:n])]
                for _ in range(2 if quick else 4):
                    variants.append(("tail", bs[:n] + bytes(r.getrandbits(8) for _ in range(r.choice([1, 2, 3, 7, 12])))))
                variants.append(("tail", bs[:n] + b"\x00" * 8))
                variants.append(("tail", bs[:n] + b"\xff" * 8))
                if n <= I.maxlen:
                    variants.append(("window", bs[: I.maxlen]))
                if i.spec.size != 0 and not I.be:
                    # the consumed bytes followed by what a longer spec with the same leading byte expects next
                    for s_ in [x for x in longer.get(bs[:1], []) if x.mask.size > 8 * n][:4]:
                        for _ in range(2):
                            v = isa.directed_bytes(s_, e_, r, tail=4)
                            if v[:n] == bs[:n] or n == 1:
                                variants.append(("tail", bs[:n] + v[n:]))
                for vk, v in variants:
                    hlog.append((idx, v.hex()))
                    with isa.AttemptTrace() as tr1:
                        res2 = isa.real_decode(d, v)
                    fp2 = isa.fingerprint(res2[1]) if res2[0] == "ok" else res2[1]
                    ck.count("variant." + vk)
                    if (res2[0], fp2) != ("ok", fp):
                        ck.report(sig + ":" + vk, "%s: decode(%s) = %s (%d bytes) but decode(%s) [%s] = %r" % (label, bs.hex(), i.mnemonic, n, v.hex(), vk, fp2 if res2[0] == "ok" else res2),
                                  "oracle", "Amoco.Dis.Props05.index_adds_no_tail_dependence (premise: hook outcome determined by consumed bytes)",
                                  case=dict(where, variant=v.hex(), kind=vk), real=(res2[0], fp2), expected=fp)
                        break
                if len(ck.cov["samples"]) < 5 and r.random() < 0.01:
                    ck.sample({"isa": label, "bytes": bs.hex(), "len": n, "mnemonic": i.mnemonic, "variants": [v.hex() for _, v in variants[:3]]})
        # history / cross-mode pass: the pools of all modes through every mode in turn on the one long-lived
        # disassembler object, against sibling continuations and a fresh object of the ISA (c05_extra.py)
        c05_extra.history_pass(ck, I, name, pools, r, quick, prelog=hlog)
    # the hook premise as a theorem for the LEB128 operand helpers of dwarf / wasm (Props/C05.lean, Leb128.Props05): tie + oracle
    import leb_tie
    leb_tie.run(ck, drv, tier)
    drv.close()
    for b in broken:
        ck.report("C05:proof-obligation", "proof obligation broken: %s" % b[:300], "proof-obligation", b[:2000], failing_input_found=False)
    if ties_broken:
        what, case, real, mod = ties_broken[0]
        ck.report("C05:tie", "%d tie failures without a failing input (first: %s)" % (len(ties_broken), what), "checker", what, case=case,
                  real=real, model=mod, failing_input_found=False)
    ck.oblige("checkTree on real trees + spec sizes", not ties_broken)
    ck.assumptions += ["hooks of variable-length specs are determined by the bytes they consume: validated per generated case, not proved (partial); "
                       "proved only for the LEB128 operand helper of the dwarf / wasm hooks (leb_operand_ignores_tail, leb_operand_truncation_rejected)"]
    ck.trusted += ["harness/isa.py", "compiled Lean checker"]
    return ck.finish("per ISA module and mode: spec-directed / prefixed / mutated / random inputs; for each decoded instruction: exact consumed bytes, "
                     "consumed bytes + 4-6 replacement tails, maxlen window; then per ISA a history pass on the one long-lived disassembler object: "
                     "pool inputs of every mode and 'consumed bytes of one input + continuation of another input (any mode)' decoded in every mode in turn "
                     "(rotating mode order), each result compared with a fresh disassembler object of the ISA (history-free reference), with its exact "
                     "consumed bytes, with consumed bytes + continuation bytes of sibling pool inputs, and with every shorter truncation that is an "
                     "instruction by itself; non-trivial = decodes to an instruction")




def replay(path):
    import json
    rec = json.load(open(path))
    if isinstance(rec.get("case"), dict) and "xhistory" in rec["case"]:
        return c05_extra.replay_history(rec)
    return isa.replay_decode_case(rec)

if __name__ == "__main__":
    sys.exit(main(sys.argv[1] if len(sys.argv) > 1 else "quick"))
