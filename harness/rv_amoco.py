"""
rv_amoco.py — drives the real RISC-V code of amoco for C06: decode a 32-bit word, dump the operands
the decoder hook built, apply `instruction(mapper)` to a concrete state, read the state back.
"""
import struct, logging
from common import fresh_amoco

fresh_amoco()
from amoco.cas.mapper import mapper
from amoco.cas import expressions as ex

_CPU = {}


def cpu(isa):
    if isa not in _CPU:
        if isa == "rv32":
            from amoco.arch.riscv import cpu_rv32i as c
        else:
            from amoco.arch.riscv import cpu_rv64i as c
        _CPU[isa] = c
    return _CPU[isa]


def decode(isa, word):
    """instruction object, None, or "raise:<Type>" """
    c = cpu(isa)
    try:
        i = c.disassemble(struct.pack("<I", word))
    except Exception as e:                      # decoder hooks that raise are C17's subject
        c.disassemble._disassembler__i = None if hasattr(c.disassemble, "_disassembler__i") else None
        return "raise:" + type(e).__name__
    return i


def reg_index(c, r):
    for k, x in enumerate(c.x):
        if x is r:
            return k
    return None


def dump_operands(isa, i):
    c = cpu(isa)
    out = []
    for o in i.operands:
        k = reg_index(c, o)
        if k is not None:
            out.append(["reg", k])
        elif o._is_mem:
            b = reg_index(c, o.a.base)
            if b is None or o.a.seg is not None or not isinstance(o.a.disp, int):
                out.append(["other", str(o)])
            else:
                out.append(["mem", b, o.size, o.a.disp])
        elif o._is_cst:
            out.append(["imm", o.v, o.size, bool(o.sf)])
        else:
            out.append(["other", str(o)])
    return out


def make_cst(v, n, signed_rep):
    """a constant holding bits `v`; with signed_rep, values with the top bit set are built from the
    negative integer (sf=True), the way amoco's own arithmetic produces them"""
    if signed_rep and (v >> (n - 1)) & 1:
        return ex.cst(v - (1 << n), n)
    return ex.cst(v, n)


def run(isa, i, regs, pc, membytes, dump, signed_rep=False):
    """apply the instruction to the concrete state.  returns dict(regs, pc, mem) with ints,
    or strings "sym:<expr>" where the result is not a constant; or {"raise": type}."""
    c = cpu(isa)
    n = c.pc.size
    m = mapper()
    for k in range(1, 32):
        m[c.x[k]] = make_cst(regs[k], n, signed_rep)
    m[c.pc] = ex.cst(pc, n)
    for a, b in sorted(membytes.items()):
        m[ex.mem(ex.cst(a, n), 8)] = ex.cst(b, 8)
    try:
        i(m)
    except Exception as e:
        return {"raise": type(e).__name__}

    def val(e):
        try:
            r = m(e)
        except Exception as e2:
            return "raise:" + type(e2).__name__
        if r._is_cst:
            return r.v
        return "sym:" + str(r)[:60]

    out = {"regs": [0] + [val(c.x[k]) for k in range(1, 32)], "pc": val(c.pc),
           "mem": [[a, val(ex.mem(ex.cst(a, n), 8))] for a in dump]}
    return out


def has_semantics(isa, mnemonic):
    c = cpu(isa)
    return ("i_%s" % mnemonic) in c.uarch
