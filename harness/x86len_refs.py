"""
x86len_refs.py — the two reference disassemblers of property C07, batched.

  objdump  (GNU binutils):  objdump -D -z -b binary -m i386 [-M x86-64] --insn-width=16
  llvm-mc  (LLVM):          llvm-mc --disassemble --triple=i386|x86_64 --show-encoding

Both are asked for the FIRST instruction of each byte string:
  * objdump gets all strings in one binary file, each in its own 32-byte slot padded with NOPs (an
    instruction that starts inside a ≤15-byte string ends before the slot does, and NOPs are one byte,
    so the linear sweep is always re-synchronised at the next slot);  a first instruction that reaches
    into the padding means the string is a truncated instruction → reported invalid.
  * llvm-mc gets every string as one atomic block `[0x.. 0x..]` (decoding of a block stops at its first
    invalid instruction) followed by a marker block, so that the output can be split per string.

A reference answer is  None (invalid / truncated)  or  (length, rel)  where rel is None or the
relative displacement (llvm-mc prints it; objdump prints the target, from which it is recomputed).
"""
import os, re, subprocess, shutil, tempfile
from concurrent.futures import ThreadPoolExecutor

SLOT = 32
BASE = 0x40000000
MARK = bytes.fromhex("b8efbeadde")          # movl $0xdeadbeef,%eax   (same in both modes)
MARK_TXT = "[" + ",".join("0x%02x" % b for b in MARK) + "]"

OBJDUMP = shutil.which("objdump")
LLVM_MC = shutil.which("llvm-mc") or shutil.which("llvm-mc-14")


def have_tools():
    if os.environ.get("C07_NO_REFS"):          # for exercising the vendored-table-only path
        return {"objdump": False, "llvm-mc": False}
    return {"objdump": bool(OBJDUMP), "llvm-mc": bool(LLVM_MC)}


def tool_versions():
    out = {}
    for name, exe in (("objdump", OBJDUMP), ("llvm-mc", LLVM_MC)):
        if exe:
            try:
                t = subprocess.run([exe, "--version"], stdout=subprocess.PIPE, stderr=subprocess.STDOUT, text=True).stdout
                out[name] = [l.strip() for l in t.splitlines() if "version" in l.lower() or "objdump" in l.lower()][0]
            except Exception as e:       # pragma: no cover
                out[name] = "?"
    return out


_OBJ_LINE = re.compile(r"^\s*([0-9a-f]+):\t((?:[0-9a-f]{2} )+)\s*\t?(.*)$")
_OBJ_REL = re.compile(r"(?:^|\s)(j[a-z]+|call[a-z]*|loop[a-z]*|xbegin)(?:,p[nt])?\s+(0x[0-9a-f]+)\s*$")
# what objdump prints when the bytes at the slot start are not (the start of) one instruction
_OBJ_BAD = re.compile(r"\(bad\)|^\.byte|^$")
# a line that consists only of prefix names: objdump could not attach them to an instruction
_OBJ_PFX_ONLY = re.compile(r"^(?:(?:lock|rep[nz]?e?|repnz|repz|data16|addr16|addr32|cs|ds|es|ss|fs|gs|rex(?:\.[WRXB]+)?|bnd|notrack|xacquire|xrelease)\s*)+$")


def _objdump_chunk(args):
    mode, strings = args
    blob = bytearray()
    for s in strings:
        assert len(s) <= 15
        blob += s + b"\x90" * (SLOT - len(s))
    fd, path = tempfile.mkstemp(prefix="c07_", suffix=".bin")
    try:
        os.write(fd, bytes(blob)); os.close(fd)
        cmd = [OBJDUMP, "-D", "-z", "-b", "binary", "-m", "i386", "--insn-width=16", "--adjust-vma=0x%x" % BASE]
        if mode == 64:
            cmd += ["-M", "x86-64"]
        out = subprocess.run(cmd + [path], stdout=subprocess.PIPE, stderr=subprocess.PIPE, text=True, timeout=600).stdout
    finally:
        try:
            os.unlink(path)
        except OSError:
            pass
    res = [None] * len(strings)
    txt = [""] * len(strings)
    for line in out.splitlines():
        m = _OBJ_LINE.match(line)
        if not m:
            continue
        addr = int(m.group(1), 16) - BASE
        if addr % SLOT:
            continue
        k = addr // SLOT
        if k >= len(strings):
            continue
        n = len(m.group(2).split())
        text = m.group(3).strip()
        txt[k] = text
        if _OBJ_BAD.search(text) or _OBJ_PFX_ONLY.match(text) or n > len(strings[k]):
            continue
        rel = None
        r = _OBJ_REL.search(text)
        if r:
            rel = ("target", int(r.group(2), 16))
        res[k] = (n, rel)
    return res, txt


_LLVM_ENC = re.compile(r"^\s*(.*?)\s*#\s*encoding: \[([^\]]*)\]")
_LLVM_REL = re.compile(r"^(?:(?:lock|rep|repne|notrack|bnd|data16|addr32|xacquire|xrelease|[cdefgs]s)\s+)*"
                       r"(j[a-z]+|call[a-z]*|loop[a-z]*|xbegin)\s+(-?\d+)$")


# llvm-mc prints a prefix byte it cannot attach to an instruction as a pseudo-instruction of its own
_LLVM_PFX_ONLY = re.compile(r"^(?:(?:lock|rep|repne|data16|data32|addr16|addr32|[cdefgs]s|rex64|rex|bnd|notrack|xacquire|xrelease)\s*)+$")


def _llvm_chunk(args):
    """first instruction llvm-mc prints for each block: None | (re-encoded length, rel, text).
    NB `--show-encoding` re-encodes the decoded MCInst (redundant prefixes are dropped), so the length
    printed is NOT the number of bytes consumed; run_llvm() finds that by prefix search."""
    mode, strings = args
    lines = []
    for s in strings:
        lines.append("[" + " ".join("0x%02x" % b for b in s) + "]" if s else "")
        lines.append(MARK_TXT.replace(",", " "))
    triple = "x86_64" if mode == 64 else "i386"
    p = subprocess.run([LLVM_MC, "--disassemble", "--triple=" + triple, "--show-encoding"],
                       input="\n".join(lines) + "\n", stdout=subprocess.PIPE, stderr=subprocess.PIPE, text=True, timeout=600)
    res = []
    cur = []
    for line in p.stdout.splitlines():
        m = _LLVM_ENC.match(line)
        if not m:
            continue
        enc = [e.strip() for e in m.group(2).split(",")]
        text = re.sub(r"\s+", " ", m.group(1).strip())
        if len(enc) == len(MARK) and all(e.lower() == "0x%02x" % b for e, b in zip(enc, MARK)):
            if cur and not _LLVM_PFX_ONLY.match(cur[0][1]):
                n, text0 = cur[0]
                rel = None
                r = _LLVM_REL.match(text0)
                if r:
                    rel = ("disp", int(r.group(2)))
                res.append((n, rel, text0))
            else:
                res.append(None)
            cur = []
        else:
            cur.append((len(enc), text))
    if len(res) != len(strings):
        raise RuntimeError("llvm-mc output out of sync: %d answers for %d strings" % (len(res), len(strings)))
    return res, [None] * len(res)


def _batched(fn, mode, strings, chunk, workers):
    strings = list(strings)
    jobs = [(mode, strings[i:i + chunk]) for i in range(0, len(strings), chunk)]
    res, txt = [], []
    if not jobs:
        return res, txt
    with ThreadPoolExecutor(max_workers=workers) as ex:
        for r, t in ex.map(fn, jobs):
            res += r; txt += t
    return res, txt


def run_objdump(mode, strings, chunk=4000, workers=8):
    """list of None | (length, None | ("target", absolute target))  and the disassembly text"""
    return _batched(_objdump_chunk, mode, strings, chunk, workers)


def _llvm_blocks(mode, blocks, chunk, workers):
    return _batched(_llvm_chunk, mode, blocks, chunk, workers)[0]


def run_llvm(mode, strings, chunk=4000, workers=8):
    """list of None | (length, None | ("disp", displacement))  and the disassembly text.
    The length is the number of bytes llvm-mc's decoder consumes for the first instruction: the least k
    such that the atomic block b[:k] yields the same first instruction (text) as the whole string.  (For
    k below the length the block is invalid, or — when it consists of prefix bytes only — llvm-mc prints the
    lone prefix as a pseudo-instruction, which is a different text.)  Found by trying the re-encoded length
    first, then bisection; `llvm_length_linear` is the exhaustive variant used to validate this."""
    strings = list(strings)
    full = _llvm_blocks(mode, strings, chunk, workers)
    res = [None] * len(strings)
    txt = [""] * len(strings)
    lo = {}            # k -> (lo, hi): answer in [lo, hi], b[:hi] known to decode
    probes = []
    for k, (s, f) in enumerate(zip(strings, full)):
        if f is None:
            continue
        txt[k] = f[2]
        lo[k] = [1, len(s)]
        g = min(max(f[0], 1), len(s))
        probes.append((k, g))
        if g > 1:
            probes.append((k, g - 1))
    while probes:
        ans = _llvm_blocks(mode, [strings[k][:g] for k, g in probes], chunk, workers)
        for (k, g), a in zip(probes, ans):
            if k not in lo:
                continue
            if a is not None and a[2] == full[k][2]:
                lo[k][1] = min(lo[k][1], g)
            else:
                lo[k][0] = max(lo[k][0], g + 1)
        probes = []
        for k, (l, h) in list(lo.items()):
            if l >= h:
                res[k] = (h, full[k][1])
                del lo[k]
            else:
                probes.append((k, (l + h) // 2))
    return res, txt


def llvm_length_linear(mode, strings, chunk=4000, workers=8):
    """exhaustive variant of run_llvm's length search (all prefixes of every string)."""
    strings = list(strings)
    full = _llvm_blocks(mode, strings, chunk, workers)
    blocks, idx = [], []
    for k, (s, f) in enumerate(zip(strings, full)):
        if f is not None:
            for g in range(1, len(s) + 1):
                blocks.append(s[:g]); idx.append((k, g))
    ans = _llvm_blocks(mode, blocks, chunk, workers)
    res = [None] * len(strings)
    for (k, g), a in zip(idx, ans):
        if res[k] is None and a is not None and a[2] == full[k][2]:
            res[k] = (g, full[k][1])
    return res


def objdump_rel_agrees(mode, slot_offset, length, target, disp):
    """does objdump's printed branch target correspond to displacement `disp` for an instruction of
    `length` bytes at BASE+slot_offset?  objdump prints addresses of a raw binary modulo 2^32, and
    16-bit operand size truncates the target to 16 bits."""
    full = (BASE + slot_offset + length + disp) % (1 << 32)
    return (target % (1 << 32)) == full or target == (full & 0xFFFF)


def slot_addr(k, chunk=4000):
    """offset (relative to BASE) of string k of a run_objdump call"""
    return (k % chunk) * SLOT
