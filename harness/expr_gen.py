"""
expr_gen.py — structured generator of tree-shaped BUILD SCRIPTS for the expression algebra (C01, C12).

Widths from {1,2,7,8,16,31,32,33,64,128} (parts of compositions: any width); constants biased to 0, 1, -1,
masks, powers of two, shift amounts >= width; <= 5 registers; depth <= 6; a per-script signedness mode
(unsigned / signed: every leaf and tst declared signed / mixed); a few percent malformed (ill-sized) scripts.
"""
WIDTHS = [1, 2, 7, 8, 16, 31, 32, 33, 64, 128]
REGNAMES = ["a", "b", "c", "eax", "ebx", "r1", "r10", "r2", "x", "y", "z", "A", "B", "_t", "sp", "al", "zf"]


def M(w):
    return (1 << w) - 1


class Gen(object):
    def __init__(self, r, maxdepth=6, mode=None, malformed=False):
        self.r = r
        self.maxdepth = maxdepth
        self.mode = mode or r.choice(["u", "u", "u", "u", "s", "s", "m"])
        self.malformed = malformed
        self.regs = {}      # name -> (size, signed)
        self.names = r.sample(REGNAMES, 5)
        self.bad_done = False
        self.mem = r.random() < 0.2      # scripts with memory leaves (judged on widths only)

    # -- leaves ---------------------------------------------------------------------------
    def const_value(self, w):
        r = self.r
        k = r.random()
        if k < 0.14:
            return 0
        if k < 0.26:
            return 1
        if k < 0.36:
            return -1
        if k < 0.44:
            return M(w)
        if k < 0.54:
            return 1 << r.randrange(w)
        if k < 0.62:
            return M(r.randint(1, w))
        if k < 0.72:
            i = r.randrange(w); j = r.randint(i, w - 1)
            return M(j + 1) ^ M(i)
        if k < 0.77:
            return 1 << (w - 1)
        if k < 0.82:
            return -r.randint(1, 1 << min(w, 12))
        if k < 0.88:
            return r.choice([w - 1, w, w + 1, 2 * w, 8, 3])
        return r.getrandbits(w)

    def signed_leaf(self):
        if self.mode == "s":
            return True
        if self.mode == "m":
            return self.r.random() < 0.4
        return False

    MEMW = (8, 16, 32, 64, 128)

    def mem_leaf(self, w):
        """["mem", name, size, disp, endian, basesize]: a memory expression at reg+disp; the pointer register is one of the
        script's registers (valuations give it a value, memory itself stays symbolic)."""
        r = self.r
        ptrs = [n for n, (s, _) in self.regs.items() if s in (32, 64) and n.startswith("p_")]
        if ptrs and (len(self.regs) >= 5 or r.random() < 0.6):
            n = r.choice(ptrs)
        elif len(self.regs) < 5:
            n = "p_" + self.names[len(self.regs)]
            self.regs[n] = (r.choice([32, 64]), False)
        else:
            return None
        return [["mem", n, w, r.choice([0, 0, 0, 4, 1, -8, 100]), r.choice([1, 1, -1]), self.regs[n][0]]]

    def leaf(self, w):
        r = self.r
        if self.mem and w in self.MEMW and r.random() < 0.25:
            m = self.mem_leaf(w)
            if m is not None:
                return m
        if r.random() < 0.55:
            cands = [n for n, (s, _) in self.regs.items() if s == w]
            if len(self.regs) < 5 and (not cands or r.random() < 0.4):
                n = self.names[len(self.regs)]
                self.regs[n] = (w, self.signed_leaf())
                cands = [n]
            if cands:
                n = r.choice(cands)
                out = [["reg", n, w]]
                if self.regs[n][1]:
                    out.append(["signed"])
                return out
        v = self.const_value(w)
        if self.mode == "u" and v < 0 and r.random() < 0.7:
            v &= M(w)
        out = [["cst", v, w]]
        if self.signed_leaf() and v >= 0:
            out.append(["signed"])
        return out

    def shift_amount(self, w, d):
        """shift / rotate amount.  Python computes `int << n` literally, so amounts between 2^16 and 2^60
        would make the *real* code allocate gigabytes: constants are kept below 2^16 or above 2^60, and
        symbolic amounts have a width <= 16 or >= 64 (random 64-bit values fail fast with MemoryError)."""
        r = self.r
        k = r.random()
        wa = w if r.random() < 0.7 else r.choice([8, 8, 32, 5, 7])
        if k < 0.78:
            v = r.choice([0, 1, 1, 2, 3, w // 2, w - 1, w - 1, w, w, w + 1, 2 * w, M(wa), r.randrange(max(1, w)), r.randrange(max(1, w))])
            if r.random() < 0.04:
                v = -r.randint(1, 3)
            if (1 << 16) <= (v & M(wa)) < (1 << 60):
                v = r.choice([w, w + 1, 0, 1])
            return [["cst", v, wa]]
        if 16 < wa < 64:
            wa = r.choice([8, 16, 5])
        return self.gen(wa, min(d, 2))

    # -- trees ----------------------------------------------------------------------------
    def maybe_sign(self, out):
        if self.mode == "s":
            out.append(["signed"])
        elif self.mode == "m" and self.r.random() < 0.08:
            out.append([self.r.choice(["signed", "unsigned"])])
        return out

    def gen(self, w, d):
        r = self.r
        if d <= 0 or r.random() < 0.12:
            return self.leaf(w)
        return self.maybe_sign(self.node(w, d))

    def other_width(self, pred):
        c = [x for x in WIDTHS if pred(x)]
        return self.r.choice(c) if c else None

    def node(self, w, d):
        r = self.r
        g = lambda ww: self.gen(ww, d - 1)
        if self.malformed and not self.bad_done and r.random() < 0.25:
            self.bad_done = True
            k = r.random()
            w2 = self.other_width(lambda x: x != w) or w + 1
            if k < 0.5:
                return g(w) + g(w2) + [[r.choice(["add", "sub", "and", "or", "xor", "mul", "eq", "lt", "div"])]]
            if k < 0.8:
                lo = r.randrange(w + 2)
                return g(w) + [["slice", lo, r.choice([lo, lo - 1, w + 1, w + 5])]]
            return g(1) + g(w) + g(w2) + [["tst"]]
        ch = ["arith", "arith", "logic", "logic", "shift", "shift", "unary", "slice", "slice", "compose", "compose", "tst", "ext", "dup", "reassoc",
              "simp", "div"]
        if w == 1:
            ch += ["cmp"] * 8 + ["bit", "eqbit", "eqbit", "notcmp", "notcmp", "twins", "twins"]
        if w % 2 == 0 and w // 2 >= 1:
            ch += ["pow"]
        ch += ["setpart", "setpart"] if w >= 2 else []
        if self.mem:
            ch += ["memslice"] * 4
        c = r.choice(ch)
        if c == "memslice":
            # slice of a memory expression: aligned / unaligned start, length a multiple of 8 or not
            big = [x for x in self.MEMW if x > w]
            m = self.mem_leaf(r.choice(big)) if big else None
            if m is None:
                return self.leaf(w)
            w2 = m[0][2]
            k = r.random()
            if k < 0.3:
                lo = 8 * r.randrange((w2 - w) // 8 + 1)
            elif k < 0.5:
                lo = w2 - w
            else:
                lo = r.randint(0, w2 - w)
            return m + [["slice", lo, lo + w]]
        if c == "setpart":
            return self.setpart(w, d)
        if c == "arith":
            return g(w) + g(w) + [[r.choice(["add", "add", "sub", "sub", "mul"])]]
        if c == "logic":
            return g(w) + g(w) + [[r.choice(["and", "and", "or", "xor"])]]
        if c == "div":
            return g(w) + g(w) + [[r.choice(["div", "mod"])]]
        if c == "pow":
            return g(w // 2) + g(w // 2) + [["pow"]]
        if c == "shift":
            return g(w) + self.shift_amount(w, d - 1) + [[r.choice(["shl", "shl", "shr", "shr", "asr", "ror", "rol", "rorh", "rolh"])]]
        if c == "unary":
            return g(w) + [[r.choice(["neg", "not"])]]
        if c == "slice":
            w2 = self.other_width(lambda x: x > w)
            if w2 is None:
                return g(w) + g(w) + [["add"]]
            lo = r.choice([0, 0, w2 - w, r.randint(0, w2 - w)])
            return g(w2) + [["slice", lo, lo + w]]
        if c == "bit":
            w2 = r.choice(WIDTHS)
            return g(w2) + [["bit", r.randrange(2 * w2)]]
        if c == "compose":
            if w == 1:
                return g(1) + [["compose", 1]]
            n = r.randint(2, min(4, w))
            cuts = sorted(r.sample(range(1, w), n - 1))
            ws = [b - a for a, b in zip([0] + cuts, cuts + [w])]
            out = []
            for x in ws:
                out += g(x)
            return out + [["compose", n]]
        if c == "tst":
            return g(1) + g(w) + g(w) + [["tst"]]
        if c == "ext":
            w2 = self.other_width(lambda x: x < w)
            if w2 is None:
                return g(w) + [[r.choice(["zext", "sext"]), w]]
            return g(w2) + [[r.choice(["zext", "sext"]), w]]
        if c == "cmp":
            w2 = r.choice(WIDTHS)
            gg = lambda: self.gen(w2, d - 1)
            return gg() + gg() + [[r.choice(["eq", "ne", "lt", "le", "gt", "ge", "lt", "ge", "ltu", "geu", "ltuh", "geuh"])]]
        if c == "twins":
            # (l o r) cmp (r o l) with a non-commutative o: the two sides have the same leaves and operator and
            # differ only in the operand order (comparison shortcuts that identify expressions must tell them apart)
            w2 = r.choice(WIDTHS)
            dd = 0 if r.random() < 0.6 else d - 1
            L, R = self.gen(w2, dd), self.gen(w2, dd)
            o = r.choice(["shl", "shr", "asr", "div", "mod", "sub", "ror", "rol", "ltu", "geu", "lt", "ge"])
            cp = lambda x: [list(i) for i in x]
            return L + R + [[o]] + cp(R) + cp(L) + [[o]] + [[r.choice(["eq", "ne", "eq", "ne", "ltu", "geu"])]]
        if c == "notcmp":
            # ~(a o b): the not_cond rule; leaves are often plain registers so that boundary valuations make a == b
            w2 = r.choice(WIDTHS)
            dd = 0 if r.random() < 0.5 else d - 1
            return self.gen(w2, dd) + self.gen(w2, dd) + [[r.choice(["le", "ge", "lt", "gt", "eq", "ne", "ltu", "geu", "le", "ge"])], ["not"]]
        if c == "eqbit":
            # (cond ==/!= bit)  — the eq_bit rule
            return g(1) + [["cst", r.choice([0, 1]), 1]] + [[r.choice(["eq", "ne"])]]
        if c == "dup":
            # x op x with two fresh but identically rendered operands
            if w == 1 and r.random() < 0.6:
                w2 = r.choice(WIDTHS)
                s = self.gen(w2, d - 1)
                return s + [list(i) for i in s] + [[r.choice(["eq", "ne", "lt", "le", "gt", "ge", "ltu", "geu"])]]
            s = g(w)
            return s + [list(i) for i in s] + [[r.choice(["sub", "xor", "and", "or", "add"])]]
        if c == "reassoc":
            # shapes of the +/- re-association and constant merging rules
            k = r.randrange(6)
            c1 = [["cst", self.const_value(w), w]]
            c2 = [["cst", self.const_value(w), w]]
            pm = lambda: [r.choice(["add", "sub"])]
            if k == 0:
                return g(w) + c1 + [pm()] + c2 + [pm()]
            if k == 1:
                return g(w) + c1 + [pm()] + g(w) + [pm()]
            if k == 2:
                return g(w) + g(w) + c1 + [pm()] + [pm()]
            if k == 3:
                return g(w) + g(w) + [["neg"]] + [["add"]]
            if k == 4:
                return g(w) + g(w) + [pm()] + [["neg"]]
            return c1 + g(w) + [pm()]
        if c == "simp":
            return g(w) + [[r.choice(["simp", "simp", "simpb"])]]
        return self.leaf(w)

    def setpart(self, w, d):
        """a composition of width w, then one or two writes `c[lo:hi] = v` at ranges that start strictly inside a
        part and reach into the next one(s), cover several parts, are aligned on part boundaries, lie inside one
        part, or are arbitrary."""
        r = self.r
        n = r.randint(2, min(4, w))
        cuts = sorted(r.sample(range(1, w), n - 1))
        bounds = [0] + cuts + [w]
        out = []
        for a, b in zip(bounds, bounds[1:]):
            out += self.gen(b - a, min(d - 1, 2))
        out.append([r.choice(["rawcomp", "rawcomp", "rawcomp", "compose"]), n])
        for _ in range(1 if r.random() < 0.7 else 2):
            k = r.random()
            i = r.randrange(n)
            lo = hi = None
            if k < 0.45 and i + 1 < n and bounds[i + 1] - bounds[i] >= 2:
                # straddle: start strictly inside part i, end inside (or at the end of) a following part
                off = r.randint(1, bounds[i + 1] - bounds[i] - 1)
                lo = bounds[i] + off
                j = i + 1 if (r.random() < 0.7 or i + 2 >= n) else r.randint(i + 1, n - 1)
                reach_max = bounds[j + 1] - bounds[i + 1]
                reach = r.randint(1, reach_max)
                if r.random() < 0.5:
                    reach = min(reach, off)        # reaches into the next part by no more than the start offset
                hi = bounds[i + 1] + reach
            elif k < 0.6:
                a, b = sorted(r.sample(range(n + 1), 2))
                lo, hi = bounds[a], bounds[b]
            elif k < 0.7 and bounds[i + 1] - bounds[i] >= 1:
                lo = r.randint(bounds[i], bounds[i + 1] - 1)
                hi = r.randint(lo + 1, bounds[i + 1])
            elif k < 0.75:
                lo, hi = 0, w
            if lo is None:
                lo = r.randrange(w)
                hi = r.randint(lo + 1, w)
            out += self.gen(hi - lo, min(d - 1, 2)) + [["setpart", lo, hi]]
        return out

    RAWABLE = ("add", "sub", "mul", "pow", "div", "mod", "and", "or", "xor", "shl", "shr", "asr", "eq", "ne", "lt", "le",
               "gt", "ge", "ltu", "geu", "ror", "rol")

    def rawify(self, s, p):
        """turn each node, with probability p, into the RAW constructor call (op(sym,l,r), uop(sym,r), slc(x,pos,size),
        comp + __setitem__) instead of the operator API: the tree is the same, but nothing is simplified at
        construction, so `simplify` / `eval` meet shapes the API would already have folded (a shift by more
        than the width, an operator on two constants, -(-x), a slice of a constant …)."""
        r = self.r
        out = []
        for ins in s:
            o = ins[0]
            if p <= 0 or r.random() >= p:
                out.append(ins)
            elif o in self.RAWABLE:
                out.append(["rawop", o])
            elif o in ("ltuh", "geuh", "rorh", "rolh"):
                out.append(["rawop", o[:-1]])
            elif o in ("neg", "not"):
                out.append(["rawuop", o])
            elif o == "slice" and ins[2] > ins[1] >= 0:
                out.append(["rawslc", ins[1], ins[2] - ins[1]])
            elif o == "compose" and ins[1] >= 1:
                out.append(["rawcomp", ins[1]])
            else:
                out.append(ins)
        return out

    def script(self):
        w = self.r.choice(WIDTHS)
        d = self.r.randint(1, self.maxdepth)
        s = self.gen(w, d)
        return self.rawify(s, self.r.choice([0, 0, 0, 0.15, 0.5, 1.0]))

    def valuations(self, n=16):
        """n total constant valuations of the script's registers (boundary values first).
        returns list of [[name,size,value]...]; a dummy register keeps the mapper non-empty."""
        r = self.r
        regs = sorted(self.regs.items())
        out = []
        for k in range(n):
            val = []
            for name, (size, _) in regs:
                if k == 0:
                    v = 0
                elif k == 1:
                    v = M(size)
                elif k == 2:
                    v = 1 << (size - 1)
                elif k == 3:
                    v = 1
                elif k == 4:
                    v = M(size) >> 1
                else:
                    q = r.random()
                    v = r.getrandbits(size) if q < 0.6 else (r.choice([0, 1, M(size), 1 << (size - 1), size, size - 1, 2]) & M(size))
                val.append([name, size, v])
            val.append(["zz_", 8, 0])
            out.append(val)
        return out


def used_ops(script):
    return sorted(set(i[0] for i in script))
