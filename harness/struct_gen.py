"""
struct_gen.py — generator of structure definitions from the grammar of amoco's definition
language (C16): field types, counts, byte orders, nesting, packed or not, unions, typedefs,
bit-fields (explicit groups and one-part lines that merge), variable-length fields.

A definition is a dict
   {"name", "kind": "struct"|"union"|"typedef", "packed": bool, "order": None|"<"|">",
    "fields": [field...], "src": text given to amoco, "base"/"tdcount" for typedefs}
a field one of
   {"k":"raw","t":letter,"count":n,"name":..,"order":None|"<"|">"}
   {"k":"bits","t":letter,"subs":[(name,bits)..],"order":..}
   {"k":"nest","ty":defname,"count":n,"name":..}
   {"k":"bitsEx","ty":typedefname,"subs":[..]}
   {"k":"var","t":..,"name":..,"order":..}  {"k":"cnt","t":..,"ct":..,"name":..,"order":..}
   {"k":"bound","t":..,"ref":..,"name":..,"order":..}  {"k":"leb","t":..,"signed":bool,"name":..}
"""
import itertools
import struct_oracle as O

_counter = itertools.count()

SCALARS = "cbBhHiIlLqQfdPs"
VAR_LETTERS = "csbBhHiIqQ"


def fresh(prefix):
    return "%s%d" % (prefix, next(_counter))


class Gen(object):
    def __init__(self, r, tag="g"):
        self.r = r
        self.tag = tag
        self.env = {}            # name -> def (insertion order = definition order)
        self.nf = 0

    def fname(self):
        self.nf += 1
        return self.r.choice(["a", "b", "fld", "x_", "Len", "v", "_p$", "w$x"]) + str(self.nf)

    def order(self):
        return self.r.choice([None, None, None, "<", ">"])

    # ---- fields -----------------------------------------------------------------------
    def raw(self, allow_x=False):
        r = self.r
        t = r.choice(SCALARS + ("x" if allow_x else ""))
        c = r.random()
        if t == "x":
            count = r.choice([1, 2, 3])
        elif c < 0.6:
            count = 0
        elif c < 0.97:
            count = r.choice([1, 2, 3, 4, 5, 7, 8, 16])
        else:
            count = 0
        return {"k": "raw", "t": t, "count": count, "name": self.fname(), "order": self.order(),
                "star0": c >= 0.97}

    def bits(self, t=None):
        r = self.r
        t = t or r.choice("BHIQbhiq")
        width = 8 * O.c_size(t, 8 if t not in "lLP" else 4)
        # signed storage: keep the sign bit uncovered (known finding otherwise)
        room = width - 1 if t in O.SIGNED else width
        subs, used = [], 0
        for _ in range(r.randint(1, 5)):
            if used >= room:
                break
            sz = r.randint(1, min(room - used, r.choice([1, 3, 8, 17, 33])))
            subs.append((self.fname(), sz))
            used += sz
        return {"k": "bits", "t": t, "subs": subs, "order": self.order()}

    def nest(self, kinds=("struct", "union", "typedef")):
        r = self.r
        cands = [n for n, d in self.env.items() if d["kind"] in kinds]
        if not cands:
            return None
        ty = r.choice(cands)
        c = r.random()
        count = 0 if c < 0.6 else r.choice([1, 2, 3, 4])
        return {"k": "nest", "ty": ty, "count": count, "name": self.fname()}

    def bits_ex(self):
        r = self.r
        cands = [n for n, d in self.env.items() if d["kind"] == "typedef" and O.typedef_scalar(n, self.env)]
        if not cands:
            return None
        ty = r.choice(cands)
        t, _ = O.typedef_scalar(ty, self.env)
        if t in "lLP":
            return None
        f = self.bits(t)
        return {"k": "bitsEx", "ty": ty, "subs": f["subs"]}

    def varlen(self, prev_fields):
        r = self.r
        c = r.random()
        o = self.order()
        if c < 0.25:
            return {"k": "var", "t": r.choice(VAR_LETTERS), "name": self.fname(), "order": o}
        if c < 0.55:
            return {"k": "cnt", "t": r.choice(VAR_LETTERS), "ct": r.choice("bBhHiI"), "name": self.fname(), "order": o}
        if c < 0.8:
            refs = [f["name"] for f in prev_fields
                    if (f["k"] == "raw" and f["count"] == 0 and f["t"] in "BHIQbhiq") or f["k"] == "leb"]
            if refs:
                return {"k": "bound", "t": r.choice(VAR_LETTERS), "ref": r.choice(refs), "name": self.fname(), "order": o}
        t = r.choice("bBhHiIlLqQ")
        return {"k": "leb", "t": t, "signed": t in "bhil", "name": self.fname()}

    # ---- definitions ------------------------------------------------------------------
    def typedef(self):
        r = self.r
        name = fresh("T" + self.tag)
        if self.env and r.random() < 0.35:
            cands = [n for n in self.env if O.is_fixed(n, self.env)]
            if cands:
                base = r.choice(cands)
                cnt = r.choice([0, 0, 2, 3])
                d = {"name": name, "kind": "typedef", "packed": False, "order": None, "base": base, "tdcount": cnt,
                     "fields": [{"k": "nest", "ty": base, "count": cnt, "name": "_"}], "src": "%s : _" % base}
                self.env[name] = d
                return name
        t = r.choice("bBhHiIlLqQfdPcs")
        cnt = r.choice([0, 0, 0, 2, 4])
        d = {"name": name, "kind": "typedef", "packed": False, "order": None, "base": t, "tdcount": cnt,
             "fields": [{"k": "raw", "t": t, "count": cnt, "name": "_", "order": None}], "src": "%s : _" % t}
        self.env[name] = d
        return name

    def aggregate(self, kind=None, varlen=False, nfields=None, allow_x=False):
        r = self.r
        kind = kind or r.choice(["struct", "struct", "struct", "union"])
        name = fresh(("U" if kind == "union" else "S") + self.tag)
        packed = r.random() < 0.3
        order = r.choice([None, None, None, ">", "<"])
        n = nfields or r.randint(1, 6)
        fields = []
        for _ in range(n):
            c = r.random()
            f = None
            if varlen and kind == "struct" and c < 0.4:
                f = self.varlen(fields)
            elif c < 0.55:
                f = self.raw(allow_x and kind == "struct")
            elif c < 0.70:
                f = self.bits()
            elif c < 0.76:
                f = self.bits_ex()
            else:
                kinds = ("struct", "union", "typedef")
                f = self.nest(kinds)
                if f is not None and not O.is_fixed(f["ty"], self.env):
                    # variable-length nested types only inside structs
                    if kind != "struct" or not varlen:
                        f = None
            if f is None:
                f = self.raw()
            fields.append(f)
        fields = merge_bits(fields, order, self.env)
        d = {"name": name, "kind": kind, "packed": packed, "order": order, "fields": fields}
        d["src"] = self.render(d)
        self.env[name] = d
        return name

    # ---- rendering ----------------------------------------------------------------------
    def render(self, d):
        """amoco source text; one-part bit-field lines are used where the language merges them back"""
        r = self.r
        lines = []
        for idx, f in enumerate(d["fields"]):
            k = f["k"]
            o = f.get("order") or ""
            prev = d["fields"][idx - 1] if idx else None
            if k == "raw":
                cnt = "*%d" % f["count"] if (f["count"] or f.get("star0")) else ""
                lines.append("%s%s :%s%s" % (f["t"], cnt, o, f["name"]))
            elif k in ("bits", "bitsEx"):
                tn = f["t"] if k == "bits" else f["ty"]
                subs = f["subs"]
                # split a tail of the group into one-part lines (they merge back: same type, same order, fits)
                cut = len(subs)
                # (a one-part head would merge into a preceding bit-field of the same type instead)
                lo = 2 if (prev is not None and prev["k"] == k) else 1
                if len(subs) > lo and r.random() < 0.5:
                    cut = r.randint(lo, len(subs) - 1)
                head = subs[:cut]
                lines.append("%s *#%s :%s%s" % (tn, "/".join(str(s) for _, s in head), o, "/".join(n for n, _ in head)))
                for nm, sz in subs[cut:]:
                    lines.append("%s*#%d:%s%s" % (tn, sz, o, nm))
            elif k == "nest":
                cnt = "*%d" % f["count"] if f["count"] else ""
                lines.append("%s%s : %s" % (f["ty"], cnt, f["name"]))
            elif k == "var":
                lines.append("%s*~ :%s%s" % (f["t"], o, f["name"]))
            elif k == "cnt":
                lines.append("%s*~%s :%s %s" % (f["t"], f["ct"], o, f["name"]))
            elif k == "bound":
                lines.append("%s*.%s :%s%s" % (f["t"], f["ref"], o, f["name"]))
            elif k == "leb":
                lines.append("%s*%%leb128 : %s" % (f["t"], f["name"]))
        out = []
        for ln in lines:
            c = r.random()
            if c < 0.15:
                ln = ln + " ; a comment: with * and # chars"
            elif c < 0.25:
                ln = "  " + ln.replace(" :", "\t:  ")
            out.append(ln)
        sep = "\n"
        txt = sep.join(out)
        if r.random() < 0.3:
            txt = "\n" + txt + "\n"
        return txt

    # ---- a whole case -------------------------------------------------------------------
    def case(self, varlen=False, allow_x=False):
        """defines 0..3 auxiliary types then a top-level definition; returns its name"""
        r = self.r
        self.env = {}
        self.nf = 0
        for _ in range(r.choice([0, 1, 1, 2, 3])):
            c = r.random()
            if c < 0.35:
                self.typedef()
            else:
                self.aggregate(varlen=varlen and r.random() < 0.5, nfields=r.randint(1, 4))
        return self.aggregate(varlen=varlen, allow_x=allow_x)


def merge_bits(fields, dorder, env):
    """the language merges a one-part bit-field line into a preceding bit-field of the same type and
    byte order when it still fits the storage unit: make the description say the same"""
    out = []
    for f in fields:
        if out and f["k"] in ("bits", "bitsEx") and len(f["subs"]) == 1 and out[-1]["k"] == f["k"]:
            p = out[-1]
            key = lambda g: (g.get("t") or g.get("ty"), g.get("order") or dorder or "<")
            if key(p) == key(f):
                t = f["t"] if f["k"] == "bits" else O.typedef_scalar(f["ty"], env)[0]
                width = 8 * O.c_size(t, 8)
                if sum(s for _, s in p["subs"]) + f["subs"][0][1] <= width:
                    p["subs"] = p["subs"] + f["subs"]
                    continue
        out.append(f)
    # a signed storage unit whose sign bit is covered cannot be re-packed by the code when that bit
    # is set (known finding, probed separately): keep the main stream clear of it
    for f in out:
        if f["k"] in ("bits", "bitsEx"):
            t = f["t"] if f["k"] == "bits" else O.typedef_scalar(f["ty"], env)[0]
            if t in O.SIGNED and sum(s for _, s in f["subs"]) >= 8 * O.c_size(t, 8):
                nm, sz = f["subs"][-1]
                if sz > 1:
                    f["subs"] = f["subs"][:-1] + [(nm, sz - 1)]
                elif len(f["subs"]) > 1:
                    f["subs"] = f["subs"][:-1]
    return out


def entry(d):
    """JSON entry for the Lean driver"""
    return {"name": d["name"], "kind": d["kind"], "src": d["src"], "packed": bool(d.get("packed")),
            "order": d.get("order"), "tdcount": d.get("tdcount", 0)}


def driver_def(name, env):
    names = list(env)
    i = names.index(name)
    return {"env": [entry(env[n]) for n in names[:i]], "def": entry(env[name])}


def has_letter(name, env, letters, seen=None):
    d = env[name]
    for f in d["fields"]:
        if f.get("t") is not None and f["t"] in letters and f["k"] != "leb":
            return True
        if "ty" in f and has_letter(f["ty"], env, letters):
            return True
    return False
