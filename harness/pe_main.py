"""pe_main.py — stand-alone runner of the PE half of C14 / C20 (builder's own testing).
usage: AMOCO_REPO=<worktree> /venv/bin/python harness/pe_main.py [quick|thorough] [C14|C20|both]"""
import sys, time
from common import *
import pe_check


def main(tier, which):
    rc = 0
    if os.environ.get("PE_MAIN_NOBUILD"):
        # builder's mutation loop only: reuse the driver already built (the amoco tree changes, the Lean side does not)
        pe_check.lake_build = lambda targets: (True, "")
        pe_check.audit = lambda pid: ([], [])
    for pid, fn in (("C14", pe_check.run_c14), ("C20", pe_check.run_c20)):
        if which not in (pid, "both"):
            continue
        ck = Check(pid, tier)
        corr = []
        t0 = time.time()
        n = fn(ck, tier, corr)
        ck.oblige("correspondence PE header stage (%s)" % pid, not corr, "%d disagreements" % len(corr))
        print("%s: %d cases, %d correspondence disagreements, %.1fs" % (pid, n, len(corr), time.time() - t0))
        for c in corr[:5]:
            print("  DIFF", c[0], json.dumps(c[1].get("meta"), default=repr)[:200], "at", c[1].get("at"), "real", str(c[2])[:160], "model", str(c[3])[:160])
        print("  counts", json.dumps(ck.counts, sort_keys=True))
        rc |= ck.finish(rule="PE images from a grammar, truncations at structure boundaries, single-field boundary values, samples; "
                             "non-trivial = the real header stage returns an object (C14) / raises (C20)")
    return rc


if __name__ == "__main__":
    sys.exit(main(sys.argv[1] if len(sys.argv) > 1 else "quick", sys.argv[2] if len(sys.argv) > 2 else "both"))
