"""
C05 — tie of the LEB128 operand-helper model (lean/Amoco/Model/LebOperand.lean) to the real helpers
`amoco.arch.dwarf.spec._leb128` and `amoco.arch.wasm.spec._leb`, and the property oracle on them.

Theorems (Props/C05.lean, namespace Amoco.Leb128.Props05): leb_operand_bounds, leb_operand_ignores_tail,
leb_operand_truncation_rejected, leb_operand_depends_on_consumed — for every data, offset and tail.
Here: (C) the real helper and the model agree (value, length, rejection) on generated data;
(oracle, independent of both) an accepted operand equals a by-the-book LEB128 decode of exactly the
consumed bytes, is unchanged by any replacement tail, and every proper truncation is rejected.
"""
import ast, os
from common import *


def ref_leb(data, signed):
    """by-the-book LEB128: returns (value, n) or None when the data ends before the number does"""
    v = 0
    for n, b in enumerate(data):
        v |= (b & 0x7F) << (7 * n)
        if not b & 0x80:
            if signed and b & 0x40:
                v -= 1 << (7 * (n + 1))
            return v, n + 1
    return None


def enc(v, signed, pad=0):
    out = []
    while True:
        x = v & 0x7F
        v >>= 7
        done = (v == 0 and not x & 0x40) or (v == -1 and x & 0x40) if signed else v == 0
        if done and not pad:
            out.append(x)
            return bytes(out)
        out.append(x | 0x80)
        if done:
            # redundant continuation groups (sign-extension for signed numbers), still a valid encoding
            fill = 0x7F if (signed and x & 0x40) else 0x00
            out += [fill | 0x80] * (pad - 1) + [fill]
            return bytes(out)


def helpers():
    """(label, callable(data, signed, offset) -> (v, n) | None | ('raises', cls))"""
    from amoco.arch.core import InstructionError
    hs = []

    def wrap(f, with_offset):
        def call(data, signed, off):
            try:
                if with_offset:
                    return tuple(f(None, data, -1 if signed else +1, off))
                if off:
                    return "skip"
                return tuple(f(None, data, -1 if signed else +1))
            except InstructionError:
                return None
            except Exception as e:      # any other exception class is the helper's own failure
                return ("raises", type(e).__name__)
        return call
    try:
        from amoco.arch.dwarf import spec as ds
        hs.append(("dwarf._leb128", wrap(ds._leb128, False)))
    except Exception as e:
        hs.append(("dwarf._leb128", repr(e)))
    try:
        from amoco.arch.wasm import spec as ws
        hs.append(("wasm._leb", wrap(ws._leb, True)))
    except Exception as e:
        hs.append(("wasm._leb", repr(e)))
    return hs


def direct_call_sites():
    """decoder-hook call sites that read LEB128 numbers without going through the modelled helper (informative)"""
    out = {}
    for isa, helper in (("dwarf", "_leb128"), ("wasm", "_leb")):
        p = os.path.join(REPO, "amoco", "arch", isa, "spec.py")
        try:
            tree = ast.parse(open(p).read())
        except Exception:
            continue
        n_direct, n_helper = 0, 0
        for fn in [x for x in ast.walk(tree) if isinstance(x, ast.FunctionDef)]:
            for c in [x for x in ast.walk(fn) if isinstance(x, ast.Call) and isinstance(x.func, ast.Name)]:
                if c.func.id in ("read_leb128", "read_uleb128", "read_sleb128") and fn.name != helper:
                    n_direct += 1
                if c.func.id == helper:
                    n_helper += 1
        out[isa] = {"through_helper": n_helper, "direct": n_direct}
    return out


def gen(r, n):
    vals = [0, 1, -1, 63, 64, -64, -65, 127, 128, -128, -129, 624485, -123456, 2**31 - 1, -2**31, 2**32 - 1, 2**63, -2**63, 2**64 - 1]
    for _ in range(n):
        signed = r.random() < 0.5
        v = r.choice(vals) if r.random() < 0.5 else r.getrandbits(r.choice([3, 7, 8, 14, 21, 32, 35, 64, 70])) * r.choice([1, -1])
        if not signed:
            v = abs(v)
        body = enc(v, signed, pad=r.choice([0, 0, 0, 1, 2, 5, 12, 20]))
        off = r.choice([0, 0, 0, 1, 2, 5])
        pre = bytes(r.getrandbits(8) for _ in range(off))
        tail = bytes(r.getrandbits(8) for _ in range(r.choice([0, 0, 1, 3, 8])))
        yield "valid", signed, pre + body + tail, off
        # purely random data, and data that never terminates
        if r.random() < 0.3:
            m = r.randrange(0, 12)
            yield "random", signed, bytes(r.getrandbits(8) for _ in range(m)), r.choice([0, 0, 1, m, m + 1])
        if r.random() < 0.15:
            yield "unterminated", signed, bytes(0x80 | r.getrandbits(7) for _ in range(r.randrange(1, 9))), 0


def run(ck, drv, tier):
    r = rng("C05.leb")
    ck.cov["leb_call_sites"] = direct_call_sites()
    corr = []
    for label, h in helpers():
        if not callable(h):
            corr.append(("helper %s not importable: %s" % (label, h), {"helper": label}, h, None))
            continue
        for kind, signed, data, off in gen(r, 400 if tier == "quick" else 8000):
            real = h(data, signed, off)
            if real == "skip":
                continue
            ck.count("leb.%s.%s" % (label, kind))
            case = {"helper": label, "signed": signed, "data": data.hex(), "offset": off}
            m = drv.ask({"op": "leb.operand", "signed": signed, "data": list(data), "offset": off})
            model = tuple(m) if isinstance(m, list) else m
            ck.case(("leb", label, signed, data, off), nontrivial=real is not None)
            # property oracle, independent of amoco and of the model
            want = ref_leb(data[off:], signed) if off < len(data) else None
            if isinstance(real, tuple) and real and real[0] == "raises":
                ck.report("C05:leb:%s:raises:%s" % (label, real[1]), "%s(%s, signed=%s, offset=%d) raises %s" % (label, data.hex(), signed, off, real[1]),
                          "oracle", "Amoco.Leb128.Props05.leb_operand_bounds (helper is total: accepts or rejects)", case=case, real=real, model=model, expected=want)
                continue
            if real != want:
                aspect = "truncated-accepted" if want is None else ("rejected" if real is None else "value")
                ck.report("C05:leb:%s:%s" % (label, aspect), "%s(%s, signed=%s, offset=%d) = %r, the bytes encode %r" % (label, data.hex(), signed, off, real, want),
                          "oracle", "Amoco.Leb128.Props05.leb_operand_ignores_tail / leb_operand_truncation_rejected (via the model tie)", case=case, real=real, model=model, expected=want)
                continue
            if real is not None:
                v, n = real
                for t in (b"", b"\x00" * 3, b"\xff" * 3, b"\x80", bytes(r.getrandbits(8) for _ in range(4))):
                    d2 = data[: off + n] + t
                    r2 = h(d2, signed, off)
                    ck.count("leb.variant.tail")
                    if r2 != real:
                        ck.report("C05:leb:%s:tail-dependent" % label, "%s: %r on %s but %r on the consumed bytes followed by %s" % (label, real, data.hex(), r2, t.hex() or "nothing"),
                                  "oracle", "Amoco.Leb128.Props05.leb_operand_ignores_tail", case=dict(case, variant=d2.hex()), real=r2, expected=real)
                        break
                for k in range(0, n):
                    r3 = h(data[: off + k], signed, off)
                    ck.count("leb.variant.truncation")
                    if r3 is not None:
                        ck.report("C05:leb:%s:truncated-accepted" % label, "%s accepts %s, a proper truncation of the operand %s: %r" % (label, data[: off + k].hex(), data[off: off + n].hex(), r3),
                                  "oracle", "Amoco.Leb128.Props05.leb_operand_truncation_rejected", case=dict(case, variant=data[: off + k].hex()), real=r3, expected=None)
                        break
            if model != real:
                corr.append(("%s differs from Leb128.lebOperand" % label, case, real, model))
    if corr:
        what, case, real, model = corr[0]
        ck.report("C05:leb:correspondence", "%d disagreements between the LEB128 operand helpers and their model although the helpers agree with the by-the-book "
                  "decoder on every generated input (first: %s)" % (len(corr), what), "correspondence", "correspondence Leb128.lebOperand ~ _leb128/_leb",
                  case=case, real=real, model=model, failing_input_found=False)
    ck.oblige("correspondence Leb128.lebOperand ~ dwarf._leb128 / wasm._leb", not corr, "%d disagreements" % len(corr))
    ck.trusted += ["harness/leb_tie.py (by-the-book LEB128 reference written independently of amoco and of the Lean model)"]
