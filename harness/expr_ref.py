"""
expr_ref.py — independent big-int reference semantics of BUILD SCRIPTS (property oracle of C01 / C12).

Nothing here imports amoco.  A script (see expr_real.py) is interpreted as the expression tree it
denotes, with ordinary two's-complement fixed-width arithmetic:

  * sign-agnostic operators have one meaning;
  * shifts take the right operand as an unsigned amount; amount >= width gives 0 (sign fill for `asr`);
  * rotations are judged only for amounts < width;
  * ordered comparisons, widening multiply, `/` and `%` are judged only when both operands were declared
    with the same signedness, unambiguously: `decl` = the sf flags the user saw on the two operand objects
    *and on every node below them* when applying the operator — all must agree;
    signed `/` and `%` accept floor and truncate;
  * division by zero, undeclared signedness, `top` and `mem` leaves, ill-sized trees: not judged (None);
  * `setpart lo hi` writes the value on top into bits [lo,hi) of the composition below it.

Raw-node instructions (`rawop name`, `rawuop`, `rawslc pos size`, `rawcomp n`) denote the same trees as the
operator-API instructions and are read as such (`canon`).

`width(script)` is the width the construction dictates (None when the tree is ill-sized).
"""

SIGN_DEP = ("lt", "le", "gt", "ge", "pow", "div", "mod")
BINOPS = ("add", "sub", "mul", "pow", "div", "mod", "and", "or", "xor", "shl", "shr", "asr", "eq", "ne", "lt", "le",
          "gt", "ge", "ltu", "geu", "ror", "rol", "ltuh", "geuh", "rorh", "rolh")
SAMEW = ("add", "sub", "mul", "pow", "div", "mod", "and", "or", "xor", "eq", "ne", "lt", "le", "gt", "ge", "ltu",
         "geu", "ltuh", "geuh")
COND = ("eq", "ne", "lt", "le", "gt", "ge", "ltu", "geu", "ltuh", "geuh")


class IllSized(Exception):
    pass


def canon(script):
    """raw-node instructions denote the same tree as their operator-API counterparts."""
    out = []
    for ins in script:
        o = ins[0]
        if o == "rawop":
            out.append([ins[1]])
        elif o == "rawuop":
            out.append([ins[1]])
        elif o == "rawslc":
            out.append(["slice", ins[1], ins[1] + ins[2]])
        elif o == "rawcomp":
            out.append(["compose", ins[1]])
        else:
            out.append(ins)
    return out


def M(w):
    return (1 << w) - 1


def sgn(v, w):
    return v - (1 << w) if (v >> (w - 1)) & 1 else v


def width(script):
    """width dictated by construction, None if the tree is not well-sized."""
    try:
        st = []
        for ins in canon(script):
            o = ins[0]
            if o in ("cst",):
                if ins[2] <= 0:
                    raise IllSized
                st.append(ins[2])
            elif o in ("reg", "ext"):
                if ins[2] <= 0:
                    raise IllSized
                st.append(ins[2])
            elif o == "top":
                st.append(ins[1])
            elif o == "mem":
                if ins[2] <= 0 or ins[2] % 8:
                    raise IllSized
                st.append(ins[2])
            elif o == "setpart":
                v = st.pop(); c = st.pop()
                lo, hi = ins[1], ins[2]
                if not (0 <= lo < hi <= c) or v != hi - lo:
                    raise IllSized
                st.append(c)
            elif o in ("signed", "unsigned", "neg", "not", "simp", "simpb"):
                pass
            elif o in BINOPS:
                r = st.pop(); l = st.pop()
                if o in SAMEW and l != r:
                    raise IllSized
                st.append(1 if o in COND else (2 * l if o == "pow" else l))
            elif o == "slice":
                w = st.pop()
                lo, hi = ins[1], ins[2]
                if not (0 <= lo < hi <= w):
                    raise IllSized
                st.append(hi - lo)
            elif o == "bit":
                st.pop(); st.append(1)
            elif o == "compose":
                n = ins[1]
                if n < 1:
                    raise IllSized
                ws = st[len(st) - n:]; del st[len(st) - n:]
                st.append(sum(ws))
            elif o == "tst":
                r = st.pop(); l = st.pop(); t = st.pop()
                if t != 1 or l != r:
                    raise IllSized
                st.append(l)
            elif o in ("zext", "sext"):
                w = st.pop(); st.append(max(w, ins[1]))
            else:
                raise IllSized
        if len(st) != 1:
            raise IllSized
        return st[0]
    except IllSized:
        return None


def _pw(f, A, B, w):
    return frozenset(f(a, b) & M(w) for a in A for b in B)


def evaluate(script, decl, rho):
    """rho: {name: unsigned value}.  returns (width, frozenset of acceptable values) or None (not judged)."""
    if width(script) is None:
        return None
    dd = {d[0]: d[1:] for d in decl}
    st = []   # (width, frozenset)
    for k, ins in enumerate(canon(script)):
        o = ins[0]
        if o == "cst":
            st.append((ins[2], frozenset([ins[1] & M(ins[2])])))
        elif o in ("reg", "ext"):
            if ins[1] not in rho:
                return None
            st.append((ins[2], frozenset([rho[ins[1]] & M(ins[2])])))
        elif o in ("top", "mem"):
            # no single value (memory is left symbolic: scripts with memory leaves are judged on widths only)
            return None
        elif o == "setpart":
            wv, V = st.pop(); w, C = st.pop(); lo, hi = ins[1], ins[2]
            keep = M(w) ^ (M(hi - lo) << lo)
            st.append((w, frozenset((c & keep) | (v << lo) for c in C for v in V)))
        elif o in ("signed", "unsigned", "simp", "simpb"):
            pass
        elif o == "neg":
            w, A = st.pop(); st.append((w, frozenset((-a) & M(w) for a in A)))
        elif o == "not":
            w, A = st.pop(); st.append((w, frozenset((~a) & M(w) for a in A)))
        elif o in BINOPS:
            wr, B = st.pop(); w, A = st.pop()
            if o in SIGN_DEP:
                if k not in dd or dd[k][0] != dd[k][1] or (len(dd[k]) > 2 and len(dd[k][2]) != 1):
                    return None
                signed = dd[k][0]
            if o == "add":
                st.append((w, _pw(lambda a, b: a + b, A, B, w)))
            elif o == "sub":
                st.append((w, _pw(lambda a, b: a - b, A, B, w)))
            elif o == "mul":
                st.append((w, _pw(lambda a, b: a * b, A, B, w)))
            elif o == "and":
                st.append((w, _pw(lambda a, b: a & b, A, B, w)))
            elif o == "or":
                st.append((w, _pw(lambda a, b: a | b, A, B, w)))
            elif o == "xor":
                st.append((w, _pw(lambda a, b: a ^ b, A, B, w)))
            elif o == "shl":
                st.append((w, _pw(lambda a, b: 0 if b >= w else a << b, A, B, w)))
            elif o == "shr":
                st.append((w, _pw(lambda a, b: 0 if b >= w else a >> b, A, B, w)))
            elif o == "asr":
                st.append((w, _pw(lambda a, b: sgn(a, w) >> min(b, w), A, B, w)))
            elif o in ("ror", "rorh"):
                if any(b >= w for b in B):
                    return None
                st.append((w, _pw(lambda a, b: (a >> b) | (a << (w - b)), A, B, w)))
            elif o in ("rol", "rolh"):
                if any(b >= w for b in B):
                    return None
                st.append((w, _pw(lambda a, b: (a << b) | (a >> (w - b)), A, B, w)))
            elif o == "eq":
                st.append((1, _pw(lambda a, b: int(a == b), A, B, 1)))
            elif o == "ne":
                st.append((1, _pw(lambda a, b: int(a != b), A, B, 1)))
            elif o in ("ltu", "ltuh"):
                st.append((1, _pw(lambda a, b: int(a < b), A, B, 1)))
            elif o in ("geu", "geuh"):
                st.append((1, _pw(lambda a, b: int(a >= b), A, B, 1)))
            elif o in ("lt", "le", "gt", "ge"):
                f = {"lt": lambda a, b: a < b, "le": lambda a, b: a <= b, "gt": lambda a, b: a > b, "ge": lambda a, b: a >= b}[o]
                if signed:
                    st.append((1, _pw(lambda a, b: int(f(sgn(a, w), sgn(b, w))), A, B, 1)))
                else:
                    st.append((1, _pw(lambda a, b: int(f(a, b)), A, B, 1)))
            elif o == "pow":
                if signed:
                    st.append((2 * w, _pw(lambda a, b: sgn(a, w) * sgn(b, w), A, B, 2 * w)))
                else:
                    st.append((2 * w, _pw(lambda a, b: a * b, A, B, 2 * w)))
            elif o in ("div", "mod"):
                if 0 in B:
                    return None
                out = set()
                for a in A:
                    for b in B:
                        if not signed:
                            out.add((a // b if o == "div" else a % b) & M(w))
                        else:
                            sa, sb = sgn(a, w), sgn(b, w)
                            fq, fr = sa // sb, sa % sb                        # floor
                            tq = abs(sa) // abs(sb) * (1 if (sa < 0) == (sb < 0) else -1)   # truncate
                            tr = sa - tq * sb
                            out.add((fq if o == "div" else fr) & M(w))
                            out.add((tq if o == "div" else tr) & M(w))
                st.append((w, frozenset(out)))
        elif o == "slice":
            w, A = st.pop(); lo, hi = ins[1], ins[2]
            st.append((hi - lo, frozenset((a >> lo) & M(hi - lo) for a in A)))
        elif o == "bit":
            w, A = st.pop(); i = ins[1] % w
            st.append((1, frozenset((a >> i) & 1 for a in A)))
        elif o == "compose":
            n = ins[1]
            ps = st[len(st) - n:]; del st[len(st) - n:]
            acc = frozenset([0]); pos = 0
            for (w, A) in ps:
                acc = frozenset(x | (a << pos) for x in acc for a in A)
                pos += w
            st.append((pos, acc))
        elif o == "tst":
            w, B = st.pop(); w, A = st.pop(); _, T = st.pop()
            out = set()
            for t in T:
                out |= set(A if t == 1 else B)
            st.append((w, frozenset(out)))
        elif o == "zext":
            w, A = st.pop(); st.append((max(w, ins[1]), A))
        elif o == "sext":
            w, A = st.pop(); n = max(w, ins[1])
            st.append((n, frozenset(sgn(a, w) & M(n) for a in A)))
        else:
            return None
    return st[0]
