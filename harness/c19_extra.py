"""
C19 — store-size asymmetries between the two maps, judged byte by byte.

`mapper.merge` has one code path for stores through an ordinary pointer and another for stores through a
vector-valued pointer (a pointer whose base is a vec of bases: literally, or a register that holds a vec
from an earlier merge), each of them once per argument.  This pass drives all four with the same family
of inputs: each map holds one or two stores relative to the same pointer, of sizes 8..64 bits, placed
so that the two maps' stores have the same start / are contained / straddle / are adjacent, the second
map wider than the first, the first wider than the second, or equal; merged in both argument orders,
with widening on and off and several complexity thresholds.

Oracle (independent of merge and of the model): for every candidate address of the pointer and EVERY
byte that either map writes (plus one byte on either side, which neither map writes), the byte is read
from the merged map and from each of the two maps, all three are evaluated on a concrete state, and the
merged candidates must contain each map's value unless the merged byte is unknown.  A byte that neither
map writes must come out as the state's own byte.

A case is a plain JSON description (`spec`), rebuilt by `build(spec)`: replay with
    ./check C19 --replay <replay.json>
"""
import itertools
import json
import sys

from common import fresh_amoco
fresh_amoco()
from amoco.cas.expressions import reg, cst, mem, ptr, vec, top, composer
from amoco.cas.mapper import mapper, merge
from amoco.config import conf

A, B, C, D, E = [reg(n, 32) for n in ("a", "b", "c", "d", "e")]
BASES = {"a": 0x1000, "b": 0x2000}
KINDS = ("plain", "vec-literal", "vec-register")
SIZES = (8, 16, 32, 64)
SETTINGS = [(False, 0), (True, 0), (False, 9), (False, 30), (True, 9)]
WINDOW = (-1, 13)        # bytes [disp -1, disp 13) around the pointer are judged


def pointer(kind):
    """(base expression used in the stores, setup entries every map starts with, candidate bases)"""
    if kind == "plain":
        return A, [], [A]
    if kind == "vec-literal":
        return vec([A, B]), [], [A, B]
    # a register that holds a vector of bases, as left by an earlier merge; both maps start from that state
    return E, [("e", ["a", "b"])], [A, B]


def value(v, size):
    """value description -> expression: ["cst", n] | ["reg", name] | ["xor", name, n]"""
    if v[0] == "cst":
        return cst(v[1] & ((1 << size) - 1), size)
    x = reg(v[1], 32)
    if v[0] == "xor":
        x = x ^ cst(v[2], 32)
    if size == 32:
        return x
    if size < 32:
        return x[0:size]
    return composer([x, cst(v[-1] if v[0] == "xor" else 0x5a5a5a5a, 32)])


def build_map(kind, stores, regw=None):
    m = mapper()
    base, setup, _ = pointer(kind)
    for name, alts in setup:
        m[reg(name, 32)] = vec([reg(x, 32) for x in alts])
    if regw is not None:
        m[reg(regw[0], 32)] = cst(regw[1], 32)
    for disp, size, v in stores:
        m[mem(base, size, disp=disp)] = value(v, size)
    return m


def build(spec):
    m1 = build_map(spec["ptr"], spec["stores1"], spec.get("reg1"))
    m2 = build_map(spec["ptr"], spec["stores2"], spec.get("reg2"))
    return m1, m2


def state(spec):
    st = mapper()
    for name, v in spec["regs"].items():
        st[reg(name, 32)] = cst(v, 32)
    for name, base in BASES.items():
        for k, w in enumerate(spec["mem"][name]):
            st[mem(cst(base - 4 + 4 * k, 32), 32)] = cst(w, 32)
    return st


def rnd_state(r):
    regs = {"a": BASES["a"], "b": BASES["b"]}          # never aliased (the default no-aliasing assumption)
    for n in ("c", "d", "e"):
        regs[n] = r.choice([0, 1, 0x7fffffff, 0xffffffff, r.getrandbits(32)])
    return {"regs": regs, "mem": {n: [r.getrandbits(32) for _ in range(6)] for n in BASES}}


def unwrap(e):
    while e._is_cmp and len(e.parts) == 1 and list(e.parts.keys())[0] == (0, e.size):
        e = list(e.parts.values())[0]
    return e


def cands(st, e, limit=256):
    """set of concrete values expression e may take in state st; None = unknown / does not reduce"""
    e = unwrap(e)
    if not e._is_def:
        return None
    if e._is_vec:
        out = set()
        for x in e.l:
            c = cands(st, x, limit)
            if c is None:
                return None
            out |= c
        return out
    if e._is_cmp:
        parts = []
        for (lo, hi), p in sorted(e.parts.items()):
            c = cands(st, p, limit)
            if c is None:
                return None
            parts.append((lo, hi, c))
        n = 1
        for _, _, c in parts:
            n *= len(c)
        if n > limit:
            return None
        out = set()
        for combo in itertools.product(*[sorted(c) for _, _, c in parts]):
            v = 0
            for (lo, hi, _), pv in zip(parts, combo):
                v |= (pv & ((1 << (hi - lo)) - 1)) << lo
            out.add(v)
        return out
    try:
        x = st(e)
        x = unwrap(x.simplify())
    except Exception:
        return None
    if x._is_cst:
        return {x.v & ((1 << x.size) - 1)}
    if x is not e and (x._is_vec or x._is_cmp or not x._is_def):
        return cands(st, x, limit)
    return None


def written(stores):
    out = set()
    for disp, size, _ in stores:
        out |= set(range(disp, disp + size // 8))
    return out


def shape(stores1, stores2):
    """relation of the two maps' stores: overlap shape and which map is wider where they start together"""
    def ov(x, y):
        return x[0] < y[1] and y[0] < x[1]
    i1 = [(d, d + s // 8) for d, s, _ in stores1]
    i2 = [(d, d + s // 8) for d, s, _ in stores2]
    cross = [(x, y) for x in i1 for y in i2 if ov(x, y)]
    if any(ov(x, y) for I in (i1, i2) for k, x in enumerate(I) for y in I[k + 1:]):
        # the value recorded for the earlier of the two entries is no longer what the map holds there
        sh = "a-map-overlaps-its-own-stores"
    elif not cross:
        sh = "disjoint"
    elif all(x == y for x, y in cross):
        sh = "same-location"
    elif all(x[0] == y[0] for x, y in cross):
        sh = "same-start"
    elif all((x[0] <= y[0] and y[1] <= x[1]) or (y[0] <= x[0] and x[1] <= y[1]) for x, y in cross):
        sh = "contained"
    else:
        sh = "straddling"
    w1 = max(s for _, s, _ in stores1)
    w2 = max(s for _, s, _ in stores2)
    rel = "second-wider" if w2 > w1 else ("first-wider" if w1 > w2 else "same-width")
    return sh, rel


def judge(spec, widening, thr):
    """-> (list of failures, stats); a failure is a dict naming the byte, the map not covered, wanted / got"""
    saved = conf.Cas.complexity
    conf.Cas.complexity = thr
    stats = {"bytes": 0, "unknown": 0, "undecided": 0, "untouched": 0}
    fails = []
    try:
        m1, m2 = build(spec)
        mm = merge(m1, m2, widening=widening)
        st = state(spec)
        _, _, bases = pointer(spec["ptr"])
        w1, w2 = written(spec["stores1"]), written(spec["stores2"])
        for b in bases:
            for k in range(*WINDOW):
                loc = mem(b, 8, disp=k)
                try:
                    mv = mm[loc]
                except Exception as ex:
                    fails.append({"byte": str(loc), "aspect": "merged-map-read-raises", "got": repr(ex), "map": 0, "want": None})
                    continue
                got = cands(st, mv)
                stats["bytes"] += 1
                if k not in w1 and k not in w2:
                    # written by neither map: untouched
                    stats["untouched"] += 1
                    want = cands(st, loc)
                    if got is None or want is None or got != want:
                        fails.append({"byte": str(loc), "aspect": "untouched-byte-changed", "map": 0,
                                      "want": sorted(want or []), "got": None if got is None else sorted(got), "merged": str(mv)})
                    continue
                if got is None:
                    stats["unknown"] += 1
                    continue
                for which, m in ((1, m1), (2, m2)):
                    own = m[loc]
                    want = cands(st, own)
                    if want is None:
                        if not unwrap(own)._is_def:
                            # the map itself holds 'unknown' there: a definite merged byte excludes values
                            fails.append({"byte": str(loc), "aspect": "unknown-made-definite", "map": which, "want": None,
                                          "got": sorted(got), "merged": str(mv)})
                        else:
                            stats["undecided"] += 1
                        continue
                    if not want <= got:
                        fails.append({"byte": str(loc), "aspect": "byte-not-covered", "map": which, "own": str(own),
                                      "want": sorted(want), "got": sorted(got), "merged": str(mv)})
    finally:
        conf.Cas.complexity = saved
    return fails, stats


def rnd_value(r, size, tag):
    k = r.random()
    if k < 0.6:
        return ["cst", r.getrandbits(size) | 1]
    if k < 0.85:
        return ["reg", r.choice(["c", "d"])]
    return ["xor", r.choice(["c", "d"]), r.getrandbits(32)]


def rnd_stores(r, s, d, second):
    """one store (d, s), sometimes with a second store of the same map: before it (then possibly overwritten
    in part), after it at the same address with another width, or next to it"""
    out = [[d, s, rnd_value(r, s, 0)]]
    if second:
        s2 = r.choice(SIZES)
        d2 = r.choice([d, d, d + s // 8, max(0, d - 1), d + 1])
        if d2 + s2 // 8 > WINDOW[1] - 1:
            d2 = d
        st = [d2, s2, rnd_value(r, s2, 1)]
        out = [st] + out if r.random() < 0.5 else out + [st]
    return out


def specs(r, n):
    """systematic part: every pointer kind x every ordered size pair at the same start and at one other
    placement; then n random ones with second stores / register writes"""
    for kind in KINDS:
        for s1 in SIZES:
            for s2 in SIZES:
                for d2 in (0, r.choice([1, 2, 3, s1 // 8])):
                    yield {"ptr": kind, "stores1": [[0, s1, rnd_value(r, s1, 0)]], "stores2": [[d2, s2, rnd_value(r, s2, 1)]]}
    # a map whose later store overlaps its own earlier one (the earlier entry's recorded value is stale),
    # against a single store of the other map
    for kind in KINDS:
        for s in (16, 32, 64):
            for dd in (1, -1, 0):
                d = r.choice([1, 2])
                s0 = s if dd else r.choice([x for x in SIZES if x != s])
                yield {"ptr": kind, "stores1": [[d, r.choice(SIZES), rnd_value(r, 64, 0)]],
                       "stores2": [[d + dd, s0, rnd_value(r, s0, 1)], [d, s, rnd_value(r, s, 2)]]}
    for _ in range(n):
        kind = r.choice(KINDS)
        s1, s2 = r.choice(SIZES), r.choice(SIZES)
        d1 = r.choice([0, 0, 1, 2, 4])
        d2 = r.choice([d1, d1, d1, d1 + 1, d1 + 2, max(0, d1 - 1), d1 + s1 // 8, max(0, d1 + s1 // 8 - 1)])
        if d2 + s2 // 8 > WINDOW[1] - 1:
            d2 = 0
        sp = {"ptr": kind, "stores1": rnd_stores(r, s1, d1, r.random() < 0.3), "stores2": rnd_stores(r, s2, d2, r.random() < 0.3)}
        if r.random() < 0.3:
            sp["reg1"] = ["c", r.getrandbits(32)]
        if r.random() < 0.3:
            sp["reg2"] = [r.choice(["c", "d"]), r.getrandbits(32)]
        yield sp


def swap(spec):
    out = dict(spec)
    out["stores1"], out["stores2"] = spec["stores2"], spec["stores1"]
    out.pop("reg1", None), out.pop("reg2", None)
    if "reg2" in spec:
        out["reg1"] = spec["reg2"]
    if "reg1" in spec:
        out["reg2"] = spec["reg1"]
    return out


def self_consistent(spec):
    """the oracle reads each map's own bytes from the map: only maps that read back what their own stores,
    replayed on bytes, leave at every candidate address are judged (a map whose own read-back is off is a
    matter of the mapper properties, not of merge)"""
    st = state(spec)
    _, _, bases = pointer(spec["ptr"])
    for key, rk in (("stores1", "reg1"), ("stores2", "reg2")):
        m = build_map(spec["ptr"], spec[key], spec.get(rk))
        # byte store replayed independently; values are evaluated on the state *before* the map (inputs)
        for b in bases:
            ref = {}
            for disp, size, v in spec[key]:
                c = cands(st, value(v, size))
                if c is None or len(c) != 1:
                    return False
                x = next(iter(c))
                for i in range(size // 8):
                    ref[disp + i] = (x >> (8 * i)) & 0xff
            for k, want in ref.items():
                if cands(st, m[mem(b, 8, disp=k)]) != {want}:
                    return False
    return True


def explore(ck, r, n):
    """run the pass; reports through ck"""
    for base_spec in specs(r, n):
        base_spec.update(rnd_state(r))
        for order, spec in (("as-given", base_spec), ("swapped", swap(base_spec))):
            sh, rel = shape(spec["stores1"], spec["stores2"])
            multi = len(spec["stores1"]) + len(spec["stores2"]) > 2
            try:
                ok = self_consistent(spec)
            except Exception:
                ok = False
            if not ok:
                ck.count("asym.map-own-read-back-differs-not-judged")
                continue
            # widening on and off always; one of the complexity thresholds at random
            for widening, thr in ((False, 0), (True, 0), r.choice(SETTINGS[2:])):
                ck.case(("asym", json.dumps(spec, sort_keys=True), widening, thr), nontrivial=True)
                ck.count("asym.ptr=%s" % spec["ptr"])
                ck.count("asym.%s.%s" % (sh, rel))
                ck.count("asym.widening=%s" % widening)
                if multi:
                    ck.count("asym.a-map-with-two-stores")
                try:
                    fails, stats = judge(spec, widening, thr)
                except Exception as ex:
                    ck.count("asym.merge-raises-%s" % type(ex).__name__)
                    continue
                for k, v in stats.items():
                    ck.count("asym.bytes.%s" % k, v)
                for f in fails[:1]:
                    sig = "C19:merge:store-sizes:%s:ptr=%s:%s" % (f["aspect"], spec["ptr"], sh)
                    if sh != "a-map-overlaps-its-own-stores":
                        sig += ":%s%s" % (rel, ":two-stores" if multi else "")
                    if f["aspect"] == "byte-not-covered":
                        what = "merge(m1,m2)[%s] = %s allows %s, map %d leaves %s there (m1 stores %s, m2 stores %s through %s pointer, widening=%s)" % (
                            f["byte"], f["merged"], [hex(x) for x in f["got"]], f["map"], [hex(x) for x in f["want"]],
                            [(d, s) for d, s, _ in spec["stores1"]], [(d, s) for d, s, _ in spec["stores2"]], spec["ptr"], widening)
                    else:
                        what = "merge(m1,m2)[%s]: %s (got %s, expected %s; m1 stores %s, m2 stores %s through %s pointer, widening=%s)" % (
                            f["byte"], f["aspect"], f["got"], f["want"], [(d, s) for d, s, _ in spec["stores1"]],
                            [(d, s) for d, s, _ in spec["stores2"]], spec["ptr"], widening)
                    ck.report(sig, what, "oracle", "Amoco.Merge.Props.merge_entry_covers (memory location: oracle only)",
                              case={"spec": spec, "widening": widening, "threshold": thr, "failures": fails[:6],
                                    "replay": "./check C19 --replay <this file>"},
                              real=f.get("merged"), expected=f["want"])
        ck.sample({"store-sizes": {k: base_spec[k] for k in ("ptr", "stores1", "stores2")}, "shape": list(shape(base_spec["stores1"], base_spec["stores2"]))}, limit=9)


def main(path):
    rec = json.load(open(path))
    case = rec["case"]
    fails, stats = judge(case["spec"], case["widening"], case["threshold"])
    m1, m2 = build(case["spec"])
    print("m1:\n%s\nm2:\n%s\nmerge:\n%s" % (m1, m2, merge(m1, m2, widening=case["widening"])))
    for f in fails:
        print("FAIL", f)
    print("failures: %d  %s" % (len(fails), stats))
    return 1 if fails else 0


if __name__ == "__main__":
    sys.exit(main(sys.argv[1]))
