"""
fmt_real.py — canonical dumps of what the real amoco format classes report (C14, C20).

Everything here drives /repo's code in-process and returns plain JSON-like values with the same
shape as the answers of the Lean driver ops "fmt.*":
  byte strings → lower-case hex, records → dict name→int, exceptions → {"exn": ClassName}.
"""
import os, sys, io, traceback, signal, time
from common import *

fresh_amoco()
from amoco.system.core import DataIO, read_program
from amoco.system import elf as ELF
from amoco.system.structs import Consts, StructureError
from amoco.system.structs.HEX import HEX, HEXline, HEXError
from amoco.system.structs.SREC import SREC, SRECline, SRECError


def exn_name(e):
    n = type(e).__name__
    if n == "error" and type(e).__module__ == "struct":
        return "struct.error"
    return n


def raising_site(e):
    """(file:function) of the innermost amoco frame of the traceback."""
    tb = traceback.extract_tb(e.__traceback__)
    fr = [f for f in tb if "/amoco/" in f.filename]
    if not fr:
        return "?"
    return "%s:%s" % (os.path.basename(fr[-1].filename), fr[-1].name)


class Timeout(BaseException):
    pass


def with_timeout(seconds, fn, *a):
    def h(*_):
        raise Timeout()
    old = signal.signal(signal.SIGALRM, h)
    signal.setitimer(signal.ITIMER_REAL, seconds)
    try:
        return fn(*a)
    finally:
        signal.setitimer(signal.ITIMER_REAL, 0)
        signal.signal(signal.SIGALRM, old)


# ---------------------------------------------------------------------------------------
# HEX / SREC
# ---------------------------------------------------------------------------------------

def hexline_dump(l):
    ext = None
    if l.HEXcode == 2:
        ext = ["base", l.base]
    elif l.HEXcode == 3:
        ext = ["csip", l.cs, l.ip]
    elif l.HEXcode == 4:
        ext = ["ela", l.ela]
    elif l.HEXcode == 5:
        ext = ["eip", l.eip]
    return {"count": l.count, "address": l.address, "code": l.HEXcode, "data": bytes(l.data).hex(),
            "cksum": l.cksum, "ext": ext}


def real_hexline(line):
    try:
        return {"ok": hexline_dump(HEXline(line))}
    except Exception as e:
        return {"exn": exn_name(e), "site": raising_site(e)}


def srecline_dump(l):
    return {"type": l.SRECtype, "count": l.count, "address": l.address, "data": bytes(l.data).hex(), "cksum": l.cksum}


def real_srecline(line):
    try:
        return {"ok": srecline_dump(SRECline(line))}
    except Exception as e:
        return {"exn": exn_name(e), "site": raising_site(e)}


class _NoMap(object):
    """stand-in for MemoryMap while HEX.decode runs: decode() only needs write(); the real map's
    zone dump materialises every gap between record addresses (gigabytes for a linear base record)."""
    def __init__(self):
        self._zones = {}

    def write(self, k, v):
        pass


def hexfile_dump(h):
    # the (address, data) list HEX.decode builds (its own address composition, unchanged)
    import amoco.system.structs.HEX as HM
    keep = HM.MemoryMap
    HM.MemoryMap = _NoMap
    try:
        h.decode()
    finally:
        HM.MemoryMap = keep
    lines = getattr(h, "_HEX__lines")
    ent = h._entrypoint
    return {"lines": [hexline_dump(l) for l in h.L],
            "entry": 0 if ent == 0 else [ent[0], ent[1]],
            "eip": h.__dict__.get("entrypoint", None),
            "decode": [[a, bytes(d).hex()] for (a, d) in lines]}


def real_hexfile(data):
    try:
        return {"ok": hexfile_dump(HEX(DataIO(data)))}
    except Exception as e:
        return {"exn": exn_name(e), "site": raising_site(e)}


def srecfile_dump(s):
    mem = [[l.address, bytes(l.data).hex()] for l in s.L if l.SRECtype in (1, 2, 3)]
    name = s.__dict__.get("name", None)
    return {"lines": [srecline_dump(l) for l in s.L], "name": None if name is None else bytes(name).hex(),
            "entry": s.__dict__.get("entrypoint", None), "decode": mem}


def real_srecfile(data):
    try:
        return {"ok": srecfile_dump(SREC(DataIO(data)))}
    except Exception as e:
        return {"exn": exn_name(e), "site": raising_site(e)}


# ---------------------------------------------------------------------------------------
# struct reflection (T tie)
# ---------------------------------------------------------------------------------------

def field_dump(f):
    import struct as _s
    tn = f.typename
    try:
        sz = _s.calcsize(tn)
    except Exception:
        sz = None
    cnt = f.count if isinstance(f.count, int) else repr(f.count)
    return [f.name, sz, cnt, tn, f.order]


def reflect_structs():
    """patched field lists of the real struct instances for every (order, x64) the code supports."""
    out = {}
    out["IDENT"] = {"fields": [field_dump(f) for f in ELF.IDENT().fields]}
    for x64 in (False, True):
        for order in (None, ">"):
            key = ("64" if x64 else "32") + ("be" if order else "le")
            # Ehdr patches itself while unpacking: feed it a header of that class / order
            hdr = b"\x7fELF" + bytes([2 if x64 else 1, 2 if order else 1, 1, 0]) + b"\0" * 8 + b"\0" * 48
            e = ELF.Ehdr(DataIO(hdr))
            out["Ehdr" + key] = {"fields": [field_dump(f) for f in e.fields[1:]]}
            for nm, cls in (("Phdr", ELF.Phdr), ("Shdr", ELF.Shdr), ("Sym", ELF.Sym), ("Rel", ELF.Rel),
                            ("Rela", ELF.Rela), ("Dyn", ELF.Dyn)):
                o = cls(None, 0, order, x64)
                out[nm + key] = {"fields": [field_dump(f) for f in o.fields]}
    return out


def elf_env():
    return {"pt": sorted(int(k) for k in Consts.All["p_type"].keys()),
            "sht": sorted(int(k) for k in Consts.All["sh_type"].keys())}


# ---------------------------------------------------------------------------------------
# ELF
# ---------------------------------------------------------------------------------------

def rec_dump(s, skip=("unused",)):
    d = {}
    for f in s.fields:
        if f.name in skip:
            continue
        v = getattr(s._v, f.name)
        if isinstance(v, bytes):
            v = int.from_bytes(v, "big")
        elif isinstance(v, tuple):
            v = int.from_bytes(bytes((x & 0xff) for x in v), "big")
        d[f.name] = v
    return d


def fnv(b):
    h = 2166136261
    for x in b:
        h = ((h ^ x) * 16777619) % 4294967296
    return h


def funcval(v):
    if isinstance(v, tuple):
        return [v[0].encode("utf-8", "surrogateescape").hex(), v[1], v[2], v[3]]
    return v.encode("utf-8", "surrogateescape").hex()


def elf_dump(p, data, addrs):
    out = {}
    ident = rec_dump(p.Ehdr.e_ident)
    eh = {}
    for f in p.Ehdr.fields[1:]:
        eh[f.name] = getattr(p.Ehdr._v, f.name)
    t = {"ident": ident, "ehdr": eh,
         "x64": p.Ehdr.e_ident.EI_CLASS == 2, "be": p.Ehdr.e_ident.EI_DATA == 2,
         "dynamic": bool(p.dynamic), "basemap": p.basemap,
         "phdr": [rec_dump(x) for x in p.Phdr],
         "shdr": [{"hdr": rec_dump(x), "name": x.name.encode("utf-8").hex()} for x in p.Shdr]}
    out["tables"] = t
    out["functions"] = sorted([[k, funcval(v)] for k, v in p.functions.items()])
    out["variables"] = sorted([[k, funcval(v)] for k, v in p.variables.items()])
    out["entrypoints"] = list(p.entrypoints)
    q = []
    for a in addrs:
        try:
            s, off, base = p.getinfo(a)
            if s is None:
                w = None
            elif isinstance(s, ELF.Phdr):
                w = ["seg", [i for i, x in enumerate(p.Phdr) if x is s][0]]
            else:
                w = ["sec", [i for i, x in enumerate(p.Shdr) if x is s][0]]
        except Exception as e:
            w, off, base = {"exn": exn_name(e)}, 0, 0
        try:
            fo = p.getfileoffset(a)
        except Exception as e:
            fo = {"exn": exn_name(e)}
        q.append([a, w, off, base, fo])
    out["queries"] = q
    segs = []
    for s in p.Phdr:
        if s.p_memsz > 16777216 or s.p_filesz > 16777216:
            segs.append("big")
            continue
        try:
            b = p.readsegment(s)
            segs.append([len(b), fnv(b)])
        except Exception as e:
            segs.append({"exn": exn_name(e)})
    out["segments"] = segs
    return out


def real_elf(data, addrs=(), timeout=20.0):
    """returns {"init": "ok"|ExceptionClass, "site":..., dump...}"""
    try:
        p = with_timeout(timeout, ELF.Elf, DataIO(data))
    except Timeout:
        return {"init": "timeout"}
    except Exception as e:
        return {"init": exn_name(e), "site": raising_site(e)}
    out = {"init": "ok"}
    out.update(elf_dump(p, data, addrs))
    return out


# ---------------------------------------------------------------------------------------
# read_program
# ---------------------------------------------------------------------------------------

def real_read_program(data, timeout=10.0):
    """outcome class name, or {"exn":…, "site":…}, plus wall time"""
    t0 = time.time()
    try:
        p = with_timeout(timeout, read_program, data)
        r = {"ok": type(p).__name__}
    except Timeout as e:
        tb = traceback.extract_tb(e.__traceback__)
        fr = [f for f in tb if "/amoco/" in f.filename]
        r = {"exn": "timeout", "site": ("%s:%s" % (os.path.basename(fr[-1].filename), fr[-1].name)) if fr else "?"}
    except Exception as e:
        r = {"exn": exn_name(e), "site": raising_site(e)}
    r["t"] = time.time() - t0
    return r


# ---------------------------------------------------------------------------------------
# PE / Mach-O (header level)
# ---------------------------------------------------------------------------------------

def plain(s, names):
    d = {}
    for n in names:
        v = getattr(s, n)
        if isinstance(v, bytes):
            v = v.hex()
        d[n] = v
    return d


def real_pe(data, timeout=20.0):
    from amoco.system import pe as PE
    try:
        p = with_timeout(timeout, PE.PE, DataIO(data))
    except Timeout:
        return {"init": "timeout"}
    except Exception as e:
        return {"init": exn_name(e), "site": raising_site(e)}
    nt = {f.name: getattr(p.NT, f.name) for f in p.NT.fields}
    opt = {f.name: getattr(p.Opt, f.name) for f in p.Opt.fields}
    names = ("ExportTable", "ImportTable", "ResourceTable", "ExceptionTable", "CertificateTable", "BaseRelocationTable", "Debug",
             "Architecture", "GlobalPtr", "TLSTable", "LoadConfigTable", "BoundImport", "IAT", "DelayImportDescriptor",
             "CLRRuntimeHeader", "Reserved")
    dirs = [[p.Opt.DataDirectories[n].RVA, p.Opt.DataDirectories[n].Size] for n in names if n in p.Opt.DataDirectories]
    secs = []
    for s in p.sections:
        d = {f.name: getattr(s, f.name) for f in s.fields}
        d["Name"] = bytes(d["Name"]).hex()
        secs.append(d)
    return {"init": "ok", "e_lfanew": p.DOS.e_lfanew, "NT": nt, "Opt": opt, "dirs": dirs, "sections": secs,
            "entry": p.entrypoints[0]}


def real_macho(data, timeout=20.0):
    from amoco.system import macho as M
    try:
        p = with_timeout(timeout, M.MachO, DataIO(data))
    except Timeout:
        return {"init": "timeout"}
    except Exception as e:
        return {"init": exn_name(e), "site": raising_site(e)}
    hdr = {f.name: getattr(p.header, f.name) for f in p.header.fields}
    cmds = []
    for c in p.cmds:
        d = {"cmd": c.cmd, "cmdsize": c.cmdsize}
        if c.cmd in (0x1, 0x19):
            for n in ("segname", "vmaddr", "vmsize", "fileoffset", "filesize", "maxprot", "initprot", "nsects", "flags"):
                v = getattr(c, n)
                d[n] = bytes(v).hex() if isinstance(v, bytes) else v
            d["sections"] = [{"sectname": bytes(s.sectname).hex(), "segname": bytes(s.segname).hex(), "addr": s.addr,
                              "size_": s.size_, "offset": s.offset, "align": s.align} for s in c.sections]
        cmds.append(d)
    return {"init": "ok", "header": hdr, "cmds": cmds}
