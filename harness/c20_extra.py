"""
C20 helpers: line-oriented formats (Intel HEX, Motorola S-records).

 * valid images of many sizes (hundreds of bytes to ~100 KB, LF / CRLF, several record lengths, all data record
   widths): a file valid by construction must be identified as its own format whatever its size — the formats without
   a magic (COFF) are tried before HEX / SREC and must reject text by their structure;
 * structure-aware corruptions of a valid stream, the analogue of fmt_gen.structure_corruptions for text records:
   every character position of every record set to every value of the alphabet of its field (start code, record type
   digit 0-9, hex digits of count / address / data / checksum, plus a few characters outside the alphabet), and the
   count / length / type fields set to boundary values with the checksum recomputed (so that the record is consistent
   but for the one field), one at a time.

Nothing here depends on amoco.
"""

SREC_ADDR = {0: 2, 1: 2, 2: 3, 3: 4, 5: 2, 6: 3, 7: 4, 8: 3, 9: 2}


def hex_cksum(bs):
    return (-sum(bs)) & 0xff


def srec_cksum(bs):
    return (sum(bs) & 0xff) ^ 0xff


def hex_line(code, address, data, upper=True):
    body = bytes([len(data) & 0xff, (address >> 8) & 0xff, address & 0xff, code & 0xff]) + bytes(data)
    s = (body + bytes([hex_cksum(body)])).hex()
    return b":" + (s.upper() if upper else s).encode()


def srec_line(t, address, data, upper=True):
    ab = SREC_ADDR[t]
    body = bytes([ab + len(data) + 1]) + int(address).to_bytes(ab, "big") + bytes(data)
    s = (body + bytes([srec_cksum(body)])).hex()
    return b"S%d" % t + (s.upper() if upper else s).encode()


def ihex_image(r, ndata, per, eol, base=0, upper=True, start=False, final_eol=True):
    """a well-formed Intel-HEX image of `ndata` contiguous data bytes from `base`, `per` bytes per record"""
    data = r.randbytes(ndata)
    lines = []
    hi = None
    a = base
    i = 0
    while i < ndata:
        if (a >> 16) != hi and ((a >> 16) != 0 or hi is not None):
            hi = a >> 16
            lines.append(hex_line(4, 0, bytes([(hi >> 8) & 0xff, hi & 0xff]), upper))
        elif hi is None:
            hi = 0
        n = min(per, ndata - i, 0x10000 - (a & 0xffff))
        lines.append(hex_line(0, a & 0xffff, data[i:i + n], upper))
        i += n
        a += n
    if start:
        lines.append(hex_line(5, 0, int(base & 0xffffffff).to_bytes(4, "big"), upper))
    lines.append(hex_line(1, 0, b"", upper))
    return eol.join(lines) + (eol if final_eol else b"")


def srec_image(r, ndata, per, eol, dt=1, base=0, upper=True, header=b"HDR", count=True, final_eol=True):
    """a well-formed S-record image (S0, data records of type `dt`, optional S5/S6 count, start record)"""
    data = r.randbytes(ndata)
    lines = []
    if header is not None:
        lines.append(srec_line(0, 0, header, upper))
    nrec = 0
    i = 0
    while i < ndata:
        n = min(per, ndata - i)
        lines.append(srec_line(dt, base + i, data[i:i + n], upper))
        i += n
        nrec += 1
    if count:
        lines.append(srec_line(5 if nrec < 0x10000 else 6, nrec, b"", upper))
    lines.append(srec_line({1: 9, 2: 8, 3: 7}[dt], base, b"", upper))
    return eol.join(lines) + (eol if final_eol else b"")


def image_sizes(r, n, lo=64, hi=38000, sweeps=3, sweep_len=24):
    """`n` data sizes: log-uniform between lo and hi, plus runs of consecutive sizes (every residue of the file size
    modulo small strides is visited), plus the powers of two and their neighbours"""
    import math
    out = []
    for k in range(7, 16):
        for d in (-1, 0, 1):
            if lo <= (1 << k) + d <= hi:
                out.append((1 << k) + d)
    for _ in range(sweeps):
        s = int(math.exp(r.uniform(math.log(max(lo, 4000)), math.log(hi - sweep_len))))
        out += list(range(s, s + sweep_len))
    while len(out) < n:
        out.append(int(math.exp(r.uniform(math.log(lo), math.log(hi)))))
    r.shuffle(out)
    return out[:max(n, 0)] if n < len(out) else out


def valid_images(r, n, hi=38000):
    """yield (kind, bytes, expected class) — `n` valid images of each of the two formats"""
    for nd in image_sizes(r, n, hi=hi):
        eol = r.choice([b"\n", b"\r\n"])
        per = r.choice([16, 16, 16, 32, 8, 255, r.randint(1, 255)])
        base = r.choice([0, 0, 0x8000, 0x08000000, r.getrandbits(32) & 0xffff0000])
        yield ("hex-image", ihex_image(r, nd, per, eol, base=base, upper=r.random() < 0.85, start=r.random() < 0.3,
                                       final_eol=r.random() < 0.9), "HEX")
    for nd in image_sizes(r, n, hi=hi):
        eol = r.choice([b"\n", b"\r\n"])
        dt = r.choice([1, 1, 2, 3])
        per = r.choice([16, 16, 32, 28, 8, 250 - SREC_ADDR[dt], r.randint(1, 250 - SREC_ADDR[dt])])
        while (1 << (8 * SREC_ADDR[dt])) <= nd + 0x1000 and dt < 3:
            dt += 1                      # the image must fit in the address space of the record type
        room = max(1, (1 << (8 * SREC_ADDR[dt])) - nd)
        base = r.choice([0, 0, 0x1000, r.randrange(room)])
        base = base if base < room else 0
        yield ("srec-image", srec_image(r, nd, per, eol, dt=dt, base=base, upper=r.random() < 0.85,
                                        header=r.choice([None, b"HDR", b"image.bin", b""]), count=r.random() < 0.6,
                                        final_eol=r.random() < 0.9), "SREC")


# ---------------------------------------------------------------------------------------
# structure-aware corruptions of text records
# ---------------------------------------------------------------------------------------

HEXDIGITS = b"0123456789ABCDEFabcdef"
OUTSIDE = b"Gg xX+-_.:S\x00\xff\n"
DIGITS = b"0123456789"


def hex_fields(line):
    """[(label, start, end)] of an Intel-HEX record ':LLAAAATT<data>CC'"""
    n = len(line)
    F = [("start", 0, 1), ("count", 1, 3), ("address", 3, 7), ("type", 7, 9)]
    if n > 11:
        F.append(("data", 9, n - 2))
    F.append(("cksum", n - 2, n))
    return F


def srec_fields(line):
    """[(label, start, end)] of an S-record 'StLL<address><data>CC'"""
    n = len(line)
    t = line[1:2]
    ab = 2 * SREC_ADDR.get(int(t) if t.isdigit() else 1, 2)
    F = [("start", 0, 1), ("type", 1, 2), ("count", 2, 4), ("address", 4, 4 + ab)]
    if n - 2 > 4 + ab:
        F.append(("data", 4 + ab, n - 2))
    F.append(("cksum", n - 2, n))
    return F


def refix(line, fmt):
    """recompute the checksum characters over whatever hex the record holds now (None when it is no longer hex)"""
    try:
        body = bytes.fromhex(line[1 if fmt == "hex" else 2:-2].decode("latin1"))
    except ValueError:
        return None
    ck = hex_cksum(body) if fmt == "hex" else srec_cksum(body)
    return line[:-2] + b"%02X" % ck


def record_mutations(line, fmt, data_positions=None):
    """yield (label, description, new line): every single-character substitution over the alphabet of the field the
    character belongs to, then field-level boundary values with a consistent checksum"""
    fields = hex_fields(line) if fmt == "hex" else srec_fields(line)
    for lab, s, e in fields:
        pos = list(range(s, e))
        if lab in ("data", "address") and data_positions is not None and len(pos) > data_positions:
            pos = pos[:data_positions // 2] + pos[-(data_positions - data_positions // 2):]
        for p in pos:
            if lab == "start":
                alpha = b":S" + DIGITS[:2] + OUTSIDE
            elif lab == "type" and fmt == "srec":
                alpha = DIGITS + b"AFaf" + OUTSIDE
            else:
                alpha = HEXDIGITS + OUTSIDE
            for c in alpha:
                if c == line[p]:
                    continue
                yield (lab, "char %d=%r" % (p, bytes([c])), line[:p] + bytes([c]) + line[p + 1:])
    # field level, checksum recomputed: the record differs from a valid one in that field only
    def put(s, e, txt):
        return refix(line[:s] + txt + line[e:], fmt)
    for lab, s, e in fields:
        if lab == "count":
            old = int(line[s:e], 16)
            for v in sorted(set([0, 1, 2, 3, 4, 5, old - 2, old - 1, old + 1, old + 2, 0x7f, 0x80, 0xfe, 0xff])):
                if 0 <= v <= 0xff and v != old:
                    m = put(s, e, b"%02X" % v)
                    if m:
                        yield ("count*", "count=%02X cksum fixed" % v, m)
        elif lab == "type":
            vals = [b"%02X" % v for v in list(range(0, 8)) + [0x0a, 0x10, 0x7f, 0x80, 0xff]] if fmt == "hex" else [b"%d" % v for v in range(10)]
            for v in vals:
                if v != line[s:e]:
                    m = put(s, e, v)
                    if m:
                        yield ("type*", "type=%s cksum fixed" % v.decode(), m)
        elif lab == "address":
            for v in (b"", line[s:e] + b"0", line[s:e] + b"00", line[s:e][:-1], line[s:e][:-2], b"0" * (e - s), b"F" * (e - s)):
                if v != line[s:e]:
                    m = put(s, e, v) if (len(line) - (e - s) + len(v)) % 2 == (0 if fmt == "srec" else 1) else None
                    yield ("address*", "address=%r%s" % (v, " cksum fixed" if m else ""), m or (line[:s] + v + line[e:]))
    # whole-record shapes
    for k in range(0, min(len(line), 12)):
        yield ("trunc", "cut at %d" % k, line[:k])
    yield ("trunc", "cut last", line[:-1])
    yield ("trunc", "cut cksum", line[:-2])
    for t in (b"0", b"00", b" ", b"\x00", b"Z"):
        yield ("tail", "tail %r" % t, line + t)


def covering_streams(r):
    """small valid streams that together hold every record type of the two formats: [(fmt, [lines], eol)]"""
    rb = lambda n: r.randbytes(n)
    hx = [hex_line(2, 0, b"\x10\x00"), hex_line(0, r.getrandbits(16), rb(4)), hex_line(4, 0, rb(2)),
          hex_line(0, r.getrandbits(16), rb(16)), hex_line(0, r.getrandbits(16), b""), hex_line(3, 0, rb(4)),
          hex_line(5, 0, rb(4)), hex_line(1, 0, b"")]
    out = [("hex", hx, r.choice([b"\n", b"\r\n"]))]
    for dt in (1, 2, 3):
        st = {1: 9, 2: 8, 3: 7}[dt]
        sr = [srec_line(0, 0, b"HDR"), srec_line(dt, r.getrandbits(8 * SREC_ADDR[dt]), rb(4)),
              srec_line(dt, r.getrandbits(8 * SREC_ADDR[dt]), rb(16 if dt == 1 else 2)),
              srec_line(dt, r.getrandbits(8 * SREC_ADDR[dt]), b""),
              srec_line(5 if dt != 3 else 6, 3, b""), srec_line(st, r.getrandbits(8 * SREC_ADDR[st]), b"")]
        out.append(("srec", sr, r.choice([b"\n", b"\r\n"])))
    return out


def line_corruptions(r, quota=None, data_positions=8):
    """yield (kind, bytes): each record of each covering stream, one mutation at a time, embedded in its stream; and the
    mutated record alone (the first line decides which constructor looks at the rest).
    quota: at most that many mutations per (record, label), sampled with r; None = all"""
    for fmt, lines, eol in covering_streams(r):
        for i, l in enumerate(lines):
            by = {}
            for lab, desc, m in record_mutations(l, fmt, data_positions):
                by.setdefault(lab, []).append((desc, m))
            for lab, ms in by.items():
                # the small fields (start code, type, field-level boundary values, shapes) are always exhaustive
                if quota is not None and len(ms) > quota and lab in ("count", "address", "data", "cksum"):
                    ms = r.sample(ms, quota)
                for desc, m in ms:
                    ls = lines[:i] + [m] + lines[i + 1:]
                    yield ("line:%s:%s" % (fmt, lab), eol.join(ls) + eol)
                    if i > 0:
                        yield ("line1:%s:%s" % (fmt, lab), m + eol)
