"""
C10 — Symbolic results do not depend on analysis history.

Theorems (lean/Amoco/Props/C10.lean): non-interference over the abstract machine of process-global
slots — an observation (building or evaluating a map) that reads the world only through some slots
is unchanged by any history whose operations do not assign those slots; instantiated on the table of
*measured* write footprints (history_independence_clean / _partial).
Tie (translator-by-reflection, every run): for every ISA module with semantics the harness measures,
per phase (decode / execute / evaluate) and mnemonic, which process-global objects (every expression
object reachable from the cpu/env module at import time: registers, slices, composites …, and the
`internals` dictionaries) are modified by running the real code on spec-directed instructions; the
table goes to the compiled Lean checker `allClean`/`dirty`.  Every dirty row breaks the hypothesis of
the theorem; the harness then searches for an observable consequence: a block whose map, built or
evaluated after the dirty operation, yields a different result than before (failing history), and
reports the row either way.
Oracle (always run): eval(map(B) built after H) == eval(map(B) built first) and eval(old map) unchanged
by H, for random histories H mixing decode / execute / evaluate calls of the same and other ISAs.
"""
import sys, copy
from common import *
import isa
from amoco.cas.expressions import exp, cst, reg, slc, comp, mem, ptr, op as eop, uop, tst
from amoco.cas.mapper import mapper


def global_objects(I):
    """process-global expression objects of an ISA: everything reachable from the cpu module namespace"""
    seen = {}
    order = []

    def visit(o, name):
        if isinstance(o, exp):
            if id(o) in seen:
                return
            seen[id(o)] = name
            order.append((name, o))
            for a in ("x", "l", "r", "a", "base", "tst"):
                try:
                    visit(getattr(o, a), name + "." + a)
                except AttributeError:
                    pass
            if isinstance(o, comp):
                try:
                    for k, p in o.parts.items():
                        visit(p, name + ".part")
                except Exception:
                    pass
        elif isinstance(o, (list, tuple)):
            for k, x in enumerate(o[:300]):
                visit(x, "%s[%d]" % (name, k))
        elif isinstance(o, dict):
            for k, x in list(o.items())[:300]:
                visit(x, "%s[%r]" % (name, k))
                visit(k, "%s.key" % name)
    for k, v in sorted(vars(I.cpu).items()):
        if k.startswith("__"):
            continue
        visit(v, k)
    internals = [(k, v) for k, v in sorted(vars(I.cpu).items()) if k == "internals" and isinstance(v, dict)]
    return order, internals


def containers_of(I):
    """mutable containers (list / dict / set) held at module level or as class attributes by the modules
    of the ISA's architecture package and by amoco.cas.* / amoco.arch.core: caches, memo tables,
    default lists … anything of that kind that changes during analysis is process-global state too"""
    import sys, types
    pkg = I.modname.rsplit(".", 1)[0]
    mods = [m for n, m in sorted(sys.modules.items()) if m is not None and
            (n.startswith(pkg) or n.startswith("amoco.cas.") or n in ("amoco.arch.core", "amoco.system.memory", "amoco.system.core"))]
    out, seen = [], set()
    def add(label, o):
        if isinstance(o, (list, dict, set)) and id(o) not in seen:
            seen.add(id(o))
            out.append((label, o))
    for m in mods:
        for k, v in sorted(vars(m).items()):
            if k.startswith("__") or k in ("ISPECS", "internals", "uarch"):
                continue
            add("%s.%s" % (m.__name__, k), v)
            if isinstance(v, type) and getattr(v, "__module__", None) == m.__name__:
                for a, w in sorted(vars(v).items()):
                    if not a.startswith("__"):
                        add("%s.%s.%s" % (m.__name__, k, a), w)
                    if isinstance(w, types.FunctionType) and w.__defaults__:
                        for j, d_ in enumerate(w.__defaults__):
                            add("%s.%s.%s.<default %d>" % (m.__name__, k, a, j), d_)
            if isinstance(v, types.FunctionType) and v.__defaults__:
                for j, w in enumerate(v.__defaults__):
                    add("%s.%s.<default %d>" % (m.__name__, k, j), w)
    return out


def cfp(o):
    """shallow fingerprint of a container"""
    try:
        if isinstance(o, dict):
            return ("d", len(o), tuple((id(k), id(v)) for k, v in list(o.items())[:64]))
        if isinstance(o, list):
            return ("l", len(o), tuple(id(x) for x in o[:64]))
        return ("s", len(o))
    except Exception:
        return ("?",)


_ATTRS = ("sf", "size", "v", "disp", "pos", "ref", "endian", "x", "l", "r", "a", "base", "seg", "tst")
_MISSING = "<none>"


def _get(o, a):
    try:
        return object.__getattribute__(o, a)      # slots and instance attributes alike; no amoco __getattr__ magic
    except Exception:
        return _MISSING


_SCALAR = (int, str, bool, type(None))
_GETTERS = {}


def _getter(cls):
    g = _GETTERS.get(cls)
    if g is None:
        import operator
        names = []
        for k in cls.__mro__:
            for a in getattr(k, "__slots__", ()):
                if a in _ATTRS and a not in names:
                    names.append(a)
        g = _GETTERS[cls] = (operator.attrgetter(*names) if len(names) > 1 else None, tuple(names))
    return g


def ofp(o):
    """shallow state of a global expression object: the scalar attributes that define what it means and
    the identity of its children (a hook that rewrites the displacement of a shared memory operand, or
    re-points a shared slice, changes it)"""
    g, names = _getter(type(o))
    try:
        vals = g(o)
    except Exception:
        vals = tuple(_get(o, a) for a in names)
    return tuple([x if type(x) in _SCALAR else id(x) for x in vals])


def oattrs(o):
    return {a: _get(o, a) for a in _ATTRS if _get(o, a) is not _MISSING}


class World(object):
    def __init__(self, isas):
        self.objs = {}       # isa -> [(name, obj)]
        self.ints = {}
        self.conts = {}
        for n, I in isas.items():
            self.objs[n], self.ints[n] = global_objects(I)
            self.conts[n] = containers_of(I)
        self.base_cont = {n: [(cfp(o), (dict(o) if isinstance(o, dict) else (list(o) if isinstance(o, list) else set(o)))) for _, o in lst] for n, lst in self.conts.items()}
        # ISA modules sharing objects (mips/mipsLE, bpf/eBPF, x86/x64 …) are always handled together
        ids = {n: set(id(o) for _, o in lst) for n, lst in self.objs.items()}
        self.group = {n: set(m for m in ids if ids[n] & ids[m]) for n in ids}
        self.base = self.snap()
        self.base_attr = {n: [oattrs(o) for _, o in lst] for n, lst in self.objs.items()}
        self.base_int = {n: [(k, dict(v)) for k, v in self.ints[n]] for n in self.ints}

    def grp(self, only):
        if only is None:
            return None
        g = set()
        for n in only:
            g |= self.group.get(n, {n})
        return g

    def snap(self, only=None):
        only = self.grp(only)
        d = {n: [ofp(o) for _, o in lst] for n, lst in self.objs.items() if only is None or n in only}
        d["#containers"] = {n: [cfp(o) for _, o in lst] for n, lst in self.conts.items() if only is None or n in only}
        return d

    def diff(self, before):
        """list of (isa, slot index, slot name, new sf) for every changed global slot"""
        out = []
        for n, lst in self.objs.items():
            if n not in before or n == "#containers":
                continue
            b = before[n]
            for k, (name, o) in enumerate(lst):
                if ofp(o) != b[k]:
                    out.append((n, k, name, bool(o.sf)))
        for n in self.ints:
            for (k, v), (_, bv) in zip(self.ints[n], self.base_int[n]):
                if v != bv:
                    out.append((n, 100000, "internals", True))
        for n, fps in before.get("#containers", {}).items():
            for j, ((label, o), fp) in enumerate(zip(self.conts[n], fps)):
                if cfp(o) != fp:
                    out.append((n, 200000 + j, "container " + label, True))
        return out

    def restore(self, only=None):
        only = self.grp(only)
        for n, lst in self.objs.items():
            if only is not None and n not in only:
                continue
            for (name, o), fp, attrs in zip(lst, self.base[n], self.base_attr[n]):
                if ofp(o) != fp:
                    for a, x in attrs.items():
                        try:
                            if _get(o, a) is not x:
                                object.__setattr__(o, a, x)
                        except Exception:
                            pass
        for n in self.ints:
            for (k, v), (_, bv) in zip(self.ints[n], self.base_int[n]):
                if v != bv:
                    v.clear(); v.update(bv)
        for n, lst in self.conts.items():
            if only is not None and n not in only:
                continue
            for (label, o), (fp, saved) in zip(lst, self.base_cont[n]):
                if cfp(o) != fp:
                    if isinstance(o, dict):
                        o.clear(); o.update(saved)
                    elif isinstance(o, list):
                        o[:] = saved
                    else:
                        o.clear(); o.update(saved)


def registers(I):
    out = []
    for name, o in global_objects(I)[0]:
        if type(o) is reg and o.size > 0:      # also registers first reached as the base of a slice (al.x = eax)
            out.append(o)
    # unique by ref
    seen, res = set(), []
    for r_ in out:
        if r_.ref not in seen:
            seen.add(r_.ref); res.append(r_)
    return res


def concrete_state(I, k):
    m = mapper()
    for j, r_ in enumerate(registers(I)):
        if k == 2 and j % 2 == 0:
            continue          # state 2 is partial: every other register stays symbolic (branch conditions survive)
        # moderate magnitudes only: amoco computes `cst << n` on Python ints before masking, so a
        # register-valued shift amount of 2^31 would allocate gigabytes
        v = ((j * 37 + 11 + 5 * k) & 0xFF) if k != 1 else ((0xFFFF - 3 * j) & ((1 << r_.size) - 1))
        try:
            m[r_] = cst(v, r_.size)
        except Exception:
            pass
    return m


def decode_block(I, bss):
    out = []
    for bs in bss:
        isa.reset(I.dis)
        i = I.dis(bs)
        if i is None:
            return None
        if hasattr(I.cpu, "PC"):
            try:
                i.address = I.cpu.cst(0x1000, I.cpu.PC().size)
            except Exception:
                pass
        out.append(i)
    return out


def canon_map(m):
    out = []
    for loc, v in m:
        out.append((str(loc), str(v), getattr(v, "size", None)))
    return sorted(out)


def evaluate(I, m, states):
    res = []
    for st in states:
        try:
            res.append(canon_map(st >> m))
        except Exception as ex:
            res.append("raise:" + type(ex).__name__)
    return res


def tst_flags(m):
    """the condition expressions of the conditional (tst) nodes in the values of map m"""
    out = []
    def visit(e, depth=0):
        if depth > 12 or not isinstance(e, exp):
            return
        if type(e).__name__ == "tst":
            out.append(e.tst)
        for a in ("x", "l", "r", "a", "base", "tst"):
            try:
                visit(getattr(e, a), depth + 1)
            except AttributeError:
                pass
        if isinstance(e, comp):
            for p in e.parts.values():
                visit(p, depth + 1)
    for loc, v in m:
        visit(v)
    return out


def assume_eval(I, m):
    """evaluate map m along a path on which one of its own branch conditions is assumed false
    (an environment with path conditions, as `mapper.assume` produces)"""
    fl = tst_flags(m)
    if not fl:
        return False
    E = mapper()
    r0 = registers(I)[0]
    E[r0] = r0
    E.conds = [~fl[0]]
    try:
        canon_map(E >> m)
    except Exception:
        pass
    return True


def main(tier):
    ck = Check("C10", tier)
    quick = tier == "quick"
    r = rng("C10")
    broken = ck.build_and_audit(["Amoco.Props.C10", "amoco_driver"])
    drv = Driver()
    isas, bad = isa.load_all()
    isas = {n: I for n, I in isas.items() if getattr(I.dis.iclass, "_uarch", None)}
    for I in isas.values():
        I.set_mode(0)
    ck.cov["isa_modules"] = sorted(isas)
    W = World(isas)
    ck.cov["global_slots"] = {n: len(v) for n, v in W.objs.items()}
    # The footprint table is measured on a FIXED sample (independent of VERIF_SEED): one spec-directed
    # instruction per registered spec in the quick tier (four in thorough), so that the table — and
    # hence the list of dirty rows — is the same on every run of the same tree.  VERIF_SEED drives the
    # random histories of the oracle below, which draw their instructions from the same pool.
    import random as _random
    per_spec = 1 if quick else 4
    pools, states, table, rows = {}, {}, [], {}
    writes = {}            # isa -> {instruction bytes -> registers its map writes}
    row_example = {}
    # ---- measure footprints ------------------------------------------------------------------------
    for name in sorted(isas):
        I = isas[name]
        e = -1 if I.be else 1
        specs = isa.module_specs(I, 0)
        fr = _random.Random("C10-footprint-" + name)
        states[name] = [concrete_state(I, 0), concrete_state(I, 1), concrete_state(I, 2)]
        W.restore({name})
        pool = []
        wr = writes.setdefault(name, {})
        # decode-only footprints on more samples per spec (a hook may touch a shared object only for some
        # field values, or before it rejects the input and another spec takes over): one snapshot per batch
        for s in specs:
            batch = [isa.directed_bytes(s, e, fr) for _ in range(6 if quick else 16)]
            before = W.snap({name})
            got = []
            for bs in batch:
                try:
                    isa.reset(I.dis)
                    got.append((bs, I.dis(bs)))
                except Exception:
                    pass
            if W.diff(before):
                W.restore({name})
                for bs, _ in got:
                    before = W.snap({name})
                    try:
                        isa.reset(I.dis)
                        i = I.dis(bs)
                    except Exception:
                        i = None
                    d = W.diff(before)
                    if d and i is not None:
                        key = (name, "decode:%s" % i.mnemonic)
                        row = rows.setdefault(key, {})
                        row_example.setdefault(key, bs[:len(i.bytes)])
                        for (n2, slot, sname, val) in d:
                            row[(slot if n2 == name else 50000 + slot, sname if n2 == name else n2 + ":" + sname)] = val
                        ck.count("footprint.decode-batch.dirty")
                    W.restore({name})
            ck.count("footprint.decode-batch")
            # execution-only footprints on a few more samples per spec (an operand value — a port number, a
            # register index — may decide whether a shared table is touched)
            before = W.snap({name})
            ran = []
            for bs, i in got[: (2 if quick else 6)]:
                if i is None:
                    continue
                try:
                    if hasattr(I.cpu, "PC"):
                        try:
                            i.address = I.cpu.cst(0x1000, I.cpu.PC().size)
                        except Exception:
                            pass
                    m_ = mapper(); i(m_)
                    ran.append((bs, i))
                except Exception:
                    pass
            if ran and W.diff(before):
                W.restore({name})
                for bs, i in ran:
                    before = W.snap({name})
                    try:
                        m_ = mapper(); i(m_)
                    except Exception:
                        pass
                    d = W.diff(before)
                    if d:
                        key = (name, "exec:%s" % i.mnemonic)
                        row = rows.setdefault(key, {})
                        row_example.setdefault(key, bs[:len(i.bytes)])
                        for (n2, slot, sname, val) in d:
                            row[(slot if n2 == name else 50000 + slot, sname if n2 == name else n2 + ":" + sname)] = val
                        ck.count("footprint.exec-batch.dirty")
                    W.restore({name})
            ck.count("footprint.exec-batch")
        for s in [x for x in specs for _ in range(per_spec)]:
            bs = isa.directed_bytes(s, e, fr)
            before = W.snap({name})
            try:
                isa.reset(I.dis)
                i = I.dis(bs)
            except Exception:
                W.restore({name}); continue
            d1 = W.diff(before)
            if i is None:
                W.restore({name}); continue
            if hasattr(I.cpu, "PC"):
                try:
                    i.address = I.cpu.cst(0x1000, I.cpu.PC().size)
                except Exception:
                    pass
            phases = [("decode", d1)]
            before = W.snap({name})
            try:
                m = mapper(); i(m)
                phases.append(("exec", W.diff(before)))
                before = W.snap({name})
                evaluate(I, m, states[name])
                phases.append(("eval", W.diff(before)))
                before = W.snap({name})
                if assume_eval(I, m):
                    phases.append(("assume", W.diff(before)))
                pool.append(bs[:len(i.bytes)])
                wr[bs[:len(i.bytes)]] = frozenset(str(l) for l, _ in m if l._is_reg)
            except Exception:
                pass                      # raising semantics: C17's business
            for ph, d in phases:
                key = (name, "%s:%s" % (ph, i.mnemonic))
                row = rows.setdefault(key, {})
                if d and key not in row_example:
                    row_example[key] = bs[:len(i.bytes)]
                for (n2, slot, sname, val) in d:
                    row[(slot if n2 == name else 50000 + slot, sname if n2 == name else n2 + ":" + sname)] = val
                ck.case(("fp", name, bs, ph), nontrivial=True)
                ck.count("footprint.%s.%s" % (ph, "dirty" if d else "clean"))
            W.restore({name})
        pools[name] = pool
    table = [[k[0], k[1], [[slot, val] for (slot, sname), val in sorted(v.items())]] for k, v in sorted(rows.items())]
    ans = drv.ask({"op": "hist.check", "table": table})
    drv.close()
    ck.cov["footprint_rows"] = len(table)
    ck.cov["dirty_rows"] = [[k[0], k[1], sorted(set(sn for (_, sn) in v))[:4]] for k, v in sorted(rows.items()) if v][:60]
    model_dirty = sorted(tuple(x) for x in ans.get("dirty", [])) if isinstance(ans, dict) else None
    mine = sorted((k[0], k[1]) for k, v in rows.items() if v)
    ck.oblige("checker allClean/dirty agrees with the harness's reading of the table", model_dirty == mine)
    if model_dirty != mine:
        ck.report("C10:checker", "Lean checker and harness disagree on the dirty rows", "checker", "Amoco.Hist.dirty", real=mine[:10], model=(model_dirty or [])[:10], failing_input_found=False)

    # ---- oracle: histories ------------------------------------------------------------------------------
    def block_of(name):
        pool = pools[name]
        if not pool:
            return None
        return [r.choice(pool) for _ in range(r.choice([1, 2, 3]))]

    def build(name, bss):
        I = isas[name]
        ins = decode_block(I, bss)
        if ins is None:
            return None
        m = mapper()
        for i in ins:
            i(m)
        return m

    def run_op(name, bs, what):
        """one history step on ISA `name`: decode / execute / evaluate"""
        I = isas[name]
        try:
            ins = decode_block(I, [bs])
            if ins is None or what == "decode":
                return
            m = mapper(); ins[0](m)
            if what == "eval":
                evaluate(I, m, states[name])
            elif what == "assume":
                assume_eval(I, m)
        except Exception:
            pass

    def snap_eval(name, v):
        """the constants expression v evaluates to under the ISA's concrete states (None where it stays symbolic)"""
        out = []
        for st in states[name]:
            try:
                x = st(v)
                out.append(x.v & ((1 << x.size) - 1) if getattr(x, "_is_cst", False) else None)
            except Exception:
                out.append(None)
        return out

    def trial(name, bss, H):
        """fresh world; build map(B); evaluate; run H; re-evaluate the old map and a rebuilt one.
        returns None (unusable) | "unstable" | (R0, R1, R2, first dirtying step or None)"""
        inv = set([name] + [h[0] for h in H])
        W.restore(inv)
        try:
            m0 = build(name, bss)
        except Exception:
            return None
        if m0 is None:
            return None
        R0 = evaluate(isas[name], m0, states[name])
        if evaluate(isas[name], m0, states[name]) != R0:
            # not stable under re-evaluation with NO history at all: a value-semantics matter (C13)
            return "unstable"
        # expressions already computed: values read out of a second, running state map of the same block;
        # the same-ISA "exec" steps of H are ALSO applied to that running map (an emulator executing on),
        # and what was read before must keep evaluating to the same constants
        snaps = []
        try:
            mrun = build(name, bss)
            for loc, _ in mrun:
                if loc._is_reg and len(snaps) < 12:
                    v = mrun[loc]
                    snaps.append((str(loc), v, snap_eval(name, v)))
        except Exception:
            mrun = None
        first = None
        for (hn, bs, what) in H:
            before = W.snap(inv)
            run_op(hn, bs, what)
            if first is None and W.diff(before):
                first = (hn, bs, what)
            if mrun is not None and hn == name and what == "exec" and snaps:
                try:
                    ins = decode_block(isas[name], [bs])
                    if ins:
                        ins[0](mrun)
                except Exception:
                    mrun = None
                    continue
                for (ls, v, e0) in snaps:
                    e1 = snap_eval(name, v)
                    bad = [k for k, (a, b) in enumerate(zip(e0, e1)) if a is not None and b is not None and a != b]
                    if bad:
                        ck.count("snapshot.changed")
                        ck.report("C10:%s:snapshot:%s" % (name, ins[0].mnemonic),
                                  "%s: the value read for %s from a state map after block %s no longer evaluates to %#x but to %#x once %s (%s) was executed on that state" % (
                                      name, ls, [b.hex() for b in bss], e0[bad[0]], e1[bad[0]], ins[0].mnemonic, bs.hex()),
                                  "oracle", "Amoco.Hist.Props.history_independence (an expression already computed keeps its meaning)",
                                  case={"isa": name, "block": [b.hex() for b in bss], "history": [[h_[0], h_[1].hex(), h_[2]] for h_ in H], "location": ls},
                                  real=e1, expected=e0)
                        snaps = []
                        break
                ck.count("snapshot.checked")
        R1 = evaluate(isas[name], m0, states[name])          # the old map, after H
        before = W.snap(inv)
        try:
            m1 = build(name, bss)
            R2 = evaluate(isas[name], m1, states[name]) if m1 is not None else R0
        except Exception:
            R2 = R0
        if first is None and (R2 != R0 or R1 != R0):
            # the block's own construction may be what dirties the world (its first build precedes the second)
            for b in bss:
                W.restore(inv)
                before = W.snap(inv)
                run_op(name, b, "exec")
                if W.diff(before):
                    first = (name, b, "exec-of-the-block-itself")
                    break
        return R0, R1, R2, first

    ntr = 150 if quick else 3000
    names = [n for n in sorted(isas) if pools[n]]
    # registers nearly every instruction writes (pc, flags) do not steer anything
    common = {}
    for n in names:
        cnt = {}
        for b_, ws in writes.get(n, {}).items():
            for x in ws:
                cnt[x] = cnt.get(x, 0) + 1
        common[n] = set(x for x, c in cnt.items() if c > 0.3 * max(len(pools[n]), 1))
    by_reg = {}
    for n in names:
        d_ = by_reg.setdefault(n, {})
        for b_, ws in writes.get(n, {}).items():
            for x in ws - common[n]:
                d_.setdefault(x, []).append(b_)
    observed = {}          # (isa, op) -> True, for dirty rows with an observable effect
    for t in range(ntr):
        name = r.choice(names)
        bss = block_of(name)
        H = []
        for _ in range(r.choice([0, 1, 2, 4, 8])):
            hn = name if r.random() < 0.7 else r.choice(names)
            H.append((hn, r.choice(pools[hn]), r.choice(["decode", "exec", "eval", "assume"])))
        if t % 2 == 1:
            # steered: one instruction, then instructions that write a register it writes, executed on
            # the same running state (what was read from that state before must keep its meaning)
            b0 = r.choice(pools[name])
            regs0 = sorted(writes[name].get(b0, frozenset()) - common[name])
            if regs0:
                bss = [b0]
                cands = by_reg[name].get(r.choice(regs0), [b0])
                H = [(name, r.choice(cands), "exec") for _ in range(r.choice([1, 2, 3]))]
        res = trial(name, bss, H)
        if res is None:
            continue
        if res == "unstable":
            ck.count("block-unstable-without-history")
            continue
        R0, R1, R2, first = res
        ck.case(("hist", name, tuple(bss), tuple(H)), nontrivial=True)
        ck.count("history.len%d.%s" % (len(H), "dirtying" if first else "clean"))
        if R1 != R0 or R2 != R0:
            kind = "the old map re-evaluated" if R1 != R0 else "the map rebuilt"
            if first is None:
                # nothing tracked was modified: instability of the map object itself, or untracked global state
                again = trial(name, bss, [])
                if not isinstance(again, tuple) or again[1] != again[0]:
                    ck.count("block-unstable-without-history")
                    continue
                # must be reproducible as an effect of H, twice, to count
                rep = [trial(name, bss, H) for _ in range(2)]
                if not all(isinstance(x, tuple) and (x[1] != x[0] or x[2] != x[0]) for x in rep):
                    ck.count("unreproducible-difference-ignored")
                    continue
                culprit, sig = None, "C10:%s:untracked-state" % name
            else:
                ins = decode_block(isas[first[0]], [first[1]])
                ph = "exec" if first[2].startswith("exec") else first[2]
                culprit = (first[0], ph, ins[0].mnemonic if ins else "?", first[1])
                sig = "C10:%s:%s" % (culprit[0], culprit[2])
                observed[(culprit[0], "%s:%s" % (culprit[1], culprit[2]))] = True
            W.restore()
            ck.report(sig, "%s: after %s, %s for block %s gives a different result" % (
                name, ("%s of %s %s (%s)" % (culprit[1], culprit[0], culprit[2], culprit[3].hex())) if culprit else "a history that modifies no tracked global object", kind, [b.hex() for b in bss]),
                "oracle", "Amoco.Hist.Props.history_independence (write footprint not empty)",
                case={"isa": name, "block": [b.hex() for b in bss], "history": [[hn, bs.hex(), what] for hn, bs, what in H],
                      "first_dirtying_step": [culprit[0], culprit[3].hex(), culprit[1]] if culprit else None},
                real=[R1[0] if R1 else None, R2[0] if R2 else None], expected=R0[0] if R0 else None)
        if t == 0:
            ck.sample({"isa": name, "block": [b.hex() for b in bss], "history": [[hn, bs.hex(), what] for hn, bs, what in H], "result": (R0[0][:3] if isinstance(R0[0], list) else R0[0])})
    W.restore()
    # ---- dirty rows: each one breaks the hypothesis of history_independence_clean ---------------------------
    for (iname, opname), v in sorted(rows.items()):
        if not v:
            continue
        phase, mn = opname.split(":", 1)
        # exec/eval rows: the exec phase includes decode's effects only if decode was clean
        sig = "C10:%s:%s" % (iname, mn)      # one finding per ISA+mnemonic, whatever the phase
        slots = sorted(set(sn for (_, sn) in v))
        witness = None
        if sig not in ck.known and not observed.get((iname, opname)) and (iname, opname) in row_example:
            # a dirty row that is not a known finding: search the ISA's pool for a block whose map, rebuilt or
            # re-evaluated after this single operation, gives a different result
            step1 = (iname, row_example[(iname, opname)], phase if phase != "decode" else "decode")
            for b in pools.get(iname, [])[:60]:
                rs = trial(iname, [b], [step1])
                if isinstance(rs, tuple) and (rs[1] != rs[0] or rs[2] != rs[0]):
                    witness = {"block": [b.hex()], "history": [[iname, step1[1].hex(), step1[2]]]}
                    observed[(iname, opname)] = True
                    break
            W.restore()
        ck.report(sig, "%s: %s of %s modifies process-global objects (%s): results computed later may differ" % (iname, phase, mn, ", ".join(slots[:5])),
                  "proof-obligation", "Amoco.Hist.Props.history_independence_clean: allClean(measured footprints) fails for this row",
                  case={"isa": iname, "phase": phase, "mnemonic": mn, "slots": slots[:20], "diverging": witness},
                  failing_input_found=bool(observed.get((iname, opname))))
    for b in broken:
        ck.report("C10:proof-obligation", "proof obligation broken: %s" % b[:300], "proof-obligation", b[:2000], failing_input_found=False)
    ck.assumptions += ["process-global state = expression objects reachable from the cpu module namespace at import time + `internals` dicts; "
                       "other global state (class attributes patched at run time, module-level caches) is not tracked",
                       "observations read the world only through those slots (hypothesis `hext` of the theorem)"]
    ck.trusted += ["harness/c10.py state-diff measurement of footprints"]
    return ck.finish("per ISA with semantics: footprint of decode/exec/eval measured on spec-directed instructions (one row per phase+mnemonic); "
                     "random histories of 1-8 decode/exec/eval steps (same and other ISAs) around blocks of 1-3 instructions, two concrete states")


if __name__ == "__main__":
    sys.exit(main(sys.argv[1] if len(sys.argv) > 1 else "quick"))
